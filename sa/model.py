"""E0/E1 - program model of the pydiffx package, built from source text only.

Nothing here imports or runs pydiffx.  Modules are parsed with ``ast``; the
model offers symbol tables, classes with C3 MRO, a constant folder and call
resolution helpers used by every check.
"""
import ast
import codecs
import hashlib
import os
import re

REPO = os.environ.get('VERIF_REPO', '/repo')
PKG_PARENT = os.path.join(REPO, 'python')
PKG = 'pydiffx'


class AnalysisError(Exception):
    """The analysis met something it has no rule for (exit 2, never a verdict)."""


class Unfoldable(Exception):
    pass


class Regex(object):
    """A folded ``re.compile`` constant."""

    def __init__(self, pattern, flags=0):
        self.pattern = pattern
        self.flags = flags

    def __repr__(self):
        return 'Regex(%r, %d)' % (self.pattern, self.flags)

    def __eq__(self, o):
        return isinstance(o, Regex) and (o.pattern, o.flags) == (self.pattern, self.flags)

    def __hash__(self):
        return hash((self.pattern, self.flags))


class External(object):
    """Reference to something outside the package (stdlib module, class...)."""

    def __init__(self, name):
        self.name = name

    def __repr__(self):
        return 'External(%s)' % self.name

    def __eq__(self, o):
        return isinstance(o, External) and o.name == self.name

    def __hash__(self):
        return hash(('ext', self.name))


class FunctionInfo(object):
    def __init__(self, module, cls, node, kind):
        self.module = module
        self.cls = cls
        self.node = node
        self.name = node.name
        self.kind = kind  # function|method|classmethod|staticmethod|property-get|property-set

    @property
    def qualname(self):
        if self.cls is not None:
            suffix = ''
            if self.kind == 'property-set':
                suffix = '.setter'
            return '%s:%s.%s%s' % (self.module.name, self.cls.name, self.name, suffix)
        return '%s:%s' % (self.module.name, self.name)

    @property
    def short(self):
        if self.cls is not None:
            return '%s.%s' % (self.cls.name, self.name)
        return self.name

    def params(self):
        a = self.node.args
        names = [x.arg for x in a.posonlyargs + a.args]
        return names

    def param_defaults(self):
        """name -> default expr node (or absent)."""
        a = self.node.args
        pos = a.posonlyargs + a.args
        out = {}
        for p, d in zip(pos[len(pos) - len(a.defaults):], a.defaults):
            out[p.arg] = d
        for p, d in zip(a.kwonlyargs, a.kw_defaults):
            if d is not None:
                out[p.arg] = d
        return out

    def has_varkw(self):
        return self.node.args.kwarg is not None

    def loc(self, node=None):
        n = node if node is not None else self.node
        return '%s:%d' % (self.module.relpath, getattr(n, 'lineno', 0))

    def __repr__(self):
        return '<fn %s>' % self.qualname


class ClassInfo(object):
    def __init__(self, module, node):
        self.module = module
        self.node = node
        self.name = node.name
        self.base_exprs = node.bases
        self.bases = []        # ClassInfo | External
        self.attrs = {}        # name -> expr node (class-level simple assignments)
        self.methods = {}      # name -> FunctionInfo
        self.props = {}        # name -> {'get': fi, 'set': fi}
        self._mro = None

    @property
    def qualname(self):
        return '%s:%s' % (self.module.name, self.name)

    def mro(self):
        if self._mro is None:
            self._mro = _c3(self)
        return self._mro

    def repo_mro(self):
        return [c for c in self.mro() if isinstance(c, ClassInfo)]

    def find_attr(self, name):
        """(owner ClassInfo, expr) of a class-level attribute through the MRO."""
        for c in self.repo_mro():
            if name in c.attrs:
                return c, c.attrs[name]
        return None, None

    def find_method(self, name, after=None):
        """FunctionInfo of method ``name`` through the MRO (after class ``after``)."""
        mro = self.repo_mro()
        if after is not None:
            mro = mro[mro.index(after) + 1:]
        for c in mro:
            if name in c.methods:
                return c.methods[name]
        return None

    def find_prop(self, name):
        for c in self.repo_mro():
            if name in c.props:
                return c.props[name]
        return None

    def is_subclass_of(self, other):
        return other in self.mro()

    def external_bases(self):
        return [c.name for c in self.mro() if isinstance(c, External)]

    def __repr__(self):
        return '<class %s>' % self.qualname


def _c3(cls):
    def merge(seqs):
        res = []
        seqs = [list(s) for s in seqs if s]
        while seqs:
            for s in seqs:
                h = s[0]
                if not any(h in t[1:] for t in seqs):
                    break
            else:
                raise AnalysisError('inconsistent MRO for %s' % cls.name)
            res.append(h)
            seqs = [[x for x in s if x != h] for s in seqs]
            seqs = [s for s in seqs if s]
        return res
    parts = []
    for b in cls.bases:
        if isinstance(b, ClassInfo):
            parts.append(b.mro())
        else:
            parts.append([b])
    return [cls] + merge(parts + [list(cls.bases)])


class ModuleInfo(object):
    def __init__(self, name, path, relpath, src):
        self.name = name
        self.path = path
        self.relpath = relpath
        self.src = src
        try:
            self.tree = ast.parse(src, filename=path)
        except SyntaxError as e:
            raise AnalysisError('%s does not parse: %s' % (relpath, e))
        self.imports = {}    # local name -> ('module', modname) | ('from', modname, attr)
        self.assigns = {}    # name -> expr node
        self.funcs = {}      # name -> FunctionInfo
        self.classes = {}    # name -> ClassInfo

    def __repr__(self):
        return '<module %s>' % self.name


def _decorator_names(node):
    out = []
    for d in node.decorator_list:
        if isinstance(d, ast.Name):
            out.append(d.id)
        elif isinstance(d, ast.Attribute):
            out.append('%s.%s' % (getattr(d.value, 'id', '?'), d.attr))
        else:
            out.append('?')
    return out


class Program(object):
    """All non-test modules of the package."""

    def __init__(self, repo=None):
        self.repo = repo or REPO
        self.pkg_parent = os.path.join(self.repo, 'python')
        self.modules = {}
        self.digest = None
        self._fold_cache = {}
        self._load()

    # -- loading ---------------------------------------------------------
    def _load(self):
        root = os.path.join(self.pkg_parent, PKG)
        if not os.path.isdir(root):
            raise AnalysisError('package directory %s not found' % root)
        h = hashlib.sha256()
        paths = []
        for d, dirs, files in os.walk(root):
            dirs[:] = sorted(x for x in dirs if x not in ('tests', '__pycache__'))
            for f in sorted(files):
                if f.endswith('.py'):
                    paths.append(os.path.join(d, f))
        for p in sorted(paths):
            rel = os.path.relpath(p, self.pkg_parent)
            name = rel[:-3].replace(os.sep, '.')
            if name.endswith('.__init__'):
                name = name[:-9]
            with open(p, 'rb') as fh:
                raw = fh.read()
            h.update(rel.encode() + b'\0' + raw + b'\0')
            m = ModuleInfo(name, p, os.path.join('python', rel), raw.decode('utf-8'))
            self.modules[name] = m
        self.digest = h.hexdigest()
        for m in self.modules.values():
            self._index(m)
        for m in self.modules.values():
            for c in m.classes.values():
                self._resolve_bases(c)

    def _index(self, m):
        for s in m.tree.body:
            if isinstance(s, ast.Import):
                for a in s.names:
                    m.imports[a.asname or a.name.split('.')[0]] = ('module', a.name if a.asname else a.name.split('.')[0])
            elif isinstance(s, ast.ImportFrom):
                mod = s.module or ''
                if s.level:
                    base = m.name.split('.')
                    base = base[:len(base) - s.level + (1 if m.path.endswith('__init__.py') else 0)]
                    mod = '.'.join(base + ([mod] if mod else []))
                for a in s.names:
                    m.imports[a.asname or a.name] = ('from', mod, a.name)
            elif isinstance(s, ast.Assign):
                for t in s.targets:
                    if isinstance(t, ast.Name):
                        m.assigns[t.id] = s.value
            elif isinstance(s, ast.AnnAssign) and s.value is not None and isinstance(s.target, ast.Name):
                m.assigns[s.target.id] = s.value          # NAME: type = value
            elif isinstance(s, ast.FunctionDef):
                m.funcs[s.name] = FunctionInfo(m, None, s, 'function')
                m.funcs[s.name].decorators = _decorator_names(s)
            elif isinstance(s, ast.ClassDef):
                c = ClassInfo(m, s)
                m.classes[s.name] = c
                for b in s.body:
                    if isinstance(b, ast.Assign):
                        for t in b.targets:
                            if isinstance(t, ast.Name):
                                c.attrs[t.id] = b.value
                    elif isinstance(b, ast.AnnAssign) and b.value is not None and isinstance(b.target, ast.Name):
                        c.attrs[b.target.id] = b.value
                    elif isinstance(b, ast.FunctionDef):
                        decs = _decorator_names(b)
                        if 'property' in decs:
                            fi = FunctionInfo(m, c, b, 'property-get')
                            c.props.setdefault(b.name, {})['get'] = fi
                        elif any(d.endswith('.setter') for d in decs):
                            fi = FunctionInfo(m, c, b, 'property-set')
                            c.props.setdefault(b.name, {})['set'] = fi
                        elif 'classmethod' in decs:
                            c.methods[b.name] = FunctionInfo(m, c, b, 'classmethod')
                        elif 'staticmethod' in decs:
                            c.methods[b.name] = FunctionInfo(m, c, b, 'staticmethod')
                        elif decs:
                            raise AnalysisError('%s:%d unsupported decorator %s' % (m.relpath, b.lineno, decs))
                        else:
                            c.methods[b.name] = FunctionInfo(m, c, b, 'method')

    def _resolve_bases(self, c):
        for b in c.base_exprs:
            r = self.resolve_expr_ref(c.module, b)
            if isinstance(r, ClassInfo):
                c.bases.append(r)
            elif isinstance(r, External):
                c.bases.append(r)
            else:
                raise AnalysisError('%s: cannot resolve base %s' % (c.qualname, ast.dump(b)))

    # -- name resolution ---------------------------------------------------
    def resolve_name(self, module, name):
        """Resolve a module-level name to ClassInfo|FunctionInfo|('assign', module, expr)|External|ModuleInfo|None."""
        seen = set()
        while True:
            key = (module.name, name)
            if key in seen:
                raise AnalysisError('import cycle resolving %s' % (key,))
            seen.add(key)
            if name in module.classes:
                return module.classes[name]
            if name in module.funcs:
                return module.funcs[name]
            if name in module.assigns:
                return ('assign', module, module.assigns[name])
            if name in module.imports:
                imp = module.imports[name]
                if imp[0] == 'module':
                    if imp[1] in self.modules:
                        return self.modules[imp[1]]
                    return External(imp[1])
                modname, attr = imp[1], imp[2]
                sub = '%s.%s' % (modname, attr)
                if modname in self.modules:
                    pm = self.modules[modname]
                    if sub in self.modules and not (attr in pm.classes or attr in pm.funcs or attr in pm.assigns or attr in pm.imports):
                        return self.modules[sub]          # from package import submodule
                    module, name = pm, attr
                    continue
                if sub in self.modules:
                    return self.modules[sub]
                return External('%s.%s' % (modname, attr))
            return None

    def resolve_expr_ref(self, module, expr, cls=None):
        """Resolve Name / dotted Attribute to a model entity (no folding)."""
        if isinstance(expr, ast.Name):
            r = self.resolve_name(module, expr.id)
            if r is None:
                return External('builtins.%s' % expr.id)
            return r
        if isinstance(expr, ast.Attribute):
            base = self.resolve_expr_ref(module, expr.value, cls)
            if isinstance(base, ModuleInfo):
                return self.resolve_name(base, expr.attr)
            if isinstance(base, External):
                return External('%s.%s' % (base.name, expr.attr))
            if isinstance(base, ClassInfo):
                m = base.find_method(expr.attr)
                if m is not None:
                    return m
                owner, e = base.find_attr(expr.attr)
                if owner is not None:
                    return ('classattr', owner, e)
            return None
        return None

    # -- constant folding ----------------------------------------------------
    def fold(self, expr, module, cls=None, env=None):
        """Fold an expression to a Python value, or raise Unfoldable."""
        f = self.fold
        if isinstance(expr, ast.Constant):
            return expr.value
        if isinstance(expr, ast.Name):
            if env and expr.id in env:
                return env[expr.id]
            if cls is not None:
                owner, e = cls.find_attr(expr.id) if expr.id in cls.attrs else (None, None)
                if owner is not None:
                    return f(e, owner.module, owner)
            r = self.resolve_name(module, expr.id)
            if r is None:
                v = self._fold_external('builtins.%s' % expr.id)
                if not isinstance(v, External):
                    return v
            return self._fold_ref(r, expr)
        if isinstance(expr, ast.Attribute):
            base = None
            try:
                ref = self.resolve_expr_ref(module, expr, cls)
            except AnalysisError:
                ref = None
            if ref is not None and not (isinstance(ref, External)):
                return self._fold_ref(ref, expr)
            if isinstance(ref, External):
                return self._fold_external(ref.name)
            raise Unfoldable(ast.dump(expr))
        if isinstance(expr, ast.Tuple):
            return tuple(f(e, module, cls, env) for e in expr.elts)
        if isinstance(expr, ast.List):
            return [f(e, module, cls, env) for e in expr.elts]
        if isinstance(expr, ast.Set):
            return frozenset(f(e, module, cls, env) for e in expr.elts)
        if isinstance(expr, ast.Dict):
            out = {}
            for k, v in zip(expr.keys, expr.values):
                if k is None:
                    out.update(f(v, module, cls, env))
                else:
                    out[f(k, module, cls, env)] = f(v, module, cls, env)
            return out
        if isinstance(expr, ast.BinOp):
            l = f(expr.left, module, cls, env)
            r = f(expr.right, module, cls, env)
            try:
                if isinstance(expr.op, ast.BitOr):
                    return l | r
                if isinstance(expr.op, ast.Add):
                    return l + r
                if isinstance(expr.op, ast.Sub):
                    return l - r
                if isinstance(expr.op, ast.Mult):
                    return l * r
                if isinstance(expr.op, ast.Mod):
                    return l % r
            except Exception as e:
                raise Unfoldable('%s: %s' % (ast.dump(expr), e))
            raise Unfoldable(ast.dump(expr))
        if isinstance(expr, ast.UnaryOp) and isinstance(expr.op, ast.USub):
            return -f(expr.operand, module, cls, env)
        if isinstance(expr, ast.JoinedStr):
            parts = []
            for v in expr.values:
                if isinstance(v, ast.Constant):
                    parts.append(v.value)
                elif isinstance(v, ast.FormattedValue) and v.format_spec is None and v.conversion == -1:
                    parts.append(str(f(v.value, module, cls, env)))
                else:
                    raise Unfoldable('f-string')
            return ''.join(parts)
        if isinstance(expr, ast.Call) and isinstance(expr.func, ast.Name) and expr.func.id in ('locals', 'vars') \
                and not expr.args and not expr.keywords and cls is not None:
            # locals() in a class body: the names the body has bound before this statement
            ns = {}
            for st in cls.node.body:
                if getattr(st, 'lineno', 0) >= expr.lineno:
                    break
                tgt = None
                if isinstance(st, ast.Assign) and len(st.targets) == 1 and isinstance(st.targets[0], ast.Name):
                    tgt, val = st.targets[0].id, st.value
                elif isinstance(st, ast.AnnAssign) and isinstance(st.target, ast.Name) and st.value is not None:
                    tgt, val = st.target.id, st.value
                if tgt is not None:
                    try:
                        ns[tgt] = f(val, module, cls, env)
                    except Unfoldable:
                        raise Unfoldable('locals() of a class body with a non-constant member (%s)' % tgt)
            return ns
        if isinstance(expr, ast.Call):
            fn = expr.func
            ref = None
            if isinstance(fn, (ast.Name, ast.Attribute)):
                try:
                    ref = self.resolve_expr_ref(module, fn, cls)
                except AnalysisError:
                    ref = None
            if isinstance(ref, FunctionInfo) and ref.cls is None and not getattr(self, '_folding_by_interp', False):
                # a module-level table built by a helper function of the package: evaluate the helper
                args = [f(a, module, cls, env) for a in expr.args]
                kwargs = {kw.arg: f(kw.value, module, cls, env) for kw in expr.keywords if kw.arg}
                return self._fold_by_interp(ref, args, kwargs)
            if isinstance(ref, External):
                if ref.name == 're.compile':
                    args = [f(a, module, cls, env) for a in expr.args]
                    flags = 0
                    if len(args) > 1:
                        flags = args[1]
                    for kw in expr.keywords:
                        if kw.arg == 'flags':
                            flags = f(kw.value, module, cls, env)
                    return Regex(args[0], int(flags))
                if ref.name in ('builtins.frozenset', 'builtins.set') and len(expr.args) <= 1:
                    if not expr.args:
                        return frozenset()
                    return frozenset(f(expr.args[0], module, cls, env))
                if ref.name == 'builtins.tuple' and len(expr.args) == 1:
                    return tuple(f(expr.args[0], module, cls, env))
                if ref.name == 'builtins.list' and len(expr.args) == 1:
                    return list(f(expr.args[0], module, cls, env))
                if ref.name == 'builtins.sorted' and len(expr.args) == 1 and not expr.keywords:
                    try:
                        return sorted(f(expr.args[0], module, cls, env))
                    except TypeError:
                        raise Unfoldable('sorted')
                if ref.name == 'builtins.dict' and not expr.args:
                    return {kw.arg: f(kw.value, module, cls, env) for kw in expr.keywords}
            if isinstance(fn, ast.Attribute) and fn.attr in ('encode', 'decode', 'lower', 'upper', 'strip', 'lstrip', 'rstrip', 'format',
                                                              'join', 'replace', 'keys', 'values', 'items', 'copy', 'union') \
                    and not isinstance(ref, (FunctionInfo, ClassInfo)):
                # a pure method of a foldable constant (e.g. PATTERN.encode('ascii'))
                try:
                    base = f(fn.value, module, cls, env)
                except Unfoldable:
                    base = None
                if isinstance(base, (str, bytes, dict, frozenset, tuple, list)) and not expr.keywords:
                    args = [f(a, module, cls, env) for a in expr.args]
                    try:
                        r_ = getattr(base, fn.attr)(*args)
                    except Exception as e:
                        raise Unfoldable('%s: %s' % (ast.dump(expr)[:60], e))
                    if fn.attr in ('keys', 'values', 'items'):
                        r_ = list(r_)
                    return r_
            raise Unfoldable(ast.dump(expr)[:80])
        if isinstance(expr, ast.Subscript):
            v = f(expr.value, module, cls, env)
            i = f(expr.slice, module, cls, env)
            try:
                return v[i]
            except Exception:
                raise Unfoldable('subscript')
        if isinstance(expr, (ast.ListComp, ast.SetComp, ast.DictComp, ast.GeneratorExp)):
            # comprehensions over foldable iterables (tables built from tables)
            results = []

            def bind(target, value, e_):
                if isinstance(target, ast.Name):
                    e_[target.id] = value
                elif isinstance(target, (ast.Tuple, ast.List)):
                    vals = list(value)
                    if len(vals) != len(target.elts):
                        raise Unfoldable('comprehension unpacking')
                    for t_, v_ in zip(target.elts, vals):
                        bind(t_, v_, e_)
                else:
                    raise Unfoldable('comprehension target')

            def gen(i, e_):
                if i == len(expr.generators):
                    if isinstance(expr, ast.DictComp):
                        results.append((f(expr.key, module, cls, e_), f(expr.value, module, cls, e_)))
                    else:
                        results.append(f(expr.elt, module, cls, e_))
                    return
                g = expr.generators[i]
                it = f(g.iter, module, cls, e_)
                if isinstance(it, dict):
                    it = list(it)
                if isinstance(it, frozenset):
                    it = sorted(it, key=repr)
                if not isinstance(it, (list, tuple)):
                    raise Unfoldable('comprehension over %s' % type(it).__name__)
                if len(results) > 5000:
                    raise Unfoldable('comprehension too large')
                for item in it:
                    e2 = dict(e_ or {})
                    bind(g.target, item, e2)
                    ok = True
                    for cond in g.ifs:
                        c_ = f(cond, module, cls, e2)
                        if not isinstance(c_, (bool, int, str, bytes, type(None), tuple, list, frozenset, dict)):
                            raise Unfoldable('comprehension condition')
                        if not c_:
                            ok = False
                            break
                    if ok:
                        gen(i + 1, e2)
            gen(0, dict(env or {}))
            if isinstance(expr, ast.DictComp):
                return dict(results)
            if isinstance(expr, ast.SetComp):
                return frozenset(results)
            return list(results) if isinstance(expr, ast.ListComp) else tuple(results)
        if isinstance(expr, ast.Compare) and len(expr.ops) == 1:
            l = f(expr.left, module, cls, env)
            r = f(expr.comparators[0], module, cls, env)
            op = expr.ops[0]
            try:
                if isinstance(op, ast.Eq):
                    return l == r
                if isinstance(op, ast.NotEq):
                    return l != r
                if isinstance(op, ast.In):
                    return l in r
                if isinstance(op, ast.NotIn):
                    return l not in r
            except Exception:
                pass
            raise Unfoldable('comparison')
        raise Unfoldable(type(expr).__name__)

    def _fold_by_interp(self, fi, args, kwargs):
        """Value of a call of a side-effect-free package function on constant arguments, obtained by abstract
        interpretation: exactly one path, returning a fully concrete value - anything else does not fold."""
        from sa.interp import Interp
        from sa.values import ADict, AList, concrete, is_concrete
        self._folding_by_interp = True
        try:
            I = Interp(self)
            paths = []

            def lift(v):
                # constant containers become (closed, definite) heap objects of the interpreter
                if isinstance(v, dict):
                    return ADict({k_: lift(x_) for k_, x_ in v.items()}, name='const')
                if isinstance(v, list):
                    return AList([lift(x_) for x_ in v])
                return v
            args = [lift(a_) for a_ in args]
            kwargs = {k_: lift(v_) for k_, v_ in kwargs.items()}
            try:
                for path in I.explore(lambda: I.call_function(fi, list(args), dict(kwargs), None)):
                    paths.append(path)
                    if len(paths) > 1:
                        raise Unfoldable('%s() has more than one path' % fi.name)
            except AnalysisError as e:
                raise Unfoldable('%s(): %s' % (fi.name, e))
            if len(paths) != 1 or paths[0].outcome != 'return':
                raise Unfoldable('%s() does not simply return' % fi.name)
            for ev in paths[0].events:
                if ev.kind.startswith('stream-') or (ev.kind in ('mutate', 'item-store', 'attr-store') and getattr(ev.data.get('obj'), 'shared', None)):
                    raise Unfoldable('%s() has effects' % fi.name)

            def conv(v, d=0):
                if d > 12:
                    raise Unfoldable('value too deep')
                if type(v).__name__ == 'ASet':
                    return frozenset(v.items)
                if isinstance(v, ADict):
                    if v.open:
                        raise Unfoldable('open mapping')
                    return {k: conv(x, d + 1) for k, x in v.items.items()}
                if isinstance(v, AList):
                    if v.unknown:
                        raise Unfoldable('unknown list')
                    return [conv(x, d + 1) for x in v.items]
                if isinstance(v, tuple):
                    return tuple(conv(x, d + 1) for x in v)
                if is_concrete(v):
                    c = concrete(v)
                    if isinstance(c, (str, bytes, int, float, bool, type(None), frozenset)):
                        return c
                    if isinstance(c, (tuple, list)):
                        return type(c)(conv(x, d + 1) for x in c)
                    if isinstance(c, dict):
                        return {k: conv(x, d + 1) for k, x in c.items()}
                raise Unfoldable('%s() returns a value that is not a constant' % fi.name)
            return conv(paths[0].value)
        finally:
            self._folding_by_interp = False

    def _fold_ref(self, r, expr):
        if r is None:
            raise Unfoldable('unresolved %s' % ast.dump(expr)[:60])
        if isinstance(r, tuple) and r[0] == 'assign':
            return self.fold(r[2], r[1])
        if isinstance(r, tuple) and r[0] == 'classattr':
            return self.fold(r[2], r[1].module, r[1])
        if isinstance(r, ClassInfo):
            return r
        if isinstance(r, FunctionInfo):
            return r
        if isinstance(r, External):
            return self._fold_external(r.name)
        raise Unfoldable('ref %r' % (r,))

    _EXT_OK = {
        're.M': re.M, 're.MULTILINE': re.MULTILINE, 're.S': re.S, 're.DOTALL': re.DOTALL,
        're.I': re.I, 're.IGNORECASE': re.IGNORECASE, 're.X': re.X, 're.VERBOSE': re.VERBOSE,
        're.A': re.A, 're.ASCII': re.ASCII, 're.U': re.U,
        'os.SEEK_CUR': os.SEEK_CUR, 'os.SEEK_SET': os.SEEK_SET, 'os.SEEK_END': os.SEEK_END,
        'io.SEEK_CUR': 1, 'io.SEEK_SET': 0, 'io.SEEK_END': 2,
        'builtins.None': None, 'builtins.True': True, 'builtins.False': False,
        'sys.maxsize': __import__('sys').maxsize,
    }
    _BUILTIN_TYPES = {'builtins.str': str, 'builtins.bytes': bytes, 'builtins.int': int,
                      'builtins.dict': dict, 'builtins.list': list, 'builtins.bool': bool,
                      'builtins.tuple': tuple, 'builtins.object': object, 'builtins.set': set,
                      'builtins.float': float}

    def _fold_external(self, name):
        if name in self._EXT_OK:
            return self._EXT_OK[name]
        if name in self._BUILTIN_TYPES:
            return self._BUILTIN_TYPES[name]
        if name.startswith('codecs.BOM'):
            try:
                return getattr(codecs, name.split('.', 1)[1])
            except AttributeError:
                raise Unfoldable(name)
        return External(name)

    def fold_class_attr(self, cls, name):
        owner, e = cls.find_attr(name)
        if owner is None:
            raise Unfoldable('%s.%s not defined' % (cls.name, name))
        return self.fold(e, owner.module, owner)

    def fold_module_const(self, modname, name):
        m = self.modules.get(modname)
        if m is None:
            raise AnalysisError('module %s not found (anchor vanished)' % modname)
        r = self.resolve_name(m, name)
        if r is None:
            raise AnalysisError('%s.%s not found (anchor vanished)' % (modname, name))
        try:
            return self._fold_ref(r, ast.Name(id=name))
        except Unfoldable as e:
            raise AnalysisError('%s.%s does not fold to a constant: %s' % (modname, name, e))

    # -- lookups with fail-closed anchors ---------------------------------
    def module(self, name):
        if name not in self.modules:
            raise AnalysisError('module %s not found (anchor vanished)' % name)
        return self.modules[name]

    def cls(self, modname, name):
        m = self.module(modname)
        r = self.resolve_name(m, name)
        if not isinstance(r, ClassInfo):
            raise AnalysisError('class %s.%s not found (anchor vanished)' % (modname, name))
        return r

    def func(self, modname, name):
        m = self.module(modname)
        r = self.resolve_name(m, name)
        if not isinstance(r, FunctionInfo):
            raise AnalysisError('function %s.%s not found (anchor vanished)' % (modname, name))
        return r

    def method(self, modname, clsname, name, kind=None):
        c = self.cls(modname, clsname)
        if kind in ('property-get', 'property-set'):
            p = c.find_prop(name)
            if not p or ('get' if kind == 'property-get' else 'set') not in p:
                raise AnalysisError('%s.%s property not found' % (clsname, name))
            return p['get' if kind == 'property-get' else 'set']
        fi = c.find_method(name)
        if fi is None:
            raise AnalysisError('method %s.%s.%s not found (anchor vanished)' % (modname, clsname, name))
        return fi

    def all_classes(self):
        for m in self.modules.values():
            for c in m.classes.values():
                yield c

    def all_functions(self):
        for m in self.modules.values():
            for f in m.funcs.values():
                yield f
            for c in m.classes.values():
                for f in c.methods.values():
                    yield f
                for p in c.props.values():
                    for f in p.values():
                        yield f

    # -- call resolution ----------------------------------------------------
    def resolve_call(self, fi, call, self_cls=None, local_types=None):
        """Resolve the callee of ``call`` inside function ``fi``.

        Returns a list of FunctionInfo (package callees), or External, or None
        (unresolved).  ``self_cls`` is the dynamic class of ``self`` (defaults
        to the defining class); ``local_types`` maps local names to ClassInfo.
        """
        fn = call.func
        module = fi.module
        cls = self_cls or fi.cls
        local_types = local_types or {}
        if isinstance(fn, ast.Name):
            if fn.id in local_types:
                c = local_types[fn.id]
                init = c.find_method('__init__')
                return [init] if init else External('object.__init__')
            r = self.resolve_name(module, fn.id)
            if isinstance(r, FunctionInfo):
                return [r]
            if isinstance(r, ClassInfo):
                init = r.find_method('__init__')
                return [init] if init else External('%s.__init__' % r.name)
            if isinstance(r, External):
                return r
            if r is None:
                return External('builtins.%s' % fn.id)
            return None
        if isinstance(fn, ast.Attribute):
            v = fn.value
            first = fi.params()[0] if fi.params() else None
            if isinstance(v, ast.Name) and v.id == first and fi.cls is not None and fi.kind != 'staticmethod':
                m = cls.find_method(fn.attr)
                if m is not None:
                    return [m]
                return None
            if (isinstance(v, ast.Call) and isinstance(v.func, ast.Name) and v.func.id == 'super'):
                after = fi.cls
                if v.args:
                    r = self.resolve_expr_ref(module, v.args[0])
                    if isinstance(r, ClassInfo):
                        after = r
                m = cls.find_method(fn.attr, after=after)
                if m is not None:
                    return [m]
                return External('super.%s' % fn.attr)
            if isinstance(v, ast.Name) and v.id in local_types:
                m = local_types[v.id].find_method(fn.attr)
                if m is not None:
                    return [m]
                return None
            try:
                r = self.resolve_expr_ref(module, fn, fi.cls)
            except AnalysisError:
                r = None
            if isinstance(r, FunctionInfo):
                return [r]
            if isinstance(r, External):
                return r
            if isinstance(r, ClassInfo):
                init = r.find_method('__init__')
                return [init] if init else External('%s.__init__' % r.name)
            return None
        return None


def walk_no_nested(node):
    """ast.walk that does not descend into nested function/class definitions."""
    todo = list(ast.iter_child_nodes(node))
    while todo:
        n = todo.pop()
        yield n
        if isinstance(n, (ast.FunctionDef, ast.ClassDef, ast.Lambda, ast.AsyncFunctionDef)):
            continue
        todo.extend(ast.iter_child_nodes(n))


def norm(node):
    """Normalised source text of a node (used as finding key, never line numbers)."""
    try:
        return ' '.join(ast.unparse(node).split())
    except Exception:
        return ast.dump(node)[:120]


def spec_text(repo, name):
    p = os.path.join(repo or REPO, 'docs', 'spec', name)
    try:
        with open(p, encoding='utf-8') as fh:
            return fh.read()
    except OSError:
        raise AnalysisError('specification file %s not found' % p)
