"""Function summaries for effect-free utility functions.

A summary is computed once by exploring the function alone with fully
abstract parameters; calls to it are then replaced by a stub that re-emits the
function's raise sources (with the call-site arguments as operands) and
returns a value of the summarised shape.  This keeps the number of paths of
the callers multiplicative in *their own* branches only.
"""
import ast

from sa.model import AnalysisError
from sa.values import ADict, AList, AObj, Unk, concrete, is_concrete, kind_of, taint_of
from sa.interp import Interp, AbsRaise, exc_name, ExcValue


class Summary(object):
    def __init__(self, fi):
        self.fi = fi
        self.sinks = []        # (exc, node, fi, why, [param names feeding operands], caught)
        self.raises = []       # (exc ClassInfo|name, node, fi)
        self.returns = []      # abstract descriptions
        self.effects = []
        self.paths = 0


def _roots(v, params, depth=0, acc=None):
    """Names of the parameters a value derives from (by taint labels P:<name>)."""
    out = set()
    for t in taint_of(v):
        if t.startswith('P:'):
            out.add(t[2:])
    return out


KEEP_FACTS = ('truthy', 'codec-ok', 'ascii-only', 'strip-truthy')


def signature(fi, argmap):
    sig = []
    for n in fi.params():
        v = argmap.get(n)
        if is_concrete(v) and isinstance(concrete(v), (type(None), bool, int, str, bytes)):
            sig.append((n, 'const', concrete(v)))
        elif isinstance(v, Unk):
            sig.append((n, 'kinds', v.kinds if v.kinds is None or 'NoneType' in v.kinds else ('nonnull', v.kinds),
                        tuple(sorted(f for f in v.facts if f in KEEP_FACTS)),
                        tuple(sorted(map(repr, v.in_sets)))))
        else:
            sig.append((n, 'kinds', kind_of(v), (), ()))
    return tuple(sig)


def summarise(P, fi, stubs=None, sig=None, argmap=None):
    I = Interp(P, stubs=stubs or {})
    S = Summary(fi)
    names = fi.params()
    defaults = fi.param_defaults()

    def thunk():
        args = []
        for i, n in enumerate(names):
            if sig is not None and sig[i][1] == 'const':
                args.append(sig[i][2])
                continue
            u = Unk('p:%s' % n, taint=['P:%s' % n, 'ARG'], src=('param', n))
            u.param_name = n
            if sig is not None:
                k_ = sig[i][2]
                u.kinds = k_[1] if isinstance(k_, tuple) and k_ and k_[0] == 'nonnull' else k_
                for f in sig[i][3]:
                    u.facts.add(f)
                a = argmap.get(n) if argmap else None
                if isinstance(a, Unk):
                    u.in_sets = list(a.in_sets)
            args.append(u)
        S._args = args
        return I.call_function(fi, args, {}, None)
    seen_sink = set()
    seen_raise = set()
    rets = []
    for path in I.explore(thunk):
        S.paths += 1
        if S.paths > 20000:
            raise AnalysisError('summary of %s: too many paths' % fi.qualname)
        for ev in path.events:
            if ev.kind == 'mayraise' and not ev.data['caught']:
                roots = set()
                for o in ev.data.get('operands', ()):
                    roots |= _roots(o, names)
                key = (exc_name(ev.data['exc']), id(ev.node))
                if key not in seen_sink:
                    seen_sink.add(key)
                    S.sinks.append((ev.data['exc'], ev.node, ev.fi, ev.data['why'], sorted(roots)))
            elif ev.kind in ('stream-write', 'stream-seek', 'stream-read', 'attr-store', 'mutate', 'item-store'):
                obj = ev.data.get('obj', ev.data.get('stream'))
                if isinstance(obj, Unk) and _roots(obj, names):
                    S.effects.append((ev.kind, ev.node))
        if path.outcome == 'raise':
            e = path.value
            key = (e.exc.exc_name, id(e.site))
            if key not in seen_raise:
                seen_raise.add(key)
                st = getattr(e, 'origin_stack', None) or (fi,)
                S.raises.append((e.exc.exc, e.site, st[-1], e.explicit, e.note))
        elif path.outcome == 'return':
            rets.append(path.value)
    _describe.argids = {id(a): n for a, n in zip(getattr(S, '_args', []), names) if isinstance(a, Unk)}
    S.returns = _join_returns(rets, names, S)
    return S


def _describe(v, names):
    if isinstance(v, tuple):
        return ('tuple', [_describe(x, names) for x in v])
    if is_concrete(v):
        return ('const', concrete(v))
    if isinstance(v, Unk):
        # derived from a parameter by identity / slicing?
        x = v
        hops = 0
        while isinstance(x, Unk) and hops < 6:
            if x.src and x.src[0] == 'param':
                return ('like-param', x.src[1], sorted(_roots(v, names)))
            if x.src and x.src[0] in ('slice', 'derive') and isinstance(x.src[1], Unk):
                x = x.src[1]
                hops += 1
                continue
            break
        enc_by = []
        argids = getattr(_describe, 'argids', {})
        for f in v.facts:
            if isinstance(f, tuple) and f[0] == 'encoded-by-param':
                enc_by.append(f[1])
        return ('unk', sorted(v.kinds) if v.kinds is not None else None, sorted(_roots(v, names)),
                sorted(f for f in v.facts if isinstance(f, str) and f in ('truthy',)), sorted(set(enc_by)))
    if isinstance(v, AList):
        return ('list', sorted(_roots(v, names)))
    if isinstance(v, ADict):
        return ('dict', sorted(_roots(v, names)))
    return ('other', type(v).__name__)


def _join_returns(rets, names, S):
    descs = []
    for r in rets:
        d = _describe(r, names)
        if d not in descs:
            descs.append(d)
    return descs


def _build(desc, argmap, name):
    kind = desc[0]
    if kind == 'tuple':
        return tuple(_build(d, argmap, '%s.%d' % (name, i)) for i, d in enumerate(desc[1]))
    if kind == 'const':
        return desc[1]
    if kind == 'like-param':
        a = argmap.get(desc[1])
        t = set()
        for r in desc[2]:
            t |= taint_of(argmap.get(r))
        u = Unk(name, kinds=kind_of(a), taint=t, src=('derive', a, 'summary') if isinstance(a, Unk) else None)
        if isinstance(a, Unk):
            for f in a.facts:
                if isinstance(f, tuple) and f[0] in ('encoded-by', 'encoded-in', 'encoded-by-param'):
                    u.facts.add(f)
        return u
    if kind == 'unk':
        t = set()
        for r in desc[2]:
            t |= taint_of(argmap.get(r))
        u = Unk(name, kinds=desc[1], taint=t, src=('summary', name))
        for f in desc[3]:
            u.facts.add(f)
        for pn in desc[4]:
            a = argmap.get(pn)
            if a is not None:
                u.facts.add(('encoded-by', id(a)))
                if is_concrete(a):
                    u.facts.add(('encoded-in', concrete(a)))
                if getattr(a, 'param_name', None):
                    # the caller is itself being summarised: the fact is about *its* parameter
                    u.facts.add(('encoded-by-param', a.param_name))
        return u
    if kind == 'list':
        t = set()
        for r in desc[1]:
            t |= taint_of(argmap.get(r))
        return AList([], elem=Unk(name + '[]', taint=t, src=('summary-elem', name)))
    if kind == 'dict':
        return ADict({}, open_=True, name=name)
    return Unk(name)


def _merge_descs(descs):
    """Join several return descriptions into one (consts -> unknown member of a set)."""
    if len(descs) == 1:
        return descs[0]
    if all(d[0] == 'tuple' and len(d[1]) == len(descs[0][1]) for d in descs):
        return ('tuple', [_merge_descs([d[1][i] for d in descs]) for i in range(len(descs[0][1]))])
    if all(d[0] == 'const' for d in descs):
        return ('oneof', [d[1] for d in descs])
    kinds = set()
    roots = set()
    unknown = False
    encs = None
    for d in descs:
        if d[0] == 'unk':
            encs = set(d[4]) if encs is None else (encs & set(d[4]))
        else:
            encs = set()
    for d in descs:
        if d[0] == 'const':
            kinds |= set(kind_of(d[1]) or ())
        elif d[0] == 'unk':
            if d[1] is None:
                unknown = True
            else:
                kinds |= set(d[1])
            roots |= set(d[2])
        elif d[0] == 'like-param':
            unknown = True
            roots |= set(d[2])
            return ('like-param-join', [x for x in descs])
        else:
            unknown = True
    return ('unk', None if unknown else sorted(kinds), sorted(roots), [], sorted(encs or ()))


def make_stub(P, fi, inner_stubs):
    def stub(I, fi_, args, kwargs, node):
        from sa.interp import Frame
        fr = Frame(fi_)
        I.bind_params(fr, fi_, args, kwargs, node)
        argmap = dict(fr.locals)
        # decide None-ness of arguments first: summaries are then computed (and
        # cached) for the precise case, which keeps value facts such as
        # "encoded with this very argument" path-sensitive
        for n_, v_ in list(argmap.items()):
            if isinstance(v_, Unk) and not v_.has_const and v_.may_be('NoneType') and 'truthy' not in v_.facts \
                    and (v_.kinds is None or len(v_.kinds) > 1):
                if I.choose(2, 'arg-none:%s' % n_) == 0:
                    v_.exclude(['NoneType'])
                else:
                    v_.pin(None)
        sig = signature(fi_, argmap)
        key = (P.digest, fi_.qualname, sig)
        if key not in _CACHE:
            _CACHE[key] = summarise(P, fi_, stubs=inner_stubs, sig=sig, argmap=argmap)
        S = _CACHE[key]
        merged = _merge_descs(S.returns) if S.returns else None
        I.emit('summary-call', node, {'callee': fi_, 'args': argmap})
        for exc, snode, sfi, why, roots in S.sinks:
            ops = tuple(argmap[r] for r in roots if r in argmap)
            # re-emit the sink at the call site, attributed to the original construct
            I.frames.append(Frame(sfi))
            try:
                I.may_raise(snode, [exc], why, ops)
            finally:
                I.frames.pop()
        n = len(S.raises)
        if n:
            c = I.choose(n + (1 if merged is not None else 0), 'summary-raise')
            if c < n:
                exc, site, sfi, explicit, note = S.raises[c]
                caught = I.handler_catches(exc)
                ev = ExcValue(exc, site=site)
                I.frames.append(Frame(sfi))
                try:
                    I.emit('raise', site, {'exc': exc, 'value': ev, 'implicit': not explicit, 'summary': True})
                finally:
                    I.frames.pop()
                e = AbsRaise(ev, site=site, explicit=explicit, note=note)
                e.origin_stack = tuple(f.fi for f in I.frames) + (sfi,)
                e.origin_fn = sfi.qualname
                raise e
        if merged is None:
            from sa.interp import PathCut
            raise PathCut()
        return _build_merged(merged, argmap, fi_.name)
    return stub


def _build_merged(desc, argmap, name):
    if desc[0] == 'tuple':
        return tuple(_build_merged(d, argmap, '%s.%d' % (name, i)) for i, d in enumerate(desc[1]))
    if desc[0] == 'oneof':
        vals = desc[1]
        u = Unk(name, kinds=set().union(*[kind_of(v) or set() for v in vals]), src=('summary', name))
        try:
            u.in_sets.append(frozenset(vals))
        except TypeError:
            pass
        if all(vals):
            u.facts.add('truthy')
        return u
    if desc[0] == 'like-param-join':
        parts = [_build(d, argmap, name) for d in desc[1]]
        kinds = set()
        t = set()
        for p_ in parts:
            k = kind_of(p_)
            if k is None:
                kinds = None
                break
            kinds |= k
        for p_ in parts:
            t |= taint_of(p_)
        u = Unk(name, kinds=kinds, taint=t, src=('summary', name))
        # what every alternative is known to be (e.g. each is the argument or a slice of it, encoded with this very
        # encoding) holds for the join
        common = None
        for p_ in parts:
            fs_ = {f for f in getattr(p_, 'facts', ()) if isinstance(f, tuple) and f[0] in ('encoded-by', 'encoded-in', 'encoded-by-param')} \
                if isinstance(p_, Unk) else set()
            common = fs_ if common is None else (common & fs_)
        for f in common or ():
            u.facts.add(f)
        return u
    return _build(desc, argmap, name)


_CACHE = {}


def stubs_for(P, funcs):
    """Stubs for the given functions (callees first); summaries are computed
    lazily per call signature (argument kinds / constants)."""
    out = {}
    for fi in funcs:
        out[fi.qualname] = make_stub(P, fi, dict(out))
    return out


def text_utils(P):
    m = P.module('pydiffx.utils.text')
    order = []
    # callees first: order functions by their position in the intra-module call graph
    # private helpers of the module are not summarised on their own: they are inlined into the summaries of the public
    # utilities that call them, which keeps what those know about their locals (e.g. a value taken from a constant table)
    fs = [f for f in m.funcs.values() if not f.name.startswith('_')]
    from sa.roles import self_calls
    deps = {f.qualname: {g.qualname for _, g in self_calls(P, f) if g.module is m and g in fs} for f in fs}
    done = []
    while len(done) < len(fs):
        progress = False
        for f in fs:
            if f in done:
                continue
            if deps[f.qualname] <= {g.qualname for g in done} | {f.qualname}:
                done.append(f)
                progress = True
        if not progress:
            raise AnalysisError('recursion among text utilities')
    return done
