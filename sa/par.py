"""Process-parallel map for independent analysis tasks (results must be plain data)."""
import concurrent.futures
import multiprocessing
import os


def pmap(func, items, jobs=None):
    items = list(items)
    jobs = jobs or min(int(os.environ.get('VERIF_JOBS', '0') or 0) or (os.cpu_count() or 2), 16, max(1, len(items)))
    if jobs <= 1 or len(items) <= 1:
        return [func(x) for x in items]
    ctx = multiprocessing.get_context('fork')
    with concurrent.futures.ProcessPoolExecutor(max_workers=jobs, mp_context=ctx) as ex:
        return list(ex.map(func, items, chunksize=max(1, len(items) // (jobs * 4))))
