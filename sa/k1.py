"""K1 - exhaustive exploration of container histories (encoding scopes).

Reader: DiffXReader.iter_sections is abstractly executed on section sequences
allowed by the folded transition table.  The header function is replaced by a
stub that returns the *record template captured from the real header function*
(so the record shape is not assumed) with a closed abstract options mapping:
``encoding`` is either absent or an opaque label.  The content function is a
stub that records its arguments.  Observation: the encoding handed to content
reading, compared with an oracle computed from the sequence alone.

Writer: DiffXWriter public calls are executed on call sequences its own order
validation accepts; observation: the codec operand of every ``.encode`` applied
to the content (or to the newline of byte content).
"""
import collections

from sa.model import AnalysisError
from sa.interp import Interp, AbsRaise, PathCut, Frame
from sa.values import ADict, AList, AObj, AStream, Label, Unk, concrete, is_concrete
from sa.harness import ReaderHarness, Script, level_of

CONTAINERS = ('diffx', '.change', '..file')


class Oracle(object):
    """Nearest-declaring-ancestor rule, computed from the record sequence only."""

    def __init__(self, init=None):
        self.open = {}          # level -> effective label of the open container
        self.init = init

    def container(self, level, own):
        parent = self.open.get(level - 1, self.init) if level > 0 else self.init
        eff = own if own is not None else parent
        self.open = {k: v for k, v in self.open.items() if k < level}
        self.open[level] = eff
        return eff

    def content(self, level, own, inherits=True):
        if own is not None:
            return own
        if not inherits:
            return None
        return self.open.get(level - 1, self.init)

    def classify(self, lab):
        if lab is None:
            return 'None'
        for lv, v in self.open.items():
            if v is lab:
                return 'eff@%d' % lv
        return 'stale'


def canon(v, oracle, depth=0):
    if depth > 6:
        return '...'
    if isinstance(v, Label):
        return oracle.classify(v)
    if isinstance(v, Unk):
        if v.has_const:
            return canon(v.const, oracle, depth + 1)
        return '?'
    if isinstance(v, AList):
        return tuple(canon(x, oracle, depth + 1) for x in v.items[-8:]) + (('...',) if v.unknown else ())
    if isinstance(v, ADict):
        return tuple(sorted((str(k), canon(x, oracle, depth + 1)) for k, x in v.items.items()))
    if isinstance(v, (AObj, AStream)):
        return type(v).__name__
    if isinstance(v, (frozenset, set)):
        return tuple(sorted(map(str, v)))
    if isinstance(v, tuple):
        return tuple(canon(x, oracle, depth + 1) for x in v)
    if type(v).__name__ == 'ARecord':
        return (v.rtype.name,) + tuple(canon(x, oracle, depth + 1) for x in v.values)
    if isinstance(v, (int, str, bytes, bool, type(None))):
        return v
    return type(v).__name__


class ReaderK1(object):
    def __init__(self, P, roles, table, max_depth=14, max_states=4000):
        self.P = P
        self.R = roles
        self.table = table
        self.max_depth = max_depth
        self.max_states = max_states
        self.templates = {}
        self.options_key = None
        self.enc_param = None
        self.transitions = 0

    # -- record templates from the real header function ----------------------
    def capture_templates(self):
        H = ReaderHarness(self.P, self.R, havoc=False)
        for sid in self.table:
            tpl = None
            # make the id acceptable: inject nothing, but run the header fn alone
            I = H.make_interp([Script(sid, options='none')])
            fn = self.R.header_fn

            def thunk():
                I.k1['k'] = 0
                I.frames = [Frame(fn)]
                obj = H.make_reader(I)
                I.frames = []
                # allowed set containing the id so that the membership test passes
                kw = {}
                params = fn.params()[1:]
                if len(params) != 1:
                    raise AnalysisError('header function signature not recognised: %s' % params)
                kw[params[0]] = frozenset([sid])
                return I.call_function(fn, [obj], kw, None, self_cls=self.R.cls)
            for path in I.explore(thunk):
                if path.outcome == 'return' and isinstance(path.value, ADict):
                    tpl = path.value
            if tpl is None:
                raise AnalysisError('header function returns no record for %r' % sid)
            dicts = [k for k, v in tpl.items.items() if isinstance(v, ADict)]
            if len(dicts) != 1:
                raise AnalysisError('record template has no unique options mapping: %r' % tpl)
            self.options_key = dicts[0]
            self.templates[sid] = {k: v for k, v in tpl.items.items()}
        return self.templates

    # -- one run over a sequence ---------------------------------------------------
    def run_sequence(self, seq):
        """seq: list of (sid, declares).  Returns dict(problems, state, log)."""
        R = self.R
        I = Interp(self.P, while_bound=len(seq) + 3)
        st = {'k': 0}
        labels = []
        oracle = Oracle(None)
        expected = {}
        log = []
        problems = []

        def header_stub(I_, fi, args, kwargs, node):
            i = st['k']
            st['k'] += 1
            if i >= len(seq):
                return None
            sid, declares = seq[i]
            opts = ADict({}, name='options')
            own = None
            if declares:
                own = Label('own#%d:%s' % (i, sid))
                opts.items['encoding'] = own
            opts.items['length'] = Unk('length', kinds=['int'])
            opts.items['length'].facts |= {'>=1', '<=4096', 'truthy'}
            if sid == 'diffx':
                opts.items['version'] = '1.0'
            rec = ADict(dict(self.templates[sid]), name='record')
            rec.items[self.options_key] = opts
            if sid in CONTAINERS:
                eff = oracle.container(level_of(sid), own)
                log.append((i, sid, 'container', own, eff))
            else:
                exp = oracle.content(level_of(sid), own, inherits=not sid.endswith('diff'))
                expected[i] = (sid, exp)
            I_.emit('k1-record', node, {'index': i, 'sid': sid})
            return rec

        def content_stub(I_, fi, args, kwargs, node):
            fr = Frame(fi, R.cls)
            I_.bind_params(fr, fi, args, kwargs, node)
            i = st['k'] - 1
            params = dict(fr.locals)
            sid, exp = expected.get(i, (None, None))
            # which parameter carries the encoding?  the one named like the
            # option, else the unique one holding a label
            cands = [k for k in params if k == 'encoding']
            if not cands:
                cands = [k for k, v in params.items() if isinstance(concrete(v), Label)]
            got = params[cands[0]] if len(cands) == 1 else None
            if len(cands) != 1 and exp is not None:
                problems.append(('no-encoding-param', i, sid, None, exp))
            else:
                got = concrete(got)
                if got is not exp:
                    problems.append(('wrong-encoding', i, sid, got, exp))
            from sa.props.reader_rules import content_param
            kb = concrete(params.get(content_param(fi, 'keep_bytes')))
            return Unk('content', kinds=['bytes'] if kb is True else ['str', 'bytes'], taint=['INPUT'])

        I.stubs[R.header_fn.qualname] = header_stub
        if R.content_fn is None:
            raise AnalysisError('content-reading function not identified')
        I.stubs[R.content_fn.qualname] = content_stub
        H = ReaderHarness(self.P, R, havoc=False)
        final = {}

        captured = []
        self.last_records = []

        def snap(ev):
            if ev.kind == 'yield':
                captured.append(ev.data['value'])
                fr = I.frames[-1]
                final['sig'] = tuple(sorted((k, repr(canon(v, oracle))) for k, v in fr.locals.items()
                                            if k not in ('self',)))

        I.hooks.append(snap)

        def thunk():
            st['k'] = 0
            del captured[:]
            I.frames = [Frame(R.entry)]
            obj = H.make_reader(I)
            I.frames = []
            return I.call_function(R.entry, [obj], {}, None, self_cls=R.cls)
        npaths = 0
        nyield = 0
        sig = None
        for path in I.explore(thunk):
            npaths += 1
            if len(captured) > len(self.last_records):
                self.last_records = list(captured)
            if npaths > 64:
                raise AnalysisError('K1 reader run forks too much for %r' % (seq,))
            if path.outcome == 'raise':
                nm = path.value.exc.exc_name
                if nm != 'DiffXParseError':
                    problems.append(('raises', len(seq) - 1, seq[-1][0], nm, None))
                continue
            ny = sum(1 for e in path.events if e.kind == 'yield')
            if path.outcome == 'return':
                if ny != len(seq):
                    problems.append(('yield-count', len(seq) - 1, seq[-1][0], ny, len(seq)))
                nyield = ny
                sig = final.get('sig')
        if sig is None and not problems:
            raise AnalysisError('K1 reader: no completing path for %r' % (seq,))
        final['sig'] = sig
        uniq = []
        for pr in problems:
            if pr not in uniq:
                uniq.append(pr)
        problems = uniq
        return {'problems': problems, 'sig': final.get('sig'), 'yields': nyield}

    def explore(self):
        self.capture_templates()
        seen = {}
        q = collections.deque([[('diffx', d)] for d in (False, True)])
        problems = []
        while q:
            seq = q.popleft()
            self.transitions += 1
            res = self.run_sequence(seq)
            if res['problems']:
                problems.append((seq, res['problems']))
                continue
            key = (seq[-1][0], res['sig'])
            if key in seen:
                continue
            seen[key] = seq
            if len(seen) > self.max_states:
                raise AnalysisError('K1 reader state space did not close within %d states' % self.max_states)
            if len(seq) >= self.max_depth:
                raise AnalysisError('K1 reader exploration reached depth %d without closing' % self.max_depth)
            for nxt in sorted(self.table[seq[-1][0]]):
                for d in (False, True):
                    q.append(seq + [(nxt, d)])
        return seen, problems


class WriterK1(object):
    """Exploration of DiffXWriter call histories accepted by its own validator."""

    CALLS = (('new_change', 1), ('new_file', 2), ('write_preamble', None), ('write_meta', None), ('write_diff', None))

    def __init__(self, P, max_depth=14, max_states=4000):
        self.P = P
        self.cls = P.cls('pydiffx.writer', 'DiffXWriter')
        self.max_depth = max_depth
        self.max_states = max_states
        self.transitions = 0
        self.order_error = P.cls('pydiffx.errors', 'DiffXSectionOrderError')

    def _abstract_args(self, name):
        """Fully abstract, caller-supplied arguments (any type) for the call under analysis."""
        m = self.cls.find_method(name)
        params = m.params()[1:]
        defaults = m.param_defaults()
        a, kw = [], {}
        content = None
        # one caller-controlled argument at a time is fully abstract (any type);
        # the others are well-typed abstract values (content) or left at their
        # defaults (options).  The variant is a top-level choice of the path.
        variants = [None] + [p for p in params]
        which = variants[self._I.choose(len(variants), 'abstract-arg')]
        for p in params:
            if p not in defaults and content is None:
                if which == p or which is None:
                    u = Unk('arg:%s' % p, taint=['ARG'], src=('param', p))
                else:
                    a0, kw0, u = self._args(name, None, 0)
                    if isinstance(u, Unk):
                        u.taint = frozenset(['ARG'])
                content = u
                if isinstance(u, Unk):
                    u.k1_content = True
                a.append(u)
            elif which == p or which is None and False:
                kw[p] = Unk('arg:%s' % p, taint=['ARG'], src=('param', p))
        return a, kw, content

    def _args(self, name, own, idx):
        content = None
        if name == 'write_preamble':
            content = Unk('text', kinds=['str'], taint=['ARG'])
            content.facts.add('truthy')
            content.k1_content = True
            return [content], {'encoding': own, 'line_endings': 'unix', 'indent': None}, content
        if name == 'write_meta':
            d = ADict({'k': Unk('v', taint=['ARG'])}, name='metadata')
            return [d], {'encoding': own}, d
        if name == 'write_diff':
            content = Unk('diff', kinds=['bytes'], taint=['ARG'])
            content.facts.add('truthy')
            content.k1_content = True
            return [content], {'encoding': own, 'line_endings': 'unix'}, content
        return [], {'encoding': own}, None

    def run_sequence(self, seq):
        """seq: list of (method, declares).  The prefix runs deterministically
        (first alternative at every fork); every path of the last call is explored."""
        I = Interp(self.P, unknown_iters=getattr(self, 'unknown_iters', (0, 1, 2)))
        if getattr(self, 'summarise_utils', False):
            from sa import summary
            I.stubs.update(summary.stubs_for(self.P, summary.text_utils(self.P)))
        self._I = I
        oracle = Oracle(None)
        problems = []
        state = {}
        lmain = Label('main')

        def thunk():
            oracle.open = {}
            I.frames = [Frame(self.cls.find_method('__init__'))]
            fp = AStream('out', taint=())
            I.deterministic = True
            try:
                obj = I.instantiate(self.cls, [fp], {'encoding': lmain}, None)
                oracle.container(0, lmain)
                state['prev_id'] = 'diffx'
                state['fp'] = fp

                def is_effect(kind, data, obj=obj, fp=fp):
                    if kind.startswith('stream-'):
                        return data.get('stream') is fp
                    if kind == 'attr-store':
                        return data.get('obj') is obj
                    if kind in ('mutate', 'item-store', 'item-del'):
                        return _reachable_from(obj, data.get('obj'))
                    return False
                I.effect_filter = is_effect
                last = None
                for i, (name, declares) in enumerate(seq):
                    own = Label('own#%d:%s' % (i, name)) if declares else None
                    a, kw, content = self._args(name, own, i)
                    m = self.cls.find_method(name)
                    if m is None:
                        raise AnalysisError('DiffXWriter.%s not found (anchor vanished)' % name)
                    if i == len(seq) - 1:
                        I.deterministic = False
                        if getattr(self, 'last_abstract', False):
                            a, kw, content = self._abstract_args(name)
                        state['kwargs'] = dict(kw)
                        state['content'] = content
                        state['mark'] = len(I.events)
                        state['own'] = own
                        state['name'] = name
                        clevel = max(oracle.open) if oracle.open else 0
                        if name == 'new_change':
                            state['next_id'] = '.change'
                        elif name == 'new_file':
                            state['next_id'] = '..file'
                        else:
                            state['next_id'] = '.' * (clevel + 1) + name.split('_', 1)[1]
                        state['prev_at_last'] = state['prev_id']
                        I.dirty = None
                    I.frames = []
                    I.call_function(m, [obj] + a, kw, None, self_cls=self.cls)
                    if name in ('new_change', 'new_file'):
                        oracle.container(1 if name == 'new_change' else 2, own)
                        state['prev_id'] = '.change' if name == 'new_change' else '..file'
                    else:
                        clevel = max(oracle.open) if oracle.open else 0
                        state['prev_id'] = '.' * (clevel + 1) + name.split('_', 1)[1]
            finally:
                I.deterministic = False
            state['obj'] = obj
            return obj
        result = {'accepted': False, 'problems': problems, 'sig': None, 'raises': [], 'escapes': [], 'ops': [], 'pairs': [],
                  'next_id': None, 'prev_id': None}
        npaths = 0
        for path in I.explore(thunk):
            npaths += 1
            if npaths > getattr(self, "max_paths", 6000):
                raise AnalysisError('writer K1: too many paths for %r' % (seq,))
            result['next_id'] = state.get('next_id')
            result['prev_id'] = state.get('prev_at_last')
            if state.get('mark') is not None:
                for ev in path.events[state['mark']:]:
                    if ev.kind.startswith('stream-') and ev.data.get('stream') is state.get('fp'):
                        op = (ev.kind, ev.loc, ev.fn)
                        if op not in result['ops']:
                            result['ops'].append(op)
                        if ev.kind == 'stream-write' and path.outcome == 'return' and 'written_id' not in result:
                            d_ = ev.data.get('data')
                            x_ = d_
                            for _ in range(6):
                                if isinstance(x_, Unk) and x_.src and x_.src[0] == 'binop':
                                    x_ = x_.src[2]
                            if is_concrete(x_) and isinstance(concrete(x_), bytes) and concrete(x_).startswith(b'#'):
                                result['written_id'] = concrete(x_)[1:].split(b':')[0].decode('latin-1')
                        if ev.kind == 'stream-write' and path.outcome == 'return':
                            from sa import sinks
                            for k_, v_, node_ in sinks.header_pairs(ev.data.get('data')):
                                ok, why = sinks.value_sanitised(v_)
                                rec = (str(concrete(k_)) if is_concrete(k_) else '?', ok, why, sinks.origin(v_), ev.loc)
                                if rec not in result['pairs']:
                                    result['pairs'].append(rec)
                    if ev.kind == 'mayraise' and not ev.data['caught']:
                        from sa.interp import exc_name
                        from sa.values import taint_of
                        t = set()
                        for o in ev.data.get('operands', ()):
                            t |= taint_of(o)
                        rec = (exc_name(ev.data['exc']), ev.loc, ev.fn, ev.data['why'], _norm(ev.node),
                               (ev.dirty.kind, ev.dirty.loc, _norm(ev.dirty.node)) if ev.dirty is not None else None,
                               sorted(t))
                        if rec not in result['escapes']:
                            result['escapes'].append(rec)
            if path.outcome == 'raise':
                e = path.value
                if state.get('mark') is not None:
                    dirty = I.dirty
                    rec = (e.exc.exc_name, _loc(e, path), e.explicit, e.note,
                           (dirty.kind, dirty.loc, _norm(dirty.node)) if dirty is not None else None)
                    if rec not in result['raises']:
                        result['raises'].append(rec)
                if 'mark' not in state or state.get('mark') is None:
                    raise AnalysisError('writer K1: prefix of %r raises %s' % (seq, e.exc.exc_name))
                if e.exc.exc is self.order_error or e.exc.exc_name == 'DiffXSectionOrderError':
                    continue
                # other rejections (content errors...) do not change the scope discipline
                continue
            if path.outcome != 'return':
                continue
            result['accepted'] = True
            for ev_ in path.events[state['mark']:]:
                if ev_.kind == 'encode' and ev_.data.get('errors') is not None and not (
                        is_concrete(ev_.data['errors']) and concrete(ev_.data['errors']) == 'strict'):
                    h_ = (state['name'], str(concrete(ev_.data['errors'])) if is_concrete(ev_.data['errors']) else '<unknown>', ev_.loc)
                    if h_ not in result.setdefault('lenient_encode', []):
                        result['lenient_encode'].append(h_)
            if getattr(self, 'last_abstract', False):
                self._rendered_options(path, state, result)
            obj = state['obj']
            name, own = state['name'], state['own']
            level = {'new_change': 1, 'new_file': 2}.get(name)
            evs = path.events[state['mark']:]
            if level is None:
                clevel = max(oracle.open) if oracle.open else 0
                inherits = name != 'write_diff'
                exp = oracle.content(clevel + 1, own, inherits)
                for ev in evs:
                    if ev.kind != 'encode':
                        continue
                    recv, enc = ev.data['recv'], concrete(ev.data['encoding'])
                    is_content = isinstance(recv, Unk) and (getattr(recv, 'k1_content', False) or
                                                            (recv.src and recv.src[0] == 'call' and recv.src[1] == 'json.dumps'))
                    if is_content:
                        if enc is not exp:
                            problems.append(('wrong-encoding', name, _lab(enc), _lab(exp)))
                    elif isinstance(enc, Label) and enc is not exp:
                        problems.append(('newline-wrong-encoding', name, _lab(enc), _lab(exp)))
                    elif not inherits and exp is None and isinstance(enc, Label):
                        problems.append(('diff-inherits', name, _lab(enc), None))
            result['sig'] = tuple(sorted((k, repr(canon(v, oracle))) for k, v in obj.attrs.items()))
            state['mark'] = None if False else state['mark']
        # the scope stack also determines the id a content call computes: a call the
        # hierarchy allows must be accepted (order rejections only)
        from sa.roles import spec_follow, SPEC_IDS
        nxt, prev = result.get('next_id'), result.get('prev_id')
        if nxt is not None and prev is not None and not getattr(self, 'last_abstract', False):
            legal = nxt in spec_follow().get(prev, set()) or (prev, nxt) == ('..meta', '.change')
            order_rej = any(r[0] == 'DiffXSectionOrderError' for r in result['raises'])
            if legal and not result['accepted'] and order_rej:
                problems.append(('rejects-legal-call', seq[-1][0], 'rejected after %s' % prev, 'accepted (%s may follow %s)' % (nxt, prev)))
                result['accepted'] = True      # report it
        uniq = []
        for pr in problems:
            if pr not in uniq:
                uniq.append(pr)
        result['problems'] = uniq
        return result

    RENDER_KEYS = {'encoding': 'encoding', 'mimetype': 'mimetype', 'diff_type': 'type', 'indent': 'indent'}

    def _rendered_options(self, path, state, result):
        from sa import sinks
        name = state['name']
        evs = path.events[state['mark']:]
        kwargs = state.get('kwargs') or {}
        keys = set()
        for ev in evs:
            if ev.kind == 'stream-write' and ev.data.get('stream') is state.get('fp'):
                for k_, v_, _n in sinks.header_pairs(ev.data.get('data')):
                    if is_concrete(k_):
                        keys.add(str(concrete(k_)))
        # was the call accepted with content that may be empty?
        c_ = state.get('content')
        if isinstance(c_, Unk) and name.startswith('write_'):
            nonempty = 'truthy' in c_.facts or (c_.has_const and bool(c_.const))
            rec_e = (name, 'non-empty' if nonempty else 'possibly-empty')
            if rec_e not in result.setdefault('content_emptiness', []):
                result['content_emptiness'].append(rec_e)
        # constraints under which a caller-supplied (non-None) option value was accepted on this path
        for pname, v in kwargs.items():
            if not isinstance(v, Unk) or (v.has_const and v.const is None):
                continue
            if v.has_const:
                cons = (repr(v.const),)
            elif v.in_sets:
                inter = None
                for s_ in v.in_sets:
                    inter = set(s_) if inter is None else inter & set(s_)
                cons = tuple(sorted(repr(x) for x in inter))
            else:
                cons = None
            note = 'falsy' if 'falsy' in v.facts else ('any value' if cons is None else '')
            rec_c = (name, pname, cons, note)
            if rec_c not in result.setdefault('arg_constraints', []):
                result['arg_constraints'].append(rec_c)
        for pname, v in kwargs.items():
            key = self.RENDER_KEYS.get(pname)
            if key is None or not isinstance(v, Unk):
                continue
            if v.has_const and v.const is None:
                continue
            if 'falsy' in v.facts and pname != 'indent':
                continue
            if not v.has_const and v.may_be('NoneType') and 'truthy' not in v.facts \
                    and not (v.kinds is not None and 'NoneType' not in v.kinds):
                continue      # None-ness undecided on this path
            rec = (name, pname)
            if key in keys:
                if rec not in result.setdefault('rendered', []):
                    result['rendered'].append(rec)
            else:
                r3 = (name, pname, key)
                if r3 not in result.setdefault('unrendered', []):
                    result['unrendered'].append(r3)

    def explore(self):
        seen = {}
        problems = []
        q = collections.deque()
        for name, _ in self.CALLS:
            for d in (False, True):
                q.append([(name, d)])
        while q:
            seq = q.popleft()
            self.transitions += 1
            res = self.run_sequence(seq)
            if not res['accepted']:
                continue
            if res['problems']:
                problems.append((seq, res['problems']))
                continue
            key = res['sig']
            if key in seen:
                continue
            seen[key] = seq
            if len(seen) > self.max_states:
                raise AnalysisError('K1 writer state space did not close within %d states' % self.max_states)
            if len(seq) >= self.max_depth:
                raise AnalysisError('K1 writer exploration reached depth %d without closing' % self.max_depth)
            for name, _ in self.CALLS:
                for d in (False, True):
                    q.append(seq + [(name, d)])
        return seen, problems


def _lab(x):
    return getattr(x, 'text', x)


def _norm(node):
    from sa.model import norm
    return norm(node)[:100] if node is not None else '?'


def _loc(e, path):
    st = getattr(e, 'origin_stack', None) or ()
    fi = st[-1] if st else None
    if fi is not None and e.site is not None:
        return '%s:%d %s: %s' % (fi.module.relpath, getattr(e.site, 'lineno', 0), fi.short, _norm(e.site))
    return _norm(e.site)


def _reachable_from(obj, target, depth=0):
    if target is None or depth > 4:
        return False
    vals = obj.attrs.values() if isinstance(obj, AObj) else (obj.items.values() if isinstance(obj, ADict) else
                                                             (obj.items if isinstance(obj, AList) else ()))
    for v in vals:
        if v is target:
            return True
        if isinstance(v, (ADict, AList)) and _reachable_from(v, target, depth + 1):
            return True
    return False


# -- level-parallel BFS ---------------------------------------------------------------
_K = None


def _run_one(seq):
    res = _K.run_sequence(seq)
    out = {'problems': res['problems'], 'sig': res.get('sig'), 'accepted': res.get('accepted', True)}
    for k in ('raises', 'escapes', 'ops', 'pairs', 'next_id', 'prev_id', 'written_id', 'rendered', 'unrendered', 'arg_constraints', 'content_emptiness', 'lenient_encode'):
        if k in res:
            out[k] = res[k]
    return out


def explore_parallel(K, initial, successors, key_of):
    """Generic BFS by levels; K.run_sequence must return plain data."""
    from sa.par import pmap
    global _K
    _K = K
    seen = {}
    problems = []
    level = list(initial)
    depth = 0
    while level:
        depth += 1
        if depth > K.max_depth or (problems and depth > 9):
            if problems:
                K.closed = False
                return seen, problems
            raise AnalysisError('K1 exploration reached depth %d without closing' % K.max_depth)
        results = pmap(_run_one, level)
        K.transitions += len(level)
        nxt = []
        for seq, res in zip(level, results):
            if getattr(K, 'collect', None) is not None:
                K.collect(seq, res)
            if not res['accepted']:
                continue
            if res['problems']:
                problems.append((seq, res['problems']))
                continue
            key = key_of(seq, res)
            if key in seen:
                continue
            seen[key] = seq
            if len(seen) > K.max_states:
                raise AnalysisError('K1 state space did not close within %d states' % K.max_states)
            nxt.extend(successors(seq))
        level = nxt
    return seen, problems
