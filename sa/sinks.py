"""Header-sink helpers: what reaches the bytes written as a section header."""
from sa.values import ADict, AList, Unk, concrete, is_concrete, kind_of
from sa import rx as RX

VALUE_GRAMMAR = '[A-Za-z0-9/._-]+'
KEY_GRAMMAR = '[A-Za-z][A-Za-z0-9_-]*'
_G = {}


def grammar(which, is_bytes=False):
    k = (which, is_bytes)
    if k not in _G:
        pat = VALUE_GRAMMAR if which == 'value' else KEY_GRAMMAR
        _G[k] = RX.from_pattern(pat.encode() if is_bytes else pat)
    return _G[k]


def const_in_grammar(v, which='value'):
    s = '%s' % (v,)
    g = grammar(which)
    return g.accepts([ord(c) if ord(c) < 256 else 256 for c in s])


def header_pairs(value, out=None, depth=0, seen=None):
    """Collect (key, value, node) triples of 'k=v' renderings inside a written value."""
    if out is None:
        out = []
    if seen is None:
        seen = set()
    if depth > 24 or id(value) in seen:
        return out
    seen.add(id(value))
    if isinstance(value, (list, tuple)):
        for x in value:
            if isinstance(x, str) and '=' in x and ', ' not in x:
                k_, v_ = x.split('=', 1)
                out.append((k_, v_, None))
            else:
                header_pairs(x, out, depth + 1, seen)
        return out
    if isinstance(value, AList):
        for x in value.items:
            header_pairs(x, out, depth + 1, seen)
        if value.elem is not None:
            header_pairs(value.elem, out, depth + 1, seen)
        return out
    if not isinstance(value, Unk):
        return out
    src = value.src
    j = getattr(value, 'joined', None)
    if j is not None:
        header_pairs(j[2], out, depth + 1, seen)
    if not src:
        return out
    if src[0] == 'format':
        fmt, args = src[1], src[2]
        args = args if isinstance(args, (list, tuple)) else [args]
        cf = concrete(fmt) if is_concrete(fmt) else None
        if isinstance(cf, (str, bytes)) and (b'=' in cf if isinstance(cf, bytes) else '=' in cf) and len(args) == 2:
            out.append((args[0], args[1], value))
        else:
            header_pairs(list(args), out, depth + 1, seen)
    elif src[0] == 'binop':
        header_pairs([src[2], src[3]], out, depth + 1, seen)
    elif src[0] == 'method':
        header_pairs(src[1], out, depth + 1, seen)
        if len(src) > 3:
            header_pairs([a for a in src[3] if isinstance(a, (Unk, AList, list, tuple))], out, depth + 1, seen)
    elif src[0] in ('derive', 'elem', 'slice', 'unpack'):
        header_pairs(src[1], out, depth + 1, seen)
    return out


def origin(v, depth=0):
    """Name of the caller-supplied parameter a value derives from (for finding keys)."""
    if not isinstance(v, Unk) or depth > 10:
        return None
    if v.src and v.src[0] == 'param':
        return v.src[1]
    if v.name and v.name.startswith('arg:'):
        return v.name[4:]
    if v.src and v.src[0] in ('derive', 'elem', 'slice', 'item') and isinstance(v.src[1], Unk):
        return origin(v.src[1], depth + 1)
    return None


def value_sanitised(v):
    """(ok, reason) - may the rendered value be anything outside the header value grammar?"""
    if v is None:
        return True, 'None (dropped)'
    if is_concrete(v):
        cv = concrete(v)
        if cv is None:
            return True, 'None (dropped)'
        ok = const_in_grammar(cv)
        return ok, 'constant %r %s the value grammar' % (cv, 'matches' if ok else 'does not match')
    if isinstance(v, Unk):
        g = grammar('value')
        for rx_, mode, res in getattr(v, 'regex_guards', []):
            if res and not isinstance(rx_.pattern, bytes):
                L = RX.from_pattern(rx_.pattern, rx_.flags, mode='full' if mode == 'fullmatch' else 'match')
                if RX.included(L, g) is None:
                    return True, 'rendering validated by %s(%r)' % (mode, rx_.pattern)
        for s in v.in_sets:
            if s and all(x is None or const_in_grammar(x) for x in s):
                return True, 'member of the folded set %s' % sorted(map(str, s))
        if v.kinds is not None and v.kinds <= {'int', 'bool'} and v.src and v.src[0] == 'call' and v.src[1] == 'len':
            return True, 'len(...) of the written content'
        return False, 'caller-controlled value of kinds %s without validation' % (sorted(v.kinds) if v.kinds else 'any')
    return False, 'value %r' % (v,)
