"""Transfer functions of builtins / stdlib / value methods and the sink table (E3)."""
import ast

from sa.model import (AnalysisError, ClassInfo, External, FunctionInfo, ModuleInfo, Regex,
                      Unfoldable, norm)
from sa.values import (ADict, AList, AObj, AStream, BoundMethod, Builtin, ExcValue, Label, Unk,
                       concrete, is_concrete, kind_of, taint_of, TYPE_KIND)

KIND_TYPES = {'str': str, 'bytes': bytes, 'int': int, 'bool': bool, 'dict': dict, 'list': list,
              'tuple': tuple, 'float': float}

PURE_BUILTINS = {'len', 'isinstance', 'type', 'int', 'str', 'sorted', 'range', 'enumerate', 'dict',
                 'iter', 'min', 'max', 'getattr', 'setattr', 'super', 'repr', 'bytes', 'list',
                 'tuple', 'bool', 'hasattr', 'set', 'frozenset', 'sum', 'any', 'all', 'zip', 'next',
                 'print', 'object', 'Exception', 'id', 'abs', 'reversed', 'map', 'filter', 'callable',
                 'bytearray', 'float', 'dir', 'vars'}
BUILTIN_EXCS = {'BaseException', 'Exception', 'ArithmeticError', 'OverflowError', 'AssertionError',
                'AttributeError', 'LookupError', 'IndexError', 'KeyError', 'NameError', 'TypeError',
                'ValueError', 'UnicodeError', 'UnicodeDecodeError', 'UnicodeEncodeError',
                'StopIteration', 'RuntimeError', 'NotImplementedError', 'OSError', 'MemoryError',
                'ZeroDivisionError', 'UnboundLocalError'}


def tj(*vals):
    t = set()
    for v in vals:
        t |= taint_of(v)
    return frozenset(t)


def derive(v, name, kinds=None):
    if isinstance(v, Unk):
        u = Unk('%s.%s' % (v.name, name), kinds=kinds if kinds is not None else v.kinds, taint=v.taint,
                src=('derive', v, name))
        return u
    return v


def truthy_concrete(v):
    if isinstance(v, AList):
        return bool(v.items) or v.unknown
    if isinstance(v, ADict):
        return bool(v.items) or v.open
    if isinstance(v, (AObj, AStream, ExcValue, Label, ClassInfo, FunctionInfo, Regex, External, ModuleInfo)):
        return True
    return bool(v)


def lift_shared(v, name):
    """Turn a folded module/class constant into an abstract value, marking
    containers as SHARED (not fresh) so that mutation rules can see them."""
    if isinstance(v, dict):
        d = ADict({k: lift_shared(x, '%s[%r]' % (name, k)) for k, x in v.items()}, fresh=False, name=name)
        d.shared = name
        return d
    if isinstance(v, list):
        l = AList([lift_shared(x, name + '[]') for x in v], fresh=False)
        l.shared = name
        return l
    return v


def eval_shared_expr(I, module, cls, expr, name):
    """Class/module-level expression that does not fold: a constructor call
    (descriptor instance), evaluated once per path in a synthetic frame."""
    from sa.interp import Frame
    if isinstance(expr, ast.Call):
        ref = I.P.resolve_expr_ref(module, expr.func, cls) if isinstance(expr.func, (ast.Name, ast.Attribute)) else None
        if isinstance(ref, ClassInfo):
            holder = FunctionInfo(module, cls, ast.FunctionDef(name='<classbody>', args=ast.arguments(
                posonlyargs=[], args=[], kwonlyargs=[], kw_defaults=[], defaults=[]), body=[], decorator_list=[], lineno=expr.lineno), 'function')
            fr = Frame(holder)
            saved = I.frames
            I.frames = [fr]
            try:
                v = I.eval(expr)
            finally:
                I.frames = saved
            if isinstance(v, AObj):
                v.fresh = False
                v.shared = name
            return v
        if isinstance(ref, External) and ref.name in ('collections.namedtuple', 'namedtuple') and len(expr.args) == 2:
            from sa.values import ARecordType
            try:
                tn = I.P.fold(expr.args[0], module, cls)
                fl = I.P.fold(expr.args[1], module, cls)
            except Exception:
                tn = fl = None
            if isinstance(fl, str):
                fl = fl.replace(',', ' ').split()
            if isinstance(tn, str) and isinstance(fl, (tuple, list)) and all(isinstance(x, str) for x in fl):
                return ARecordType(tn, fl)
        if isinstance(ref, External):
            return Unk(name, taint=(), src=('shared', name))
        if isinstance(ref, FunctionInfo) and ref.cls is None:
            from sa.model import Unfoldable
            try:
                return lift_shared(I.P.fold(expr, module, cls), name)
            except Unfoldable:
                pass
    raise AnalysisError('shared expression %s = %s not understood' % (name, norm(expr)[:60]))


# -- names --------------------------------------------------------------------

def builtin_value(I, name, node):
    if name in PURE_BUILTINS:
        if name in ('str', 'bytes', 'int', 'dict', 'list', 'tuple', 'bool', 'float', 'object'):
            return {'str': str, 'bytes': bytes, 'int': int, 'dict': dict, 'list': list, 'tuple': tuple,
                    'bool': bool, 'float': float, 'object': object}[name]
        if name == 'Exception':
            return External('builtins.Exception')
        return Builtin(name)
    if name in BUILTIN_EXCS:
        return External('builtins.%s' % name)
    if name in ('None', 'True', 'False'):
        return {'None': None, 'True': True, 'False': False}[name]
    I.emit('unbound', node, {'name': name, 'global': True})
    from sa.interp import AbsRaise
    raise AbsRaise(ExcValue('NameError', (name,), site=node), site=node, explicit=False,
                   note='name %r is not defined' % name)


def external_value(I, ext, node):
    n = ext.name
    if n.startswith('builtins.'):
        return builtin_value(I, n.split('.', 1)[1], node)
    try:
        v = I.P._fold_external(n)
    except Unfoldable:
        v = ext
    if not isinstance(v, External):
        return v
    return Builtin(n)


# -- attribute access -----------------------------------------------------------

STR_METHODS = {'removesuffix', 'removeprefix', 'decode', 'encode', 'split', 'strip', 'lstrip', 'rstrip', 'startswith', 'endswith', 'find',
               'index', 'join', 'format', 'lower', 'upper', 'replace', 'splitlines', 'count', 'isdigit',
               'rsplit', 'partition', 'rfind', 'title', 'rpartition', 'isspace', 'isalnum', 'lstrip',
               'zfill', 'ljust', 'rjust', 'isdecimal', 'isnumeric', 'translate', 'expandtabs', 'casefold',
               'isupper', 'islower', 'isalpha', 'isidentifier', 'istitle', 'capitalize', 'swapcase'}
DICT_METHODS = {'get', 'pop', 'items', 'keys', 'values', 'copy', 'update', 'clear', 'setdefault', 'popitem'}
LIST_METHODS = {'append', 'pop', 'extend', 'insert', 'remove', 'sort', 'reverse', 'index', 'copy', 'clear', 'count'}
STREAM_METHODS = {'read', 'write', 'seek', 'tell', 'getvalue', 'close', 'readline', 'readlines', 'flush',
                  'truncate', 'writelines', 'readinto', 'peek', 'read1', '__enter__', '__exit__'}
REGEX_METHODS = {'match', 'fullmatch', 'search', 'sub', 'split', 'findall', 'finditer'}
MATCH_METHODS = {'group', 'groups', 'groupdict', 'start', 'end', 'span'}


def get_attr(I, obj, name, node):
    if type(obj).__name__ == 'ARecord':
        if name in obj.rtype.fields:
            return obj.values[obj.rtype.fields.index(name)]
        raise AnalysisError('attribute %s of a %s record' % (name, obj.rtype.name))
    from sa.interp import AbsRaise
    if isinstance(obj, Unk) and obj.has_const:
        obj = obj.const
    if isinstance(obj, tuple) and len(obj) == 3 and obj[0] == 'super':
        _, after, self_obj = obj
        cls = self_obj.cls if isinstance(self_obj, AObj) else (self_obj if isinstance(self_obj, ClassInfo) else None)
        if cls is None:
            raise AnalysisError('super() with unknown self')
        m = cls.find_method(name, after=after)
        if m is None:
            if name == '__init__':
                return Builtin('object.__init__')
            if name == '__eq__':
                return Builtin('object.__eq__', recv=self_obj)
            raise AnalysisError('super().%s not found' % name)
        return BoundMethod(self_obj, m, cls)
    if isinstance(obj, Label) and name in ('lower', 'upper', 'casefold', 'strip', 'replace', 'title', 'swapcase',
                                            'lstrip', 'rstrip', 'encode', 'startswith', 'endswith', 'split', 'join', 'format'):
        # a symbolic encoding name used as text: the result is some string derived from it
        obj = Unk('text-of-%s' % obj.text, kinds=['str'], taint=[], src=('label', obj))
    if type(obj).__name__ == 'AMatch':
        if name in MATCH_METHODS:
            return Builtin('match.' + name, recv=obj)
    if isinstance(obj, Unk) and obj.src == ('shared', 'logger'):
        return Builtin('logging.log')
    if isinstance(obj, AObj):
        if name in obj.attrs:
            I.emit('attr-read', node, {'obj': obj, 'name': name, 'value': obj.attrs[name]})
            return obj.attrs[name]
        if name == '__class__':
            return obj.cls
        cls = obj.cls
        p = cls.find_prop(name)
        if p is not None and 'get' in p:
            return I.call_function(p['get'], [obj], {}, node, self_cls=cls)
        m = cls.find_method(name)
        if m is not None:
            if m.kind == 'classmethod':
                return BoundMethod(cls, m, cls)
            return BoundMethod(obj, m, cls)
        owner, expr = cls.find_attr(name)
        if owner is not None:
            v = I.class_attr_value(owner, name, expr)
            if isinstance(v, AObj):
                g = v.cls.find_method('__get__')
                if g is not None:
                    return I.call_function(g, [v, obj, cls], {}, node, self_cls=v.cls)
            return v
        slots = class_slots(I.P, cls)
        if slots is not None and name in slots:
            I.emit('raise', node, {'exc': 'AttributeError', 'implicit': True, 'msg': 'slot %s unset' % name})
            raise AbsRaise(ExcValue('AttributeError', (name,), site=node), site=node, explicit=False,
                           note='slot %s.%s read before assignment' % (cls.name, name))
        if hasattr(obj, 'excvalue') and name in ('args',):
            return Unk('args')
        I.emit('raise', node, {'exc': 'AttributeError', 'implicit': True, 'msg': name})
        raise AbsRaise(ExcValue('AttributeError', (name,), site=node), site=node, explicit=False,
                       note='%s has no attribute %s' % (cls.name, name))
    if isinstance(obj, ClassInfo):
        m = obj.find_method(name)
        if m is not None:
            if m.kind == 'classmethod':
                return BoundMethod(obj, m, obj)
            return m
        owner, expr = obj.find_attr(name)
        if owner is not None:
            return I.class_attr_value(owner, name, expr)
        if name == '__name__':
            return obj.name
        raise AnalysisError('class attribute %s.%s' % (obj.name, name))
    if isinstance(obj, ModuleInfo):
        return I.global_name(FunctionInfo(obj, None, ast.FunctionDef(name='<m>', args=ast.arguments(posonlyargs=[], args=[], kwonlyargs=[], kw_defaults=[], defaults=[]), body=[], decorator_list=[]), 'function'), name, node)
    if isinstance(obj, Builtin) and obj.recv is None:
        # attribute of an external module object: json.loads, re.compile, os.SEEK_CUR ...
        full = '%s.%s' % (obj.name, name)
        try:
            v = I.P._fold_external(full)
            if not isinstance(v, External):
                return v
        except Unfoldable:
            pass
        return Builtin(full)
    if isinstance(obj, External):
        return external_value(I, External('%s.%s' % (obj.name, name)), node)
    if isinstance(obj, ExcValue):
        if name in obj.kwargs:
            return obj.kwargs[name]
        return Unk('exc.%s' % name, taint=tj(*obj.args))
    if isinstance(obj, (ADict,)) or isinstance(obj, dict):
        if name in DICT_METHODS:
            return Builtin('dict.' + name, recv=obj)
    if isinstance(obj, AList):
        if name in LIST_METHODS:
            return Builtin('list.' + name, recv=obj)
    if isinstance(obj, AStream):
        if name in STREAM_METHODS:
            return Builtin('stream.' + name, recv=obj)
        if name == 'closed':
            return obj.closed
    if isinstance(obj, (str, bytes)):
        if name in STR_METHODS:
            return Builtin('str.' + name, recv=obj)
    if isinstance(obj, Regex):
        if name in REGEX_METHODS:
            return Builtin('regex.' + name, recv=obj)
    if type(obj).__name__ == 'ASet':
        return Builtin('set.aset', recv=obj)
    if isinstance(obj, frozenset) and name in ('add', 'discard', 'remove', 'update', 'clear', 'pop', 'difference_update',
                                               'intersection_update', 'symmetric_difference_update'):
        return Builtin('set.mutate', recv=obj)
    if isinstance(obj, (tuple, frozenset)):
        return Builtin('%s.%s' % (type(obj).__name__, name), recv=obj)
    if isinstance(obj, type):
        if name == '__name__':
            return obj.__name__
    if obj is None:
        I.emit('raise', node, {'exc': 'AttributeError', 'implicit': True})
        raise AbsRaise(ExcValue('AttributeError', (name,), site=node), site=node, explicit=False,
                       note='None has no attribute %s' % name)
    if isinstance(obj, Unk):
        if obj.may_be('NoneType') and not ('truthy' in obj.facts):
            I.may_raise(node, ['AttributeError'], 'attribute %r of possibly-None value %s' % (name, obj.name), (obj,))
        ks = obj.kinds
        if ks is not None:
            ks = ks - {'NoneType'}
        if ks is not None and ks and ks <= {'str', 'bytes'} and name in STR_METHODS:
            return Builtin('str.' + name, recv=obj)
        if ks == frozenset(['dict']) and name in DICT_METHODS:
            return Builtin('dict.' + name, recv=obj)
        if ks == frozenset(['list']) and name in LIST_METHODS:
            return Builtin('list.' + name, recv=obj)
        if ks == frozenset(['Match']) and name in MATCH_METHODS:
            return Builtin('match.' + name, recv=obj)
        if ks == frozenset(['Stream']) and name in STREAM_METHODS:
            return Builtin('stream.' + name, recv=obj)
        if ks == frozenset(['Regex']) and name in REGEX_METHODS:
            return Builtin('regex.' + name, recv=obj)
        # unknown kind: method by name
        if name in STR_METHODS or name in DICT_METHODS or name in LIST_METHODS or name in MATCH_METHODS:
            return Builtin('any.' + name, recv=obj)
        mk = ('attr', id(obj), name)
        if mk not in I.memo:
            u = Unk('%s.%s' % (obj.name, name), taint=obj.taint, src=('attr', obj, name))
            if obj.src and obj.src[0] == 'call' and obj.src[1] == 'codecs.lookup' and name == 'name':
                u.kinds = frozenset(['str'])
                u.facts |= {'codec-ok', 'canon-codec', 'truthy'}
            I.memo[mk] = u
        return I.memo[mk]
    raise AnalysisError('attribute %s of %r at %s' % (name, obj, norm(node)[:60]))


_SLOTS_CACHE = {}


def class_slots(P, cls):
    """Union of __slots__ over the MRO if *every* repo class in it defines
    __slots__ (then instances have no __dict__), else None."""
    key = cls.qualname
    if key in _SLOTS_CACHE and _SLOTS_CACHE[key][0] is P:
        return _SLOTS_CACHE[key][1]
    names = set()
    closed = True
    for c in cls.repo_mro():
        if '__slots__' not in c.attrs:
            closed = False
            break
        try:
            v = P.fold(c.attrs['__slots__'], c.module, c)
        except Unfoldable:
            closed = False
            break
        if isinstance(v, str):
            v = (v,)
        names |= set(v)
    for b in cls.external_bases():
        if b not in ('builtins.object',):
            closed = False
    res = names if closed else None
    _SLOTS_CACHE[key] = (P, res)
    return res


def set_attr(I, obj, name, v, node):
    from sa.interp import AbsRaise
    if isinstance(obj, AObj):
        cls = obj.cls
        p = cls.find_prop(name)
        if p is not None:
            if 'set' in p:
                return I.call_function(p['set'], [obj, v], {}, node, self_cls=cls)
            I.emit('raise', node, {'exc': 'AttributeError', 'implicit': True})
            raise AbsRaise(ExcValue('AttributeError', (name,), site=node), site=node, explicit=False,
                           note='property %s has no setter' % name)
        owner, expr = cls.find_attr(name)
        if owner is not None:
            d = I.class_attr_value(owner, name, expr)
            if isinstance(d, AObj):
                s = d.cls.find_method('__set__')
                if s is not None:
                    return I.call_function(s, [d, obj, v], {}, node, self_cls=d.cls)
        slots = class_slots(I.P, cls)
        if slots is not None and name not in slots:
            I.emit('raise', node, {'exc': 'AttributeError', 'implicit': True, 'msg': name})
            raise AbsRaise(ExcValue('AttributeError', (name,), site=node), site=node, explicit=False,
                           note='%s has no slot %s' % (cls.name, name))
        if slots is not None and (owner is not None or cls.find_method(name) is not None):
            # a class attribute shadows the slot name: read-only
            I.emit('raise', node, {'exc': 'AttributeError', 'implicit': True, 'msg': name})
            raise AbsRaise(ExcValue('AttributeError', (name,), site=node), site=node, explicit=False,
                           note='%s.%s is read-only' % (cls.name, name))
        I.effect('attr-store', node, {'obj': obj, 'name': name, 'value': v})
        obj.attrs[name] = v
        return
    if isinstance(obj, ExcValue):
        obj.kwargs[name] = v
        return
    if isinstance(obj, Unk):
        I.effect('attr-store', node, {'obj': obj, 'name': name, 'value': v})
        return
    raise AnalysisError('attribute store on %r' % (obj,))


# -- subscripts -------------------------------------------------------------------

def subscript(I, obj, idx, node):
    if type(obj).__name__ == 'AMatch' or (isinstance(obj, Unk) and obj.kinds is not None and obj.kinds <= {'Match'}):
        # m[g] is m.group(g)
        from sa.calls import m_group
        return m_group(I, obj, [idx], {}, node, 'match')
    from sa.interp import AbsRaise
    if type(obj).__name__ == 'ARecord':
        if is_concrete(idx) and isinstance(concrete(idx), int) and -len(obj.values) <= concrete(idx) < len(obj.values):
            return obj.values[concrete(idx)]
        raise AnalysisError('subscript %r of a %s record' % (idx, obj.rtype.name))
    obj = concrete(obj) if is_concrete(obj) else obj
    cidx = concrete(idx)
    if getattr(I, 'record_reads', False) and isinstance(obj, (ADict, AList)):
        I.emit('container-read', node, {'obj': obj})
    if isinstance(obj, ADict):
        if is_concrete(idx):
            if cidx in obj.items:
                return obj.items[cidx]
            if obj.open and cidx not in obj.absent:
                I.may_raise(node, ['KeyError'], 'key %r may be missing' % (cidx,), (obj,))
                u = I.open_value(obj, cidx)
                obj.items[cidx] = u
                return u
            I.emit('raise', node, {'exc': 'KeyError', 'implicit': True})
            raise AbsRaise(ExcValue('KeyError', (cidx,), site=node), site=node, explicit=False,
                           note='key %r not in dict' % (cidx,))
        # unknown key
        for k_, v_ in reversed(getattr(obj, 'stored_unknown', [])):
            if k_ is idx:
                return v_
        if isinstance(idx, Unk) and obj.items and not obj.open:
            keys = frozenset(obj.items)
            sure = any(keys >= s for s in idx.in_sets)
            if not sure:
                I.may_raise(node, ['KeyError'], 'lookup with unchecked key %s' % idx.name, (idx, obj))
            vals = list(obj.items.values())
            cands = [k for k in obj.items if all(k in s for s in idx.in_sets)]
            if cands and len(cands) <= 12 and isinstance(idx, Unk):
                c = I.choose(len(cands), 'key')
                idx.pin(cands[c])
                return obj.items[cands[c]]
            return Unk('%s[?]' % obj.name, taint=tj(obj), src=('item', obj, idx))
        I.may_raise(node, ['KeyError'], 'lookup with unknown key', (idx, obj))
        return Unk('%s[?]' % obj.name, taint=tj(obj), src=('item', obj, idx))
    if isinstance(obj, dict):
        if is_concrete(idx):
            if cidx in obj:
                return obj[cidx]
            raise AbsRaise(ExcValue('KeyError', (cidx,), site=node), site=node, explicit=False)
        return subscript(I, lift_shared(obj, 'dict'), idx, node)
    if isinstance(obj, AList):
        if is_concrete(idx) and isinstance(cidx, int):
            if not obj.unknown:
                try:
                    return obj.items[cidx]
                except IndexError:
                    I.emit('raise', node, {'exc': 'IndexError', 'implicit': True})
                    raise AbsRaise(ExcValue('IndexError', site=node), site=node, explicit=False,
                                   note='index %d out of range (height %d)' % (cidx, len(obj.items)))
            if cidx < 0 and -cidx <= len(obj.items):
                return obj.items[cidx]
            if 'nonempty' not in getattr(obj, 'facts', ()) or cidx not in (0, -1):
                I.may_raise(node, ['IndexError'], 'index into list of unknown length', (obj,))
            return derive(obj.elem, 'elem')
        I.may_raise(node, ['IndexError', 'TypeError'], 'index with unknown value', (obj, idx))
        return derive(obj.elem, 'elem') if obj.elem is not None else Unk('elem', taint=tj(obj))
    if isinstance(obj, (tuple, list, str, bytes)):
        if is_concrete(idx):
            try:
                return obj[cidx]
            except (IndexError, TypeError):
                raise AbsRaise(ExcValue('IndexError', site=node), site=node, explicit=False)
        return Unk('item', taint=tj(obj, idx))
    if isinstance(obj, Unk) and getattr(obj, 'one_of', None) and is_concrete(idx):
        try:
            vals = [concrete(c)[cidx] for c in obj.one_of]
            u = Unk('%s[%r]' % (obj.name, cidx), taint=tj(obj), src=('item', obj, idx))
            ks_ = set()
            for x in vals:
                ks_ |= kind_of(x) or set()
            u.kinds = frozenset(ks_)
            u.one_of = vals
            if all(vals):
                u.facts.add('truthy')
            return u
        except (IndexError, KeyError, TypeError):
            pass
    if isinstance(obj, Unk):
        ks = obj.kinds
        if obj.may_be('NoneType') and 'truthy' not in obj.facts:
            I.may_raise(node, ['TypeError'], 'subscript of possibly-None value', (obj,))
        if ks is not None and ks <= {'dict'}:
            I.may_raise(node, ['KeyError'], 'key lookup in unknown dict', (obj, idx))
        elif ks is not None and ks <= {'str', 'bytes', 'list', 'tuple'}:
            if not (isinstance(cidx, int) and is_concrete(idx) and ('len>%d' % (cidx if cidx >= 0 else -cidx - 1)) in obj.facts):
                I.may_raise(node, ['IndexError'], 'index into sequence of unknown length', (obj, idx))
        else:
            I.may_raise(node, ['KeyError', 'IndexError', 'TypeError'], 'subscript of unknown value', (obj, idx))
        rk = None
        if ks is not None and ks <= {'bytes'}:
            rk = ['int']
        elif ks is not None and ks <= {'str'}:
            rk = ['str']
        return Unk('%s[%s]' % (obj.name, getattr(idx, 'name', cidx)), kinds=rk, taint=tj(obj, idx), src=('item', obj, idx))
    raise AnalysisError('subscript of %r' % (obj,))


def slice_value(I, obj, sl, node):
    _, lo, hi, step = sl
    if isinstance(obj, AList) and not obj.unknown and all(is_concrete(x) for x in (lo, hi, step)):
        return AList(obj.items[slice(concrete(lo), concrete(hi), concrete(step))])
    if is_concrete(obj) and all(is_concrete(x) for x in (lo, hi, step)) and isinstance(concrete(obj), (str, bytes, tuple)):
        return concrete(obj)[slice(concrete(lo), concrete(hi), concrete(step))]
    for x in (lo, hi, step):
        if isinstance(x, Unk) and not x.only('int', 'NoneType'):
            I.may_raise(node, ['TypeError'], 'slice bound of unknown type', (x,))
    if isinstance(obj, AList):
        return AList([], elem=obj.elem if obj.elem is not None else (obj.items[0] if obj.items else Unk('e')))
    if isinstance(obj, Unk):
        u = Unk('%s[:]' % obj.name, kinds=obj.kinds, taint=tj(obj, lo, hi), src=('slice', obj, lo, hi))
        if hi is None and step is None:
            for f_ in obj.facts:
                if isinstance(f_, tuple) and f_[0] in ('encoded-by', 'encoded-in', 'encoded-by-param'):
                    u.facts.add(f_)
        if hasattr(obj, 'k1_record'):
            u.k1_record = obj.k1_record
        return u
    return Unk('slice', kinds=kind_of(obj), taint=tj(obj, lo, hi), src=('slice', obj, lo, hi))


def store_subscript(I, obj, idx, v, node):
    from sa.interp import AbsRaise
    cidx = concrete(idx)
    if isinstance(obj, ADict):
        I.effect('item-store', node, {'obj': obj, 'key': idx, 'value': v,
                                      'was_absent': is_concrete(idx) and (cidx in obj.absent or (not obj.open and cidx not in obj.items))})
        if is_concrete(idx):
            obj.items[cidx] = v
            obj.absent.discard(cidx)
        else:
            obj.open = True
            obj.taint |= tj(idx, v)
            obj.stored_unknown = getattr(obj, 'stored_unknown', []) + [(idx, v)]
        return
    if isinstance(obj, AList) and isinstance(idx, tuple) and idx and idx[0] == 'slice':
        # l[a:b] = values
        I.effect('item-store', node, {'obj': obj, 'key': idx, 'value': v})
        _, lo, hi, step = idx
        vals = v.items if isinstance(v, AList) and not v.unknown else (list(concrete(v)) if is_concrete(v) and isinstance(concrete(v), (list, tuple)) else None)
        if not obj.unknown and vals is not None and all(x is None or is_concrete(x) for x in (lo, hi, step)) and step is None:
            obj.items[slice(None if lo is None else concrete(lo), None if hi is None else concrete(hi))] = list(vals)
            return
        raise AnalysisError('slice assignment with unknown bounds or values at %s' % norm(node)[:60])
    if isinstance(obj, AList):
        I.effect('item-store', node, {'obj': obj, 'key': idx, 'value': v})
        if is_concrete(idx) and not obj.unknown:
            try:
                obj.items[cidx] = v
            except IndexError:
                raise AbsRaise(ExcValue('IndexError', site=node), site=node, explicit=False)
        elif is_concrete(idx) and cidx < 0 and -cidx <= len(obj.items):
            obj.items[cidx] = v
        return
    if isinstance(obj, Unk):
        I.effect('item-store', node, {'obj': obj, 'key': idx, 'value': v})
        if not obj.only('dict', 'list'):
            I.may_raise(node, ['TypeError'], 'item assignment on unknown value', (obj,))
        return
    raise AnalysisError('subscript store on %r' % (obj,))


def delete_subscript(I, obj, idx, node):
    I.effect('item-del', node, {'obj': obj, 'key': idx})
    if isinstance(obj, AList) and isinstance(idx, tuple) and idx[0] == 'slice' and not obj.unknown:
        lo, hi = concrete(idx[1]), concrete(idx[2])
        if all(is_concrete(x) for x in idx[1:]):
            del obj.items[slice(lo, hi)]
            return
    if isinstance(obj, ADict) and is_concrete(idx):
        obj.items.pop(concrete(idx), None)
        return
    if isinstance(obj, AList) and is_concrete(idx) and isinstance(concrete(idx), int):
        i = concrete(idx)
        if not obj.unknown:
            try:
                del obj.items[i]
            except IndexError:
                from sa.interp import AbsRaise
                raise AbsRaise(ExcValue('IndexError', site=node), site=node, explicit=False)
            return
        if i in (-1, 0):
            if 'nonempty' not in getattr(obj, 'facts', ()) and not obj.items:
                I.may_raise(node, ['IndexError'], 'del of an element of a list of unknown length', (obj,))
            elif hasattr(obj, 'facts'):
                obj.facts = set(obj.facts) - {'nonempty'}
            if i == -1 and obj.items:
                obj.items.pop()
            return
    if isinstance(obj, (AList, Unk)):
        I.may_raise(node, ['IndexError', 'TypeError'], 'del of an element with unknown index', (obj, idx))
        return
    raise AnalysisError('del subscript on %r' % (obj,))


def dict_update(I, d, src, node):
    src = concrete(src)
    if isinstance(src, dict):
        src = ADict(src)
    if isinstance(src, ADict):
        d.items.update(src.items)
        if src.open:
            d.open = True
            d.taint |= src.taint
            d.valkinds = src.valkinds
            d.splat_of = src
        return
    if isinstance(src, Unk):
        d.open = True
        d.taint |= src.taint
        return
    if isinstance(src, AList):
        # an iterable of (key, value) pairs
        for it in src.items:
            pair = concrete(it) if is_concrete(it) else it
            if isinstance(pair, AList) and not pair.unknown and len(pair.items) == 2:
                pair = tuple(pair.items)
            if isinstance(pair, tuple) and len(pair) == 2:
                k, v = pair
                if is_concrete(k):
                    d.items[concrete(k)] = v
                else:
                    d.open = True
                    d.taint |= taint_of(k) | taint_of(v)
                    if not hasattr(d, 'unknown_pairs'):
                        d.unknown_pairs = []
                    d.unknown_pairs.append((k, v))
            else:
                raise AnalysisError('dict update from a sequence whose elements are not pairs: %r' % (it,))
        if src.unknown:
            d.open = True
            d.taint |= taint_of(src)
        return
    raise AnalysisError('dict update from %r' % (src,))


# -- iteration ------------------------------------------------------------------------

def iterate(I, it, node):
    if isinstance(it, tuple) and it and isinstance(it[0], str) and it[0] == 'items' and len(it) >= 3 \
            and isinstance(it[1], list):
        return it[1]
    if type(it).__name__ == 'ARecord':
        return list(it.values)
    it = concrete(it) if is_concrete(it) else it
    if getattr(I, 'record_reads', False) and isinstance(it, (ADict, AList)):
        I.emit('container-read', node, {'obj': it})
    if type(it).__name__ == 'AIter':
        rest = it.items[it.pos:]
        it.pos = len(it.items)
        return list(rest)
    if isinstance(it, (tuple, list, range)):
        return list(it)
    if isinstance(it, frozenset):
        return sorted(it, key=repr)
    if type(it).__name__ == 'ASet':
        return sorted(it.items, key=repr)
    if isinstance(it, (str, bytes)):
        return list(it)
    if isinstance(it, dict):
        return list(it)
    if isinstance(it, AList):
        if not it.unknown:
            return list(it.items)
        opts = I.unknown_iters
        if 'nonempty' in getattr(it, 'facts', ()) and not it.items:
            opts = tuple(x for x in opts if x >= 1) or (1,)
        n = opts[I.choose(len(opts), 'iters')]
        I.emit('loop', node, {'iters': n, 'of': it})
        return list(it.items) + [derive_fresh(it.elem, 'elem%d' % i) for i in range(n)]
    if isinstance(it, ADict):
        keys = list(it.items)
        if it.open:
            n = I.unknown_iters[I.choose(len(I.unknown_iters), 'iters')]
            keys += [Unk('key%d' % i, kinds=['str'], taint=it.taint | {'OPTKEY'}) for i in range(n)]
        return keys
    if isinstance(it, tuple) and it and it[0] == 'items':
        return it[1]
    if isinstance(it, Unk):
        if it.src and it.src[0] == 'iter-of':
            return iterate(I, it.src[1], node)
        if it.may_be('NoneType') or it.may_be('int'):
            if it.kinds is None or not it.kinds <= {'list', 'tuple', 'dict', 'str', 'bytes', 'set', 'obj'}:
                I.may_raise(node, ['TypeError'], 'iteration over value of unknown type', (it,))
        n = I.unknown_iters[I.choose(len(I.unknown_iters), 'iters')]
        I.emit('loop', node, {'iters': n, 'of': it})
        ek = None
        if it.kinds is not None and it.kinds <= {'bytes'}:
            ek = ['int']
        elif it.kinds is not None and it.kinds <= {'str'}:
            ek = ['str']
        elem_kinds = getattr(it, 'elem_kinds', ek)
        return [Unk('%s#%d' % (it.name, i), kinds=elem_kinds, taint=it.taint, src=('elem', it, i)) for i in range(n)]
    if isinstance(it, AObj):
        m = it.cls.find_method('__iter__')
        if m is not None:
            r = I.call_function(m, [it], {}, node, self_cls=it.cls)
            return iterate(I, r, node)
    raise AnalysisError('iteration over %r at %s' % (it, norm(node)[:60]))


def derive_fresh(elem, name):
    if isinstance(elem, Unk):
        u = Unk('%s' % name if elem.name is None else '%s.%s' % (elem.name, name), kinds=elem.kinds,
                taint=elem.taint, src=('elem', elem, name))
        u.facts = set(elem.facts)
        for a in ('piece_of', 'group_of', 'k1_record'):
            if hasattr(elem, a):
                setattr(u, a, getattr(elem, a))
        return u
    return elem


def comprehension(I, e, kind):
    if len(e.generators) != 1:
        raise AnalysisError('nested comprehension')
    g = e.generators[0]
    it = I.eval(g.iter)
    seq = iterate(I, it, e)
    fr = I.frames[-1]
    saved = dict(fr.locals)
    out = []
    try:
        for x in seq:
            I.assign(g.target, x, e)
            if all(I.truth(I.eval(c), c) for c in g.ifs):
                if kind == 'dict':
                    out.append((I.eval(e.key), I.eval(e.value)))
                else:
                    out.append(I.eval(e.elt))
    finally:
        # comprehension variables do not leak
        for k in list(fr.locals):
            if k not in saved:
                del fr.locals[k]
        for k, v in saved.items():
            fr.locals[k] = v
    unknown_len = isinstance(it, (Unk,)) or (isinstance(it, AList) and it.unknown) or (isinstance(it, ADict) and it.open)
    if kind == 'dict':
        d = ADict({}, name='dictcomp@%d' % e.lineno)
        for k, v in out:
            if is_concrete(k):
                d.items[concrete(k)] = v
            else:
                d.open = True
                d.taint |= tj(k, v)
                d.stored_unknown = getattr(d, 'stored_unknown', []) + [(k, v)]
        if isinstance(it, tuple) and it and it[0] == 'items' and getattr(it[2], 'open', False):
            d.open = True
            d.taint |= it[2].taint
            d.valkinds = it[2].valkinds
            d.splat_of = it[2]
            d.keymap = getattr(it[2], 'name', None)
        return d
    if kind == 'set' and getattr(I.P, '_folding_by_interp', False) and not unknown_len and all(is_concrete(x) for x in out):
        # a constant table built by a helper: keep it a set (the folder turns it into a frozenset)
        from sa.values import ASet
        try:
            return ASet([concrete(x) for x in out])
        except TypeError:
            pass
    l = AList(out)
    if isinstance(it, tuple) and len(it) > 3 and it[0] == 'items' and it[3] == 'sorted':
        l.sorted_source = True
    if isinstance(it, AList) and getattr(it, 'sorted', False):
        l.sorted_source = True
    if isinstance(it, AList) and it.unknown and not g.ifs:
        # same (unknown) length as the source list
        l.unknown = True
        l.elem = out[-1] if out else Unk('elem', taint=tj(it))
        l.items = []
        if 'nonempty' in getattr(it, 'facts', ()):
            l.facts = {'nonempty'}
    return l


# -- operators ---------------------------------------------------------------------------

def binop(I, op, l, r, node):
    cl, cr = concrete(l), concrete(r)
    if is_concrete(l) and is_concrete(r) and not isinstance(cl, (Label,)) and not isinstance(cr, (Label,)):
        try:
            if isinstance(op, ast.Add):
                return cl + cr
            if isinstance(op, ast.Sub):
                return cl - cr
            if isinstance(op, ast.Mult):
                return cl * cr
            if isinstance(op, ast.Mod):
                return cl % cr
            if isinstance(op, ast.BitOr):
                return cl | cr
            if isinstance(op, ast.FloorDiv):
                return cl // cr
        except Exception:
            pass
    if isinstance(op, ast.Add) and isinstance(l, AList) and isinstance(r, AList):
        out = AList(l.items + r.items)
        if l.unknown or r.unknown:
            out.unknown = True
            out.elem = l.elem if l.elem is not None else r.elem
        return out
    if isinstance(op, ast.Add) and isinstance(l, AList) and isinstance(r, Unk):
        out = AList(list(l.items), elem=Unk('%s[]' % r.name, taint=r.taint))
        return out
    if isinstance(op, ast.Mod):
        return format_percent(I, l, r, node)
    opn = type(op).__name__
    kl, kr = kind_of(l), kind_of(r)
    kinds = None
    if kl is not None and kr is not None and kl == kr and len(kl) == 1:
        kinds = kl
    if opn in ('Sub', 'Mult', 'FloorDiv') and kl == frozenset(['int']) and kr == frozenset(['int']):
        kinds = ['int']
    if opn == 'Mult' and kl is not None and kl <= {'str', 'bytes'}:
        kinds = kl
        if not (kr is not None and kr <= {'int', 'bool'}):
            I.may_raise(node, ['TypeError'], 'sequence repetition by non-integer', (r,))
    elif kinds is None:
        # arithmetic between values of unknown kinds
        if not (kl is not None and kr is not None and kl <= {'int', 'bool', 'float'} and kr <= {'int', 'bool', 'float'}):
            if tj(l, r):
                I.may_raise(node, ['TypeError'], 'operator %s on operands of unknown type' % opn, (l, r))
        else:
            kinds = ['int']
    u = Unk(opn.lower(), kinds=kinds, taint=tj(l, r), src=('binop', opn, l, r))
    return u


def format_percent(I, fmt, arg, node):
    import re as _re
    cf = concrete(fmt)
    taint = tj(fmt, arg)
    if isinstance(cf, (str, bytes)) and is_concrete(fmt):
        pat = rb'%(?:\((\w+)\))?[#0\- +]*\d*(?:\.\d+)?([a-zA-Z%])' if isinstance(cf, bytes) else r'%(?:\((\w+)\))?[#0\- +]*\d*(?:\.\d+)?([a-zA-Z%])'
        specs = [(m.group(1), m.group(2)) for m in _re.finditer(pat, cf)]
        specs = [s for s in specs if s[1] not in ('%', b'%')]
        args = None
        ca = concrete(arg)
        if isinstance(ca, tuple):
            args = list(ca)
        elif isinstance(arg, ADict):
            args = arg
        else:
            args = [arg]
        for i, (key, conv) in enumerate(specs):
            conv = conv.decode() if isinstance(conv, bytes) else conv
            if isinstance(args, ADict):
                k = key.decode() if isinstance(key, bytes) else key
                v = args.items.get(k)
                if k not in args.items:
                    I.may_raise(node, ['KeyError'], 'format key %r missing' % k, (args,))
            else:
                v = args[i] if i < len(args) else None
                if i >= len(args):
                    I.may_raise(node, ['TypeError'], 'not enough arguments for format string', ())
            if conv in 'dioxXeEfFgGc':
                kv = kind_of(v)
                if not (kv is not None and kv <= {'int', 'bool', 'float'}):
                    I.may_raise(node, ['TypeError'], '%%%s format of a value that may not be a number' % conv, (v,))
            if isinstance(cf, bytes) and conv in 'sb':
                kv = kind_of(v)
                if not (kv is not None and kv <= {'bytes'}):
                    I.may_raise(node, ['TypeError'], '%%%s in bytes format of a value that may not be bytes' % conv, (v,))
        if isinstance(args, list) and all(is_concrete(a) for a in args) and not isinstance(arg, ADict):
            try:
                return cf % (tuple(concrete(a) for a in args) if isinstance(ca, tuple) else ca)
            except Exception:
                pass
        u = Unk('fmt', kinds=['bytes' if isinstance(cf, bytes) else 'str'], taint=taint,
                src=('format', cf, args))
        if _re.sub(pat, b'' if isinstance(cf, bytes) else '', cf):
            u.facts.add('truthy')      # the template has literal text
        return u
    kf = kind_of(fmt)
    if kf is not None and kf <= {'int'}:
        return Unk('mod', kinds=['int'], taint=taint, src=('binop', 'Mod', fmt, arg))
    I.may_raise(node, ['TypeError'], '%% with unknown format', (fmt, arg))
    return Unk('fmt', kinds=kf, taint=taint, src=('format', fmt, arg))


def _bounds(u):
    lo, hi = None, None
    for f in u.facts:
        if not isinstance(f, str):
            continue
        for op in ('>=', '<=', '>', '<'):
            if f.startswith(op):
                try:
                    n = float(f[len(op):])
                except ValueError:
                    break
                if op == '>=':
                    lo = n if lo is None else max(lo, n)
                elif op == '>':
                    lo = n + 1 if lo is None else max(lo, n + 1)
                elif op == '<=':
                    hi = n if hi is None else min(hi, n)
                elif op == '<':
                    hi = n - 1 if hi is None else min(hi, n - 1)
                break
    return lo, hi


def _decide_order(opn, l, r):
    if isinstance(l, Unk) and not l.has_const and is_concrete(r) and isinstance(concrete(r), (int, float)) \
            and l.only('int', 'bool'):
        u, c, o = l, concrete(r), opn
    elif isinstance(r, Unk) and not r.has_const and is_concrete(l) and isinstance(concrete(l), (int, float)) \
            and r.only('int', 'bool'):
        u, c = r, concrete(l)
        o = {'Lt': 'Gt', 'LtE': 'GtE', 'Gt': 'Lt', 'GtE': 'LtE'}.get(opn)
    else:
        return None
    lo, hi = _bounds(u)
    if o == 'Lt':
        if hi is not None and hi < c:
            return True
        if lo is not None and lo >= c:
            return False
    elif o == 'LtE':
        if hi is not None and hi <= c:
            return True
        if lo is not None and lo > c:
            return False
    elif o == 'Gt':
        if lo is not None and lo > c:
            return True
        if hi is not None and hi <= c:
            return False
    elif o == 'GtE':
        if lo is not None and lo >= c:
            return True
        if hi is not None and hi < c:
            return False
    return None


_FLIPPED = {'Eq': ast.Eq, 'NotEq': ast.NotEq, 'Lt': ast.Gt, 'LtE': ast.GtE, 'Gt': ast.Lt, 'GtE': ast.LtE}


def compare(I, op, l, r, node):
    # constant OP unknown is the same test as unknown OP' constant: one orientation for all the refinements below
    if type(op).__name__ in _FLIPPED and is_concrete(l) and not is_concrete(r):
        l, r, op = r, l, _FLIPPED[type(op).__name__]()
    elif type(op).__name__ in ('Is', 'IsNot') and is_concrete(l) and concrete(l) is None and not (is_concrete(r) and concrete(r) is None):
        l, r = r, l
    if getattr(I, 'record_compares', False):
        I.emit('compare', node, {'op': type(op).__name__, 'l': l, 'r': r})
    cl, cr = concrete(l), concrete(r)
    lc, rc = is_concrete(l), is_concrete(r)
    opn = type(op).__name__
    if opn in ('Is', 'IsNot'):
        res = None
        if cr is None and rc:
            if lc:
                res = cl is None
            elif isinstance(l, Unk):
                if not l.may_be('NoneType') or 'truthy' in l.facts:
                    res = False
                elif l.kinds is not None and l.kinds <= {'NoneType'}:
                    res = True
                else:
                    def refine(t, l=l, pos=(opn == 'Is')):
                        if t == pos:
                            l.pin(None)
                        else:
                            l.exclude(['NoneType'])
                    return Unk('cond', kinds=['bool'], src=('cond', refine))
            else:
                res = False
        elif lc and rc:
            res = cl is cr or (cl == cr and type(cl) is type(cr) and isinstance(cl, (bool, type(None))))
        elif isinstance(l, (AObj, AList, ADict, AStream)) or isinstance(r, (AObj, AList, ADict, AStream)):
            res = l is r
        elif isinstance(l, (ClassInfo, type)) or isinstance(r, (ClassInfo, type)):
            res = l is r if (lc and rc) else None
        if res is None:
            return Unk('cond', kinds=['bool'], taint=tj(l, r), src=('cond', lambda t: None))
        return res if opn == 'Is' else (not res)
    if opn in ('In', 'NotIn'):
        res = None
        cont = r
        if type(r).__name__ == 'ASet' and getattr(r, 'unknown', False):
            # a set that also holds unknown values: a known member is a member, anything else is undecided
            I.emit('membership', node, {'left': l, 'right': r, 'op': opn})
            if lc and cl in r.items:
                return opn == 'In'
            return Unk('cond', kinds=['bool'], taint=tj(l) | getattr(r, 'taint', frozenset()), src=('cond', lambda t: None))
        if type(r).__name__ == 'ASet':
            r = frozenset(r.items)
            cr, rc = r, True
        I.emit('membership', node, {'left': l, 'right': r, 'op': opn})
        if rc and isinstance(cr, (frozenset, tuple, str, bytes, dict)):
            if lc:
                try:
                    res = cl in cr
                except TypeError:
                    res = False
            elif isinstance(l, Unk) and isinstance(cr, (frozenset, tuple)):
                S = frozenset(cr)
                if any(s <= S for s in l.in_sets):
                    res = True
                elif any(s & S == frozenset() for s in l.in_sets) or any(S <= s for s in l.notin_sets):
                    res = False
                else:
                    def refine(t, l=l, S=S, pos=(opn == 'In')):
                        if t == pos:
                            l.in_sets.append(S)
                            ks = set()
                            for x in S:
                                ks |= kind_of(x) or set()
                            l.restrict(ks)
                            l.facts.add('truthy' if all(S) else 'x')
                            if len(S) == 1:
                                l.pin(next(iter(S)))
                        else:
                            l.notin_sets.append(S)
                    return Unk('cond', kinds=['bool'], taint=tj(l), src=('cond', refine))
        elif isinstance(cont, ADict):
            if lc:
                if cl in cont.items:
                    res = True
                elif not cont.open or cl in cont.absent:
                    res = False
                else:
                    def refine(t, d=cont, k=cl, pos=(opn == 'In')):
                        if t == pos:
                            d.items[k] = I.open_value(d, k)
                        else:
                            d.absent.add(k)
                    return Unk('cond', kinds=['bool'], taint=tj(cont), src=('cond', refine))
        elif isinstance(cont, AList) and not cont.unknown and lc and all(is_concrete(x) for x in cont.items):
            res = cl in [concrete(x) for x in cont.items]
        if res is None:
            if isinstance(cont, Unk) and cont.may_be('NoneType') and 'truthy' not in cont.facts:
                I.may_raise(node, ['TypeError'], 'membership test against possibly-None value', (cont,))
            return Unk('cond', kinds=['bool'], taint=tj(l, r), src=('cond', lambda t: None))
        return res if opn == 'In' else (not res)
    if lc and rc and not isinstance(cl, Label) and not isinstance(cr, Label):
        try:
            return {'Eq': lambda: cl == cr, 'NotEq': lambda: cl != cr, 'Lt': lambda: cl < cr,
                    'LtE': lambda: cl <= cr, 'Gt': lambda: cl > cr, 'GtE': lambda: cl >= cr}[opn]()
        except TypeError:
            from sa.interp import AbsRaise
            raise AbsRaise(ExcValue('TypeError', site=node), site=node, explicit=False)
    if (isinstance(cl, Label) or isinstance(cr, Label)) and lc and rc:
        if opn == 'Eq':
            return cl is cr
        if opn == 'NotEq':
            return cl is not cr
    if opn in ('Eq', 'NotEq'):
        if l is r and isinstance(l, (ADict, AList, Unk)):
            return opn == 'Eq'
        if isinstance(l, Unk) and rc:
            if any(cr not in s for s in l.in_sets):
                return opn == 'NotEq'
            kl = kind_of(l)
            if kl is not None and kind_of(cr) and not (kl & kind_of(cr)) and not (kl <= {'int', 'bool'} and kind_of(cr) <= {'int', 'bool'}):
                return opn == 'NotEq'

            def refine(t, l=l, v=cr, pos=(opn == 'Eq')):
                log = getattr(I, 'pin_log', None)
                if log is not None:
                    log.append((l, v, t == pos))
                if t == pos:
                    l.pin(v)
                else:
                    l.neq.append(v)
            return Unk('cond', kinds=['bool'], taint=tj(l), src=('cond', refine))
        if isinstance(l, (AObj, ADict, AList)) or isinstance(r, (AObj, ADict, AList)):
            if isinstance(l, AObj):
                m = l.cls.find_method('__eq__')
                if m is not None:
                    v = I.call_function(m, [l, r], {}, node, self_cls=l.cls)
                    if opn == 'NotEq':
                        return not I.truth(v, node)
                    return v
            if isinstance(l, AList) and isinstance(r, AList) and opn == 'Eq':
                I.emit('list-eq', node, {'l': l, 'r': r})
        return Unk('cond', kinds=['bool'], taint=tj(l, r), src=('cond', lambda t: None))
    # ordering comparisons on unknowns: decide from recorded bounds when possible
    d = _decide_order(opn, l, r)
    if d is not None:
        return d
    for v in (l, r):
        k = kind_of(v)
        if isinstance(v, Unk) and not (k is not None and k <= {'int', 'bool', 'float'}):
            if tj(v):
                I.may_raise(node, ['TypeError'], 'ordering comparison with value of unknown type', (v,))

    def refine_ord(t, l=l, r=r, opn=opn):
        # record simple bounds as facts (used by the length / indent sanitiser rules)
        tgt, other, o = None, None, opn
        if isinstance(l, Unk) and is_concrete(r):
            tgt, other = l, concrete(r)
        elif isinstance(r, Unk) and is_concrete(l):
            tgt, other = r, concrete(l)
            o = {'Lt': 'Gt', 'LtE': 'GtE', 'Gt': 'Lt', 'GtE': 'LtE'}[opn]
        if tgt is None or not isinstance(other, (int, float)):
            return
        if not t:
            o = {'Lt': 'GtE', 'LtE': 'Gt', 'Gt': 'LtE', 'GtE': 'Lt'}[o]
        tgt.facts.add('%s%s' % ({'Lt': '<', 'LtE': '<=', 'Gt': '>', 'GtE': '>='}[o], other))
    return Unk('cond', kinds=['bool'], taint=tj(l, r), src=('cond', refine_ord))


_RX_FACTS = {}


def refine_regex(I, m, res):
    """Guard on a regex result: record what a successful / failed match says about the data."""
    _, rx, mode, data = m.src
    rx = concrete(rx)
    if not isinstance(data, Unk) or not isinstance(rx, Regex):
        return
    data.regex_guards = getattr(data, 'regex_guards', []) + [(rx, mode, res)]
    # a guard on the plain rendering of a value ('%s' % v, str(v)) is a guard on v's rendering
    if data.src and data.src[0] == 'format' and concrete(data.src[1]) in ('%s', b'%s'):
        ops = data.src[2] if isinstance(data.src[2], (list, tuple)) else [data.src[2]]
        if len(ops) == 1 and isinstance(ops[0], Unk):
            ops[0].regex_guards = getattr(ops[0], 'regex_guards', []) + [(rx, mode, res)]
    elif data.src and data.src[0] == 'call' and data.src[1] == 'str' and isinstance(data.src[2][0], Unk):
        o = data.src[2][0]
        o.regex_guards = getattr(o, 'regex_guards', []) + [(rx, mode, res)]
    if not res:
        m.pin(None)
        return
    m.restrict(['Match'])
    key = (rx, mode)
    if key not in _RX_FACTS:
        from sa import rx as RX
        facts = set()
        try:
            L = RX.from_pattern(rx.pattern, rx.flags, mode='full' if mode == 'fullmatch' else 'match')
            ascii_ = RX.sigma_star(L.N, range(128))
            if RX.included(L, ascii_) is None:
                facts.add('ascii-only')
            isb = isinstance(rx.pattern, bytes)
            if RX.included(L, RX.from_pattern(b'-?[0-9]+' if isb else '-?[0-9]+')) is None:
                facts.add('digits')
            if not L.accepts([]):
                facts.add('truthy')
        except AnalysisError:
            pass
        _RX_FACTS[key] = facts
    data.facts |= _RX_FACTS[key]


def call_builtin(I, fn, args, kwargs, node):
    from sa import calls
    return calls.call_builtin(I, fn, args, kwargs, node)
