"""E2/E3 - path-forking abstract interpreter over the package's AST.

The interpreter never runs pydiffx: it walks the syntax tree of the functions
under analysis with *abstract* values (``sa.values``).  Unknown branch
conditions fork the path; paths are enumerated by replaying a choice sequence
from the entry (no state copying).  Package calls are inlined.  Every
operation that may fail on input-dependent data is looked up in the sink table
of ``sa.models`` and recorded as an event; rules read the per-path event logs.
"""
import ast

from sa.model import (AnalysisError, ClassInfo, External, FunctionInfo, ModuleInfo, Regex,
                      Unfoldable, norm)
from sa.values import (ADict, AList, AObj, AStream, BoundMethod, Builtin, ExcValue, Label, Unk,
                       concrete, is_concrete, kind_of, taint_of)


class AbsRaise(Exception):
    def __init__(self, exc, site=None, explicit=True, note=None):
        Exception.__init__(self, getattr(exc, 'exc_name', str(exc)))
        self.exc = exc            # ExcValue
        self.site = site
        self.explicit = explicit
        self.note = note


class PathCut(Exception):
    """Exploration of this path stops here (iteration bound reached)."""


class _Return(Exception):
    def __init__(self, value):
        self.value = value


class _Break(Exception):
    pass


class _Continue(Exception):
    pass


BUILTIN_EXC_BASES = {
    'BaseException': None, 'Exception': 'BaseException', 'ArithmeticError': 'Exception',
    'OverflowError': 'ArithmeticError', 'ZeroDivisionError': 'ArithmeticError',
    'AssertionError': 'Exception', 'AttributeError': 'Exception', 'LookupError': 'Exception',
    'IndexError': 'LookupError', 'KeyError': 'LookupError', 'NameError': 'Exception',
    'UnboundLocalError': 'NameError', 'TypeError': 'Exception', 'ValueError': 'Exception',
    'UnicodeError': 'ValueError', 'UnicodeDecodeError': 'UnicodeError',
    'UnicodeEncodeError': 'UnicodeError', 'JSONDecodeError': 'ValueError',
    're.error': 'Exception', 'StopIteration': 'Exception', 'RuntimeError': 'Exception',
    'RecursionError': 'RuntimeError', 'NotImplementedError': 'RuntimeError', 'OSError': 'Exception',
    'MemoryError': 'Exception',
}


def exc_name(e):
    if isinstance(e, ClassInfo):
        return e.name
    if isinstance(e, External):
        return e.name.split('.', 1)[1] if e.name.startswith('builtins.') else e.name
    return e


def exc_ancestors(e):
    """Names of all classes ``e`` (ClassInfo or builtin name) is a subclass of."""
    out = []
    if isinstance(e, ClassInfo):
        for c in e.mro():
            if isinstance(c, ClassInfo):
                out.append(c.name)
            else:
                n = exc_name(c)
                while n is not None:
                    out.append(n)
                    n = BUILTIN_EXC_BASES.get(n)
        return out
    n = exc_name(e)
    while n is not None:
        out.append(n)
        n = BUILTIN_EXC_BASES.get(n)
    return out


def exc_matches(e, handler):
    """Is exception class ``e`` caught by handler class spec ``handler``?"""
    if handler is None:
        return True
    if isinstance(handler, tuple):
        return any(exc_matches(e, h) for h in handler)
    return exc_name(handler) in exc_ancestors(e)


class Event(object):
    __slots__ = ('kind', 'fi', 'node', 'data', 'stack', 'dirty')

    def __init__(self, kind, fi, node, data, stack, dirty=None):
        self.kind = kind
        self.fi = fi
        self.node = node
        self.data = data
        self.stack = stack
        self.dirty = dirty

    @property
    def loc(self):
        if self.fi is None:
            return '?'
        return '%s:%d' % (self.fi.module.relpath, getattr(self.node, 'lineno', 0))

    @property
    def fn(self):
        return self.fi.short if self.fi is not None else '?'

    def callpath(self):
        return [f.short for f in self.stack]

    def __repr__(self):
        return 'Event(%s %s %s)' % (self.kind, self.loc, self.data)


class Path(object):
    def __init__(self, events, outcome, value, choices):
        self.events = events
        self.outcome = outcome    # 'return' | 'raise' | 'cut'
        self.value = value
        self.choices = choices


class Frame(object):
    def __init__(self, fi, self_cls=None):
        self.fi = fi
        self.locals = {}
        self.self_cls = self_cls
        self.handlers = []        # active try blocks: list of handler specs


class Interp(object):
    MAX_DEPTH = 14
    MAX_PATHS = 20000

    def __init__(self, program, stubs=None, unknown_iters=(0, 1, 2), while_bound=3,
                 inline_exc_init=False):
        from sa import models
        self.P = program
        self.models = models
        self.stubs = stubs or {}          # qualname -> callable(interp, fi, args, kwargs, node)
        self.unknown_iters = unknown_iters
        self.while_bound = while_bound
        self.inline_exc_init = inline_exc_init
        self.frames = []
        self.events = []
        self.choices = []
        self.pos = 0
        self.hooks = []                    # callables(event)
        self.desc_cache = {}
        self.functions_seen = set()
        self.calls_resolved = 0
        self.calls_unresolved = []
        self.dirty = None                  # first effect event on this path (for ordering rules)
        self.effect_filter = None          # callable(kind, data) -> bool: counts as effect
        self.class_attr_objs = {}
        self.budget_exceeded = False
        self.memo = {}

    # -- path exploration --------------------------------------------------
    def lock(self):
        """Freeze the choices made so far on this path: the rest of the exploration only varies what
        comes after this point (used to analyse one step after a fixed, feasible history)."""
        self._lock_hit = True
        if self.lock_pos is None:
            self.lock_pos = self.pos

    def explore(self, thunk):
        prefix = []
        n = 0
        self.lock_pos = None
        while True:
            self.choices = list(prefix)
            self.pos = 0
            self._lock_hit = False
            self.events = []
            self.frames = []
            self.dirty = None
            self.desc_cache = {}
            self.class_attr_objs = {}
            self.memo = {}
            try:
                v = thunk()
                path = Path(self.events, 'return', v, list(self.choices))
            except AbsRaise as e:
                path = Path(self.events, 'raise', e, list(self.choices))
            except PathCut:
                path = Path(self.events, 'cut', None, list(self.choices))
            path.reached_lock = self._lock_hit
            yield path
            n += 1
            if n > self.MAX_PATHS:
                # callers must consult budget_exceeded: an incomplete
                # exploration can confirm a violation but never discharge
                self.budget_exceeded = True
                return
            ch = list(self.choices)
            floor = self.lock_pos or 0
            while len(ch) > floor and ch[-1][0] >= ch[-1][1] - 1:
                ch.pop()
            if len(ch) <= floor:
                return
            ch[-1] = (ch[-1][0] + 1, ch[-1][1])
            prefix = ch

    def choose(self, n, label=None):
        if n <= 1 or getattr(self, 'deterministic', False):
            return 0
        if self.pos < len(self.choices):
            c = self.choices[self.pos][0]
        else:
            self.choices.append((0, n))
            c = 0
        self.pos += 1
        return c

    # -- events -------------------------------------------------------------
    def emit(self, kind, node, data=None):
        fi = self.frames[-1].fi if self.frames else None
        ev = Event(kind, fi, node, data, tuple(f.fi for f in self.frames), self.dirty)
        self.events.append(ev)
        for h in self.hooks:
            h(ev)
        return ev

    def effect(self, kind, node, data=None):
        ev = self.emit(kind, node, data)
        if self.effect_filter is None or self.effect_filter(kind, data):
            if self.dirty is None:
                self.dirty = ev
        return ev

    def handler_catches(self, exc):
        for fr in reversed(self.frames):
            for hs in reversed(fr.handlers):
                for h in hs:
                    if exc_matches(exc, h):
                        return True
        return False

    def may_raise(self, node, excs, why, operands=()):
        """A sink: the operation at ``node`` may raise one of ``excs`` (names /
        ClassInfo).  Forks only if an enclosing handler would catch it."""
        for exc in excs:
            caught = self.handler_catches(exc)
            self.emit('mayraise', node, {'exc': exc, 'why': why, 'caught': caught, 'operands': operands})
            if caught:
                if self.choose(2, 'raise %s' % exc_name(exc)) == 1:
                    raise AbsRaise(ExcValue(exc if isinstance(exc, ClassInfo) else exc_name(exc), site=node),
                                   site=node, explicit=False, note=why)

    # -- calling --------------------------------------------------------------
    def call_function(self, fi, args, kwargs, node=None, self_cls=None):
        if fi.qualname in self.stubs:
            return self.stubs[fi.qualname](self, fi, args, kwargs, node)
        if len(self.frames) >= self.MAX_DEPTH:
            raise AnalysisError('inlining depth exceeded at %s' % fi.qualname)
        if any(f.fi is fi for f in self.frames) and sum(1 for f in self.frames if f.fi is fi) > 3:
            raise AnalysisError('recursion through %s' % fi.qualname)
        self.functions_seen.add(fi)
        fr = Frame(fi, self_cls)
        self.bind_params(fr, fi, args, kwargs, node)
        is_gen = _is_generator(fi)
        self.frames.append(fr)
        nested_gen = is_gen and len(self.frames) > 1
        if nested_gen:
            fr.collected = []
        ev_mark = len(self.events)
        self.emit('enter', node or fi.node, {'callee': fi, 'locals': dict(fr.locals)})
        try:
            try:
                self.exec_block(fi.node.body)
                result = None
            except _Return as r:
                result = r.value
            except AbsRaise as e:
                if getattr(e, 'origin_stack', None) is None:
                    e.origin_stack = tuple(f.fi for f in self.frames)
                raise
        finally:
            self.frames.pop()
        if nested_gen:
            # a generator called by the analysed code itself: its body is run to completion here and the caller
            # iterates over the collected values (sound only when the body has no effects to interleave)
            for ev in self.events[ev_mark:]:
                if ev.kind.startswith('stream-') or ev.kind in ('mutate', 'item-store', 'attr-store', 'item-del'):
                    if ev.kind == 'attr-store' and getattr(ev.data.get('obj'), 'fresh', False):
                        continue
                    raise AnalysisError('generator %s has effects that would interleave with its consumer (lazy evaluation not modelled)' % fi.short)
            from sa.values import AIter
            return AIter(fr.collected)
        if is_gen and result is None:
            result = Unk('generator:%s' % fi.short, kinds=['obj'])
        return result

    def bind_params(self, fr, fi, args, kwargs, node):
        a = fi.node.args
        pos = [x.arg for x in a.posonlyargs + a.args]
        defaults = fi.param_defaults()
        args = list(args)
        kwargs = dict(kwargs)
        star_open = kwargs.pop('**open', None)
        loc = fr.locals
        for i, name in enumerate(pos):
            if i < len(args):
                if name in kwargs:
                    self._type_error(node, 'multiple values for argument %r of %s' % (name, fi.short))
                loc[name] = args[i]
            elif name in kwargs:
                loc[name] = kwargs.pop(name)
            elif name in defaults:
                loc[name] = self.eval_default(fi, defaults[name])
                if star_open is not None and not getattr(self, 'no_open_fork', False):
                    # an open **mapping may also supply this parameter
                    if self.choose(2, 'open kw %s' % name) == 1:
                        loc[name] = self.open_value(star_open, name)
            elif star_open is not None:
                loc[name] = self.open_value(star_open, name)
            else:
                self._type_error(node, 'missing argument %r of %s' % (name, fi.short))
        if len(args) > len(pos):
            if a.vararg is None:
                self._type_error(node, 'too many positional arguments for %s' % fi.short)
            loc[a.vararg.arg] = tuple(args[len(pos):])
        elif a.vararg is not None:
            loc[a.vararg.arg] = ()
        for p in a.kwonlyargs:
            if p.arg in kwargs:
                loc[p.arg] = kwargs.pop(p.arg)
            elif p.arg in defaults:
                loc[p.arg] = self.eval_default(fi, defaults[p.arg])
            else:
                self._type_error(node, 'missing keyword argument %r' % p.arg)
        if a.kwarg is not None:
            d = ADict(kwargs, open_=star_open is not None, fresh=True, name='**' + a.kwarg.arg)
            if star_open is not None:
                d.taint = star_open.taint
                d.valkinds = star_open.valkinds
                d.splat_of = star_open
                named = (set(pos) | {p.arg for p in a.kwonlyargs}) - {pos[0] if pos and fi.cls is not None and fi.kind != 'staticmethod' else None}
                if named:
                    # an open mapping splatted into a signature that also has named parameters: a key of the mapping
                    # that equals one of those names binds that parameter
                    self.emit('open-splat-named', node, {'callee': fi, 'mapping': star_open, 'params': named})
            loc[a.kwarg.arg] = d
        else:
            if kwargs:
                self._type_error(node, 'unexpected keyword argument(s) %s for %s' % (sorted(kwargs), fi.short))
            if star_open is not None:
                self.emit('open-splat', node, {'callee': fi, 'mapping': star_open,
                                               'params': set(pos) | {p.arg for p in a.kwonlyargs}})

    def open_value(self, d, name):
        return Unk('%s[%s]' % (d.name, name), kinds=d.valkinds, taint=d.taint | {'OPTVAL'},
                   src=('item', d, name))

    def _type_error(self, node, msg):
        self.emit('raise', node, {'exc': 'TypeError', 'msg': msg, 'implicit': True})
        raise AbsRaise(ExcValue('TypeError', (msg,), site=node), site=node, explicit=False, note=msg)

    def eval_default(self, fi, expr):
        try:
            return self.P.fold(expr, fi.module, fi.cls)
        except Unfoldable:
            if isinstance(expr, ast.Dict) and not expr.keys:
                return ADict({}, fresh=False, name='default{}')
            raise AnalysisError('default of %s does not fold: %s' % (fi.qualname, norm(expr)))

    # -- statements -----------------------------------------------------------
    def exec_block(self, stmts):
        for s in stmts:
            self.exec_stmt(s)

    def exec_stmt(self, s):
        m = getattr(self, 'st_' + type(s).__name__, None)
        if m is None:
            raise AnalysisError('statement form %s not supported (%s)' % (type(s).__name__, norm(s)[:60]))
        return m(s)

    def st_Expr(self, s):
        if isinstance(s.value, ast.Constant):
            return
        self.eval(s.value)

    def st_Pass(self, s):
        pass

    def st_Assign(self, s):
        v = self.eval(s.value)
        for t in s.targets:
            self.assign(t, v, s)

    def st_AnnAssign(self, s):
        if s.value is not None:
            self.assign(s.target, self.eval(s.value), s)

    def st_AugAssign(self, s):
        load = ast.copy_location(_as_load(s.target), s.target)
        cur = self.eval(load)
        rhs = self.eval(s.value)
        if isinstance(cur, (frozenset, AList, ADict)) and isinstance(s.op, (ast.BitOr, ast.BitAnd, ast.Sub, ast.BitXor, ast.Add)):
            # in-place operator on a mutable container (sets folded from module/class constants are frozensets here)
            obj = cur
            if isinstance(cur, frozenset):
                from sa.calls import SharedSet
                obj = SharedSet(cur)
            self.effect('mutate', s, {'obj': obj, 'op': 'augassign'})
        v = self.binop(s.op, cur, rhs, s)
        self.assign(s.target, v, s, aug=True)

    def assign(self, t, v, stmt, aug=False):
        if isinstance(t, ast.Name):
            self.frames[-1].locals[t.id] = v
        elif isinstance(t, (ast.Tuple, ast.List)):
            items = self.unpack(v, len(t.elts), stmt)
            for e, x in zip(t.elts, items):
                self.assign(e, x, stmt)
        elif isinstance(t, ast.Attribute):
            obj = self.eval(t.value)
            self.set_attr(obj, t.attr, v, t)
        elif isinstance(t, ast.Subscript):
            obj = self.eval(t.value)
            idx = self.eval_slice(t.slice) if isinstance(t.slice, ast.Slice) else self.eval(t.slice)
            self.models.store_subscript(self, obj, idx, v, t)
        else:
            raise AnalysisError('assignment target %s' % type(t).__name__)

    def unpack(self, v, n, node):
        v = concrete(v)
        if isinstance(v, (tuple, list)):
            if len(v) != n:
                raise AbsRaise(ExcValue('ValueError', site=node), site=node, explicit=False)
            return list(v)
        if isinstance(v, AList) and not v.unknown:
            if len(v.items) != n:
                raise AbsRaise(ExcValue('ValueError', site=node), site=node, explicit=False)
            return list(v.items)
        if isinstance(v, AList):
            if getattr(v, 'exact_len', None) != n:
                self.may_raise(node, ['ValueError'], 'unpack of a sequence of unknown length', (v,))
            out = []
            for i in range(n):
                e = v.elem
                u = Unk('%s.unpack%d' % (getattr(e, 'name', 'x'), i), kinds=getattr(e, 'kinds', None),
                        taint=taint_of(e), src=('unpack', v, i))
                if isinstance(e, Unk) and 'ascii-only' in e.facts:
                    u.facts.add('ascii-only')
                out.append(u)
            self.emit('unpack', node, {'source': v, 'items': out})
            return out
        if isinstance(v, Unk):
            if 'fixed-len-%d' % n not in v.facts:
                self.may_raise(node, ['ValueError', 'TypeError'], 'unpack of unknown value', (v,))
            return [Unk('%s[%d]' % (v.name, i), taint=v.taint, src=('unpack', v, i)) for i in range(n)]
        raise AnalysisError('unpack of %r' % (v,))

    def st_Return(self, s):
        raise _Return(self.eval(s.value) if s.value is not None else None)

    def st_If(self, s):
        if self.truth(self.eval(s.test), s.test):
            self.exec_block(s.body)
        else:
            self.exec_block(s.orelse)

    def st_While(self, s):
        n = 0
        inj = getattr(self, 'loop_inject', None)
        if inj is not None and s is inj['node'] and not inj.get('done'):
            inj['done'] = True
            self.frames[-1].locals.update(inj['values'](self))
        while True:
            tv = self.eval(s.test)
            c = self.truth(tv, s.test)
            if not c:
                self.exec_block(s.orelse)
                return
            n += 1
            # a loop driven by a definite container (work list / stack of known content) runs as the code says;
            # loops on constants or unknowns are bounded
            definite = not isinstance(s.test, ast.Constant) and isinstance(tv, (AList, ADict)) and not getattr(tv, 'unknown', False) \
                and not getattr(tv, 'open', False)
            if n > (400 if definite else self.while_bound):
                self.emit('cut', s, {'why': 'while bound'})
                raise PathCut()
            try:
                self.exec_block(s.body)
            except _Break:
                return
            except _Continue:
                continue

    def st_For(self, s):
        it = self.eval(s.iter)
        seq = self.models.iterate(self, it, s)
        broke = False
        for i_, x in enumerate(seq):
            self.emit('for-iter', s, {'index': i_, 'of': len(seq)})
            self.assign(s.target, x, s)
            try:
                self.exec_block(s.body)
            except _Break:
                broke = True
                self.emit('for-break', s, {'index': i_})
                break
            except _Continue:
                continue
        if not broke:
            self.exec_block(s.orelse)

    def st_Break(self, s):
        raise _Break()

    def st_Continue(self, s):
        raise _Continue()

    def st_Raise(self, s):
        if s.exc is None:
            cur = getattr(self.frames[-1], 'current_exc', None)
            if cur is None:
                raise AnalysisError('bare raise outside handler')
            raise AbsRaise(cur.exc, site=s, explicit=cur.explicit)
        v = self.eval(s.exc)
        if isinstance(v, ClassInfo):
            v = ExcValue(v, site=s)
        elif isinstance(v, External):
            v = ExcValue(exc_name(v), site=s)
        if not isinstance(v, ExcValue):
            raise AnalysisError('raise of non-exception %r at %s' % (v, norm(s)))
        v.site = s
        self.emit('raise', s, {'exc': v.exc, 'value': v})
        e_ = AbsRaise(v, site=s, explicit=True)
        e_.origin_fn = self.frames[-1].fi.qualname if self.frames else None
        raise e_

    def st_Assert(self, s):
        v = self.eval(s.test)
        cv = concrete(v)
        if is_concrete(v) or isinstance(cv, (AList, ADict, AObj)):
            if self.models.truthy_concrete(cv):
                return
            self.emit('raise', s, {'exc': 'AssertionError', 'implicit': True})
            raise AbsRaise(ExcValue('AssertionError', site=s), site=s, explicit=False)
        if isinstance(v, Unk) and 'truthy' in v.facts:
            return
        self.may_raise(s, ['AssertionError'], 'assert on unknown condition: %s' % norm(s.test), (v,))
        self.refine_truth(v, True, s.test)

    def st_Delete(self, s):
        for t in s.targets:
            if isinstance(t, ast.Name):
                self.frames[-1].locals.pop(t.id, None)
            elif isinstance(t, ast.Subscript):
                obj = self.eval(t.value)
                idx = self.eval(t.slice) if not isinstance(t.slice, ast.Slice) else self.eval_slice(t.slice)
                self.models.delete_subscript(self, obj, idx, t)
            else:
                raise AnalysisError('del target')

    def st_Global(self, s):
        raise AnalysisError('global statement')

    def st_Import(self, s):
        pass

    def st_ImportFrom(self, s):
        pass

    def st_Try(self, s):
        fr = self.frames[-1]
        specs = []
        for h in s.handlers:
            if h.type is None:
                specs.append(None)
            else:
                specs.append(self.handler_spec(h.type))
        try:
            try:
                fr.handlers.append(specs)
                try:
                    self.exec_block(s.body)
                finally:
                    fr.handlers.pop()
            except AbsRaise as e:
                for h, spec in zip(s.handlers, specs):
                    if exc_matches(e.exc.exc, spec):
                        self.emit('caught', h, {'exc': e.exc.exc, 'raise': e})
                        if h.name:
                            fr.locals[h.name] = e.exc
                        prev = getattr(fr, 'current_exc', None)
                        fr.current_exc = e
                        try:
                            self.exec_block(h.body)
                        finally:
                            fr.current_exc = prev
                        break
                else:
                    raise
            else:
                self.exec_block(s.orelse)
        finally:
            if s.finalbody:
                self.exec_block(s.finalbody)

    def handler_spec(self, texpr):
        if isinstance(texpr, ast.Tuple):
            return tuple(self.handler_spec(e) for e in texpr.elts)
        r = self.P.resolve_expr_ref(self.frames[-1].fi.module, texpr)
        if isinstance(r, (ClassInfo, External)):
            return r
        raise AnalysisError('cannot resolve handler type %s' % norm(texpr))

    def st_With(self, s):
        # with contextlib.suppress(E, ...): body   ==   try: body / except (E, ...): pass
        if len(s.items) == 1 and isinstance(s.items[0].context_expr, ast.Call) and s.items[0].optional_vars is None:
            ce = s.items[0].context_expr
            ref = None
            if isinstance(ce.func, (ast.Name, ast.Attribute)):
                try:
                    ref = self.P.resolve_expr_ref(self.frames[-1].fi.module, ce.func)
                except AnalysisError:
                    ref = None
            if isinstance(ref, External) and ref.name == 'contextlib.suppress' and not ce.keywords:
                specs = [self.handler_spec(a) for a in ce.args]
                fr = self.frames[-1]
                try:
                    fr.handlers.append(specs)
                    try:
                        self.exec_block(s.body)
                    finally:
                        fr.handlers.pop()
                except AbsRaise as e:
                    if any(exc_matches(e.exc.exc, sp) for sp in specs):
                        self.emit('caught', s, {'exc': e.exc.exc, 'raise': e})
                        return
                    raise
                return
        ctxs = []
        for item in s.items:
            v = self.eval(item.context_expr)
            self.emit('with-enter', s, {'ctx': v})
            if item.optional_vars is not None:
                self.assign(item.optional_vars, v, s)
            ctxs.append(v)
        try:
            self.exec_block(s.body)
        finally:
            for v in reversed(ctxs):
                if isinstance(v, AStream):
                    v.closed = True
                self.emit('with-exit', s, {'ctx': v})

    def st_FunctionDef(self, s):
        # a nested function: a closure over the defining frame (free variables are read from that frame when called)
        if s.decorator_list:
            raise AnalysisError('decorated nested function %s' % s.name)
        for n in ast.walk(s):
            if isinstance(n, (ast.Nonlocal, ast.Global)):
                raise AnalysisError('nested function %s rebinding outer names' % s.name)
        fr = self.frames[-1]
        fi = FunctionInfo(fr.fi.module, None, s, 'function')
        fr.locals[s.name] = ('closure', fi, fr)

    # -- expressions ------------------------------------------------------------
    def eval(self, e):
        m = getattr(self, 'ex_' + type(e).__name__, None)
        if m is None:
            raise AnalysisError('expression form %s not supported (%s)' % (type(e).__name__, norm(e)[:60]))
        return m(e)

    def ex_Constant(self, e):
        return e.value

    def ex_Name(self, e):
        fr = self.frames[-1]
        if e.id in fr.locals:
            return fr.locals[e.id]
        enc = getattr(self, '_closure_env', {}).get(id(fr.fi.node))
        while enc is not None and e.id not in _local_names(fr.fi):
            if e.id in enc.locals:
                return enc.locals[e.id]
            enc = getattr(self, '_closure_env', {}).get(id(enc.fi.node))
        if e.id in _local_names(fr.fi):
            self.emit('unbound', e, {'name': e.id})
            raise AbsRaise(ExcValue('UnboundLocalError', (e.id,), site=e), site=e, explicit=False,
                           note='local %r read before assignment' % e.id)
        return self.global_name(fr.fi, e.id, e)

    def global_name(self, fi, name, node):
        r = self.P.resolve_name(fi.module, name)
        if r is None:
            return self.models.builtin_value(self, name, node)
        if isinstance(r, tuple) and r[0] == 'assign':
            return self.module_const(r[1], name, r[2])
        if isinstance(r, (ClassInfo, FunctionInfo, ModuleInfo)):
            return r
        if isinstance(r, External):
            return self.models.external_value(self, r, node)
        raise AnalysisError('name %s' % name)

    def module_const(self, module, name, expr):
        key = ('modconst', module.name, name)
        if key not in self.desc_cache:
            try:
                v = self.P.fold(expr, module)
                v = self.models.lift_shared(v, '%s.%s' % (module.name.split('.')[-1], name))
            except Unfoldable:
                v = self.models.eval_shared_expr(self, module, None, expr, name)
            self.desc_cache[key] = v
        return self.desc_cache[key]

    def ex_Attribute(self, e):
        obj = self.eval(e.value)
        return self.get_attr(obj, e.attr, e)

    def ex_Subscript(self, e):
        obj = self.eval(e.value)
        if isinstance(e.slice, ast.Slice):
            return self.models.slice_value(self, obj, self.eval_slice(e.slice), e)
        idx = self.eval(e.slice)
        return self.models.subscript(self, obj, idx, e)

    def eval_slice(self, sl):
        return ('slice', self.eval(sl.lower) if sl.lower else None,
                self.eval(sl.upper) if sl.upper else None,
                self.eval(sl.step) if sl.step else None)

    def ex_NamedExpr(self, e):
        v = self.eval(e.value)
        self.assign(e.target, v, e)
        return v

    def ex_Tuple(self, e):
        return tuple(self.eval(x) for x in e.elts)

    def ex_List(self, e):
        return AList([self.eval(x) for x in e.elts])

    def ex_Set(self, e):
        vals = [self.eval(x) for x in e.elts]
        if all(is_concrete(v) for v in vals):
            return frozenset(concrete(v) for v in vals)
        return Unk('set', kinds=['set'], taint=frozenset().union(*[taint_of(v) for v in vals]))

    def ex_Dict(self, e):
        d = ADict({}, name='dict@%d' % e.lineno)
        for k, v in zip(e.keys, e.values):
            if k is None:
                src = self.eval(v)
                self.models.dict_update(self, d, src, e)
                continue
            kv = concrete(self.eval(k))
            vv = self.eval(v)
            if is_concrete(kv):
                d.items[kv] = vv
            else:
                d.open = True
                d.taint |= taint_of(kv) | taint_of(vv)
        return d

    def ex_JoinedStr(self, e):
        parts = []
        taint = set()
        for v in e.values:
            if isinstance(v, ast.Constant):
                parts.append(v.value)
            else:
                x = self.eval(v.value)
                taint |= taint_of(x)
                parts.append(x)
        if all(isinstance(p, str) for p in parts):
            return ''.join(parts)
        # the same abstract value as the equivalent '%s' template: literal pieces with one %s per interpolated value
        fmt = ''
        args = []
        simple = True
        for v, p_ in zip(e.values, parts):
            if isinstance(v, ast.Constant):
                fmt += str(p_).replace('%', '%%')
            else:
                if v.format_spec is not None or v.conversion not in (-1, 115):      # only {x} and {x!s}
                    simple = False
                fmt += '%s'
                args.append(p_)
        if not simple:
            return Unk('fstring', kinds=['str'], taint=taint, src=('format', None, parts))
        u = Unk('fstring', kinds=['str'], taint=taint, src=('format', fmt, args))
        import re as _re
        if _re.sub(r'%s', '', fmt):
            u.facts.add('truthy')
        return u

    def ex_UnaryOp(self, e):
        v = self.eval(e.operand)
        if isinstance(e.op, ast.Not):
            return not self.truth(v, e.operand)
        cv = concrete(v)
        if isinstance(e.op, ast.USub):
            if isinstance(cv, (int, float)) and is_concrete(v):
                return -cv
            return Unk('neg', kinds=kind_of(v), taint=taint_of(v), src=('neg', v))
        raise AnalysisError('unary op')

    def ex_BoolOp(self, e):
        # value semantics of and/or
        is_and = isinstance(e.op, ast.And)
        v = None
        for i, x in enumerate(e.values):
            v = self.eval(x)
            if i == len(e.values) - 1:
                return v
            t = self.truth(v, x)
            pure = isinstance(v, Unk) and v.src and v.src[0] == 'cond'
            if is_and and not t:
                return False if pure else v
            if not is_and and t:
                return True if pure else v
        return v

    def ex_IfExp(self, e):
        if self.truth(self.eval(e.test), e.test):
            return self.eval(e.body)
        return self.eval(e.orelse)

    def ex_BinOp(self, e):
        l = self.eval(e.left)
        r = self.eval(e.right)
        return self.binop(e.op, l, r, e)

    def binop(self, op, l, r, node):
        return self.models.binop(self, op, l, r, node)

    def ex_Compare(self, e):
        left = self.eval(e.left)
        result = True
        n_ops = len(e.ops)
        for i_, (op, c) in enumerate(zip(e.ops, e.comparators)):
            right = self.eval(c)
            r = self.models.compare(self, op, left, right, e)
            if r is False:
                return False
            if i_ < n_ops - 1:
                # a < b < c is (a < b) and (b < c): the first test is decided (and its facts recorded) before the second
                if r is not True and not self.truth(r, e):
                    return False
            elif r is not True:
                result = r
            left = right
        return result

    def ex_Lambda(self, e):
        return ('lambda', e, self.frames[-1])

    def ex_Yield(self, e):
        v = self.eval(e.value) if e.value is not None else None
        fr = self.frames[-1]
        if getattr(fr, 'collected', None) is not None:
            fr.collected.append(v)
            self.emit('yield-nested', e, {'value': v})
        else:
            self.emit('yield', e, {'value': v})
        return None

    def ex_YieldFrom(self, e):
        for v in self.models.iterate(self, self.eval(e.value), e):
            fr = self.frames[-1]
            if getattr(fr, 'collected', None) is not None:
                fr.collected.append(v)
                self.emit('yield-nested', e, {'value': v})
            else:
                self.emit('yield', e, {'value': v})
        return None

    def ex_ListComp(self, e):
        return self.models.comprehension(self, e, 'list')

    def ex_GeneratorExp(self, e):
        return self.models.comprehension(self, e, 'gen')

    def ex_SetComp(self, e):
        return self.models.comprehension(self, e, 'set')

    def ex_DictComp(self, e):
        return self.models.comprehension(self, e, 'dict')

    def ex_Starred(self, e):
        raise AnalysisError('starred expression')

    def ex_Call(self, e):
        fn = self.eval(e.func)
        args = []
        for a in e.args:
            if isinstance(a, ast.Starred):
                v = concrete(self.eval(a.value))
                if isinstance(v, (tuple, list)):
                    args.extend(v)
                elif isinstance(v, AList) and not v.unknown:
                    args.extend(v.items)
                else:
                    raise AnalysisError('*args of unknown length at %s' % norm(e)[:60])
            else:
                args.append(self.eval(a))
        kwargs = {}
        for kw in e.keywords:
            v = self.eval(kw.value)
            if kw.arg is None:
                v = concrete(v)
                if isinstance(v, dict):
                    v = ADict(v)
                if isinstance(v, Unk) and (isinstance(fn, Builtin) and fn.name == 'dict' or fn is dict) and '**unknown' not in kwargs:
                    # dict(a, **m) with an unknown mapping m: a copy of a in which m may override any key
                    kwargs['**unknown'] = v
                    continue
                if not isinstance(v, ADict):
                    raise AnalysisError('**%r at %s' % (v, norm(e)[:60]))
                self.emit('splat', e, {'mapping': v, 'callee': fn})
                for k, x in v.items.items():
                    if k in kwargs:
                        self._type_error(e, 'multiple values for keyword %r' % k)
                    kwargs[k] = x
                if v.open:
                    if '**open' in kwargs:
                        raise AnalysisError('two open ** mappings')
                    kwargs['**open'] = v
            else:
                kwargs[kw.arg] = v
        return self.call_value(fn, args, kwargs, e)

    def call_value(self, fn, args, kwargs, node):
        if isinstance(fn, FunctionInfo):
            self.calls_resolved += 1
            return self.call_function(fn, args, kwargs, node)
        if isinstance(fn, BoundMethod):
            self.calls_resolved += 1
            if fn.fi.kind == 'staticmethod':
                return self.call_function(fn.fi, args, kwargs, node)
            return self.call_function(fn.fi, [fn.obj] + list(args), kwargs, node,
                                      self_cls=fn.cls)
        if isinstance(fn, ClassInfo):
            self.calls_resolved += 1
            return self.instantiate(fn, args, kwargs, node)
        if isinstance(fn, Builtin):
            self.calls_resolved += 1
            return self.models.call_builtin(self, fn, args, kwargs, node)
        if isinstance(fn, External) and exc_name(fn) in BUILTIN_EXC_BASES:
            self.calls_resolved += 1
            return ExcValue(exc_name(fn), tuple(args), dict(kwargs), site=node)
        if isinstance(fn, type):
            self.calls_resolved += 1
            return self.models.call_builtin(self, Builtin(fn.__name__), args, kwargs, node)
        if isinstance(fn, tuple) and fn and fn[0] == 'closure':
            self.calls_resolved += 1
            _, cfi, defining = fn
            self._closure_env = getattr(self, '_closure_env', {})
            self._closure_env[id(cfi.node)] = defining
            return self.call_function(cfi, args, kwargs, node)
        if type(fn).__name__ == 'ARecordType':
            from sa.values import ARecord
            self.calls_resolved += 1
            vals = list(args)
            for f_ in fn.fields[len(vals):]:
                if f_ not in kwargs:
                    self._type_error(node, 'missing field %r of %s' % (f_, fn.name))
                vals.append(kwargs[f_])
            if len(vals) != len(fn.fields) or any(k_ not in fn.fields for k_ in kwargs):
                self._type_error(node, 'arguments of %s' % fn.name)
            return ARecord(fn, vals)
        if isinstance(fn, tuple) and fn and fn[0] == 'lambda':
            lam = fn[1]
            fr = Frame(self.frames[-1].fi)
            fr.locals = dict(fn[2].locals)
            for p, a in zip(lam.args.args, args):
                fr.locals[p.arg] = a
            self.frames.append(fr)
            try:
                return self.eval(lam.body)
            finally:
                self.frames.pop()
        if isinstance(fn, Unk):
            self.calls_unresolved.append((self.frames[-1].fi, node))
            self.emit('unresolved-call', node, {'callee': fn, 'args': args})
            if fn.may_be('NoneType'):
                self.may_raise(node, ['TypeError'], 'call of possibly-None value', (fn,))
            return Unk('call:%s' % fn.name, taint=taint_of(fn).union(*[taint_of(a) for a in args]) if args else taint_of(fn))
        raise AnalysisError('call of %r at %s' % (fn, norm(node)[:70]))

    def instantiate(self, cls, args, kwargs, node):
        if 'Exception' in exc_ancestors(cls) or 'BaseException' in exc_ancestors(cls):
            ev = ExcValue(cls, tuple(args), dict(kwargs), site=node)
            init = cls.find_method('__init__')
            if init is not None and self.inline_exc_init:
                obj = AObj(cls)
                obj.excvalue = ev
                self.call_function(init, [obj] + list(args), kwargs, node, self_cls=cls)
            elif init is not None:
                # arity check only
                fr = Frame(init, cls)
                self.bind_params(fr, init, [ev] + list(args), kwargs, node)
            return ev
        obj = AObj(cls)
        self.emit('new', node, {'cls': cls, 'obj': obj})
        init = cls.find_method('__init__')
        if init is not None:
            self.call_function(init, [obj] + list(args), kwargs, node, self_cls=cls)
        elif args or kwargs:
            self._type_error(node, '%s() takes no arguments' % cls.name)
        return obj

    # -- attributes -------------------------------------------------------------
    def class_attr_value(self, owner, name, expr):
        """Value of a class-level attribute (descriptor instances are built once per path)."""
        key = (owner.qualname, name)
        if key in self.class_attr_objs:
            return self.class_attr_objs[key]
        try:
            v = self.P.fold(expr, owner.module, owner)
            v = self.models.lift_shared(v, '%s.%s' % (owner.name, name))
            hooks = getattr(self, 'open_empty_class_containers', ())
            if isinstance(v, ADict) and not v.items and owner.qualname in hooks:
                # an empty class-level mapping is an extension hook: a subclass may fill it
                v.open = True
                v.taint = frozenset(['SUBCLASS'])
        except Unfoldable:
            v = self.models.eval_shared_expr(self, owner.module, owner, expr, '%s.%s' % (owner.name, name))
        self.class_attr_objs[key] = v
        return v

    def get_attr(self, obj, name, node):
        return self.models.get_attr(self, obj, name, node)

    def set_attr(self, obj, name, v, node):
        return self.models.set_attr(self, obj, name, v, node)

    # -- truth -------------------------------------------------------------------
    def truth(self, v, node):
        rec = getattr(self, 'truth_sites', None)
        if rec is not None and node is not None and self.frames:
            k = kind_of(v)
            rec.setdefault((self.frames[-1].fi.qualname, id(node)), [node, set(), self.frames[-1].fi])[1].update(
                k if k is not None else {'?'})
            if isinstance(v, Unk) and v.only('int', 'bool') and not any(
                    str(f).startswith(('>=1', '>0', '>=2')) for f in v.facts):
                rec[(self.frames[-1].fi.qualname, id(node))][1].add('int-maybe-0')
        if isinstance(v, bool):
            return v
        cv = concrete(v)
        if is_concrete(v):
            return self.models.truthy_concrete(cv)
        if type(v).__name__ in ('ASet', 'AIter'):
            return bool(v.items) if type(v).__name__ == 'ASet' else True
        if isinstance(v, AList):
            if not v.unknown:
                return bool(v.items)
            if v.items:
                return True
            c = self.choose(2, 'nonempty list')
            if c == 0:
                return True
            v.unknown = False
            v.elem = None
            return False
        if isinstance(v, ADict):
            if v.items:
                return True
            if not v.open:
                return False
            self.emit('dict-truth', node, {'dict': v})
            c = self.choose(2, 'nonempty dict')
            if c == 1:
                v.open = False
            return c == 0
        if isinstance(v, (AObj, AStream, ExcValue, BoundMethod, Builtin, ClassInfo, FunctionInfo)):
            return True
        if type(v).__name__ == 'AMatch':
            return True
        if isinstance(v, tuple):
            return bool(v)
        if isinstance(v, Unk):
            if 'truthy' in v.facts:
                return True
            if 'falsy' in v.facts:
                return False
            if v.kinds is not None and v.kinds <= frozenset(['NoneType']):
                return False
            if v.src and v.src[0] == 'cond':
                # symbolic comparison result produced by models.compare; a result kept in a variable and tested
                # again has the truth value it was given the first time
                if v.src[1].__class__ is not None and getattr(v, 'decided', None) is not None:
                    return v.decided
                c = self.choose(2, 'cond')
                res = (c == 0)
                v.src[1](res)
                v.decided = res
                v.facts.add('truthy' if res else 'falsy')
                self.emit('guard', node, {'value': v, 'result': res})
                return res
            c = self.choose(2, 'truth')
            res = (c == 0)
            self.refine_truth(v, res, node)
            if v.src and v.src[0] == 'regex':
                self.models.refine_regex(self, v, res)
            self.emit('guard', node, {'value': v, 'result': res})
            return res
        raise AnalysisError('truth of %r' % (v,))

    def refine_truth(self, v, res, node):
        if not isinstance(v, Unk):
            return
        if res:
            v.facts.add('truthy')
            v.exclude(['NoneType'])
        else:
            v.facts.add('falsy')
            if v.kinds is not None and 'NoneType' in v.kinds and len(v.kinds) == 1:
                v.pin(None)


def _as_load(t):
    if isinstance(t, ast.Name):
        return ast.Name(id=t.id, ctx=ast.Load())
    if isinstance(t, ast.Attribute):
        return ast.Attribute(value=t.value, attr=t.attr, ctx=ast.Load())
    if isinstance(t, ast.Subscript):
        return ast.Subscript(value=t.value, slice=t.slice, ctx=ast.Load())
    raise AnalysisError('augassign target')


_LOCALS_CACHE = {}
_GEN_CACHE = {}


def _is_generator(fi):
    k = id(fi.node)
    if k not in _GEN_CACHE:
        _GEN_CACHE[k] = any(isinstance(n, (ast.Yield, ast.YieldFrom)) for n in ast.walk(fi.node))
    return _GEN_CACHE[k]


def _local_names(fi):
    key = id(fi.node)
    if key not in _LOCALS_CACHE:
        names = set(fi.params())
        a = fi.node.args
        if a.vararg:
            names.add(a.vararg.arg)
        if a.kwarg:
            names.add(a.kwarg.arg)
        for p in a.kwonlyargs:
            names.add(p.arg)
        from sa.model import walk_no_nested
        for n in walk_no_nested(fi.node):
            if isinstance(n, ast.Name) and isinstance(n.ctx, (ast.Store, ast.Del)):
                names.add(n.id)
            elif isinstance(n, ast.ExceptHandler) and n.name:
                names.add(n.name)
        # comprehension targets are scoped to the comprehension, but harmless here
        _LOCALS_CACHE[key] = names
    return _LOCALS_CACHE[key]
