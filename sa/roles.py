"""Role discovery: anchors are public API names; private helpers are found
through the call graph so that renaming / extracting a helper does not move
the goalposts."""
import ast

from sa.model import AnalysisError, ClassInfo, FunctionInfo, Regex, Unfoldable, walk_no_nested, norm


def self_calls(P, fi, self_cls=None):
    """FunctionInfos called as self.m(...) / cls funcs / module functions inside fi."""
    out = []
    for n in walk_no_nested(fi.node):
        if isinstance(n, ast.Call):
            r = P.resolve_call(fi, n, self_cls=self_cls)
            if isinstance(r, list):
                for f in r:
                    out.append((n, f))
    return out


def closure(P, entry, self_cls=None):
    seen = [entry]
    todo = [entry]
    while todo:
        f = todo.pop()
        sc = self_cls if (f.cls is not None and self_cls is not None and f.cls in self_cls.mro()) else None
        for _, g in self_calls(P, f, sc):
            if g not in seen:
                seen.append(g)
                todo.append(g)
        # property reads self.X
        if f.cls is not None:
            cls = sc or f.cls
            first = f.params()[0] if f.params() else None
            for n in walk_no_nested(f.node):
                if isinstance(n, ast.Attribute) and isinstance(n.value, ast.Name) and n.value.id == first:
                    p = cls.find_prop(n.attr)
                    if p:
                        for g in p.values():
                            if g not in seen:
                                seen.append(g)
                                todo.append(g)
    return seen


def stream_attr(P, cls):
    """Name of the instance attribute holding the stream (assigned from the
    constructor parameter named fp/stream)."""
    init = cls.find_method('__init__')
    if init is None:
        raise AnalysisError('%s has no __init__' % cls.name)
    params = init.params()
    for n in walk_no_nested(init.node):
        if isinstance(n, ast.Assign) and isinstance(n.value, ast.Name) and n.value.id in params[1:2]:
            for t in n.targets:
                if isinstance(t, ast.Attribute) and isinstance(t.value, ast.Name) and t.value.id == params[0]:
                    return t.attr
    raise AnalysisError('%s.__init__ does not store its stream parameter' % cls.name)


def stream_ops(P, fi, attr, _depth=0):
    """(call node, method name) for every method call on the stream role in fi
    (self.<attr>.m(...) or alias = self.<attr>; alias.m(...))."""
    first = fi.params()[0] if fi.params() else None
    aliases = set()
    for n in walk_no_nested(fi.node):
        if isinstance(n, ast.Assign) and _is_self_attr(n.value, first, attr):
            for t in n.targets:
                if isinstance(t, ast.Name):
                    aliases.add(t.id)
    out = []
    for n in walk_no_nested(fi.node):
        if isinstance(n, ast.Call) and isinstance(n.func, ast.Attribute):
            v = n.func.value
            if _is_self_attr(v, first, attr) or (isinstance(v, ast.Name) and v.id in aliases):
                out.append((n, n.func.attr))
    # the stream handed to a module-level helper of the package: what the helper does with that parameter counts as
    # done by this function (a method that only forwards to a shared utility keeps its role)
    for n in walk_no_nested(fi.node):
        if not (isinstance(n, ast.Call) and isinstance(n.func, (ast.Name, ast.Attribute))):
            continue
        passed = [(i, a) for i, a in enumerate(n.args) if _is_self_attr(a, first, attr) or (isinstance(a, ast.Name) and a.id in aliases)]
        passed_kw = [(kw.arg, kw.value) for kw in n.keywords if kw.arg and (_is_self_attr(kw.value, first, attr) or
                                                                            (isinstance(kw.value, ast.Name) and kw.value.id in aliases))]
        if not passed and not passed_kw:
            continue
        try:
            g = P.resolve_call(fi, n, self_cls=fi.cls)
        except Exception:
            g = None
        g = g[0] if isinstance(g, list) and len(g) == 1 else g
        if isinstance(g, FunctionInfo) and g.cls is None and _depth < 2:
            gp = g.params()
            for i, _a in passed:
                if i < len(gp):
                    out += _param_stream_ops(P, g, gp[i], _depth + 1)
            for k, _a in passed_kw:
                if k in gp:
                    out += _param_stream_ops(P, g, k, _depth + 1)
    return out, aliases


def _param_stream_ops(P, g, pname, depth):
    out = []
    aliases = {pname}
    for n in walk_no_nested(g.node):
        if isinstance(n, ast.Assign) and isinstance(n.value, ast.Name) and n.value.id in aliases:
            for t in n.targets:
                if isinstance(t, ast.Name):
                    aliases.add(t.id)
    for n in walk_no_nested(g.node):
        if isinstance(n, ast.Call) and isinstance(n.func, ast.Attribute) and isinstance(n.func.value, ast.Name) and n.func.value.id in aliases:
            out.append((n, n.func.attr))
    return out


def _is_self_attr(n, first, attr):
    return isinstance(n, ast.Attribute) and n.attr == attr and isinstance(n.value, ast.Name) and n.value.id == first


class ReaderRoles(object):
    def __init__(self, P):
        self.P = P
        self.cls = P.cls('pydiffx.reader', 'DiffXReader')
        self.entry = P.method('pydiffx.reader', 'DiffXReader', 'iter_sections')
        self.funcs = closure(P, self.entry, self.cls)
        self.stream = stream_attr(P, self.cls)
        self.regexes = {}
        for c in self.cls.repo_mro():
            for name, expr in c.attrs.items():
                try:
                    v = P.fold(expr, c.module, c)
                except Unfoldable:
                    continue
                if isinstance(v, Regex) and name not in self.regexes:
                    self.regexes[name] = v
        # header function: applies a class-level regex with >= 2 named groups
        cands = []
        for f in self.funcs:
            for n in walk_no_nested(f.node):
                if isinstance(n, ast.Call) and isinstance(n.func, ast.Attribute) and n.func.attr in ('match', 'fullmatch', 'search'):
                    rx = self._regex_of(f, n.func.value)
                    if rx is not None:
                        import re
                        try:
                            groups = re._parser.parse(rx.pattern, rx.flags).state.groupdict
                        except re.error:
                            raise AnalysisError('pattern %r does not parse' % (rx.pattern,))
                        if len(groups) >= 2:
                            cands.append((f, n, rx))
        fs = []
        for f, n, rx in cands:
            if f not in fs:
                fs.append(f)
        if len(fs) != 1:
            raise AnalysisError('expected exactly one header-parsing function reachable from iter_sections, found %s'
                                % [f.short for f in fs])
        self.header_fn = fs[0]
        self.header_apps = [(n, rx) for f, n, rx in cands]
        # stream consumers
        self.readers = []
        for f in self.funcs:
            ops, _ = stream_ops(P, f, self.stream)
            if ops:
                self.readers.append((f, ops))
        seekers = [f for f, ops in self.readers if any(m == 'seek' for _, m in ops)]
        self.readahead_fn = seekers[0] if len(seekers) == 1 else None
        if self.readahead_fn is None and not seekers:
            # a line reader without give-back (e.g. readline based): the stream
            # consumer the header function calls
            callees = {g for _, g in self_calls(P, self.header_fn, self.cls)}
            cands = [f for f, ops in self.readers if f in callees]
            if len(cands) == 1:
                self.readahead_fn = cands[0]
        others = [f for f, ops in self.readers if f is not self.readahead_fn and f not in seekers]
        self.content_fn = others[0] if len(others) == 1 else None

    def _regex_of(self, fi, expr):
        first = fi.params()[0] if fi.params() else None
        if isinstance(expr, ast.Attribute) and isinstance(expr.value, ast.Name) and expr.value.id == first:
            return self.regexes.get(expr.attr)
        if isinstance(expr, ast.Name):
            try:
                v = self.P.fold(expr, fi.module, fi.cls)
            except (Unfoldable, AnalysisError):
                return None
            return v if isinstance(v, Regex) else None
        if isinstance(expr, ast.Attribute):
            try:
                v = self.P.fold(expr, fi.module, fi.cls)
            except (Unfoldable, AnalysisError):
                return None
            return v if isinstance(v, Regex) else None
        return None


SECTION_NAMES = ('diffx', 'preamble', 'meta', 'change', 'file', 'diff')

# The hierarchy of the specification (sections.rst / section-format.rst), written
# here from the property statements: it is the oracle, not the code's table.
SPEC_IDS = ('diffx', '.preamble', '.meta', '.change', '..preamble', '..meta', '..file', '...meta', '...diff')


def spec_follow():
    """Required successor relation derived from the hierarchy grammar
         diffx:  preamble? meta? change+
         change: preamble? meta? file+
         file:   meta diff?
    """
    return {
        'diffx': {'.preamble', '.meta', '.change'},
        '.preamble': {'.meta', '.change'},
        '.meta': {'.change'},
        '.change': {'..preamble', '..meta', '..file'},
        '..preamble': {'..meta', '..file'},
        '..meta': {'..file'},
        '..file': {'...meta'},
        '...meta': {'...diff', '..file', '.change'},
        '...diff': {'..file', '.change'},
    }


def spec_doc_tree(text):
    """Parse the "state tree" bullet list of section-format.rst.
    Returns dict id -> set(successor ids), or None when it cannot be found."""
    import re
    lines = text.splitlines()
    start = None
    for i, ln in enumerate(lines):
        if 'state tree' in ln:
            start = i
            break
    if start is None:
        return None
    rel = {}
    cur = None
    for ln in lines[start + 1:]:
        if re.match(r'^(=+|-+|~+)\s*$', ln) and rel:
            break
        m = re.match(r'^(\s*)[*-]\s+``#?(\.{0,3}[a-z]+):?``', ln)
        if not m:
            continue
        sid = m.group(2)
        if len(m.group(1)) == 0:
            cur = sid
            rel.setdefault(cur, set())
        elif cur is not None:
            rel[cur].add(sid)
    return rel or None
