"""K1 - harness for abstract execution of section-sequence consumers.

Section ids / levels are concrete (they range over a finite set that the
properties quantify over); every other datum (option values, content, stream
bytes) is abstract.  Applying a *folded constant* regex to a *harness-chosen
constant* header prefix (e.g. ``b'#..file:'``) is treated as constant folding.
"""
import ast
import re

from sa.model import AnalysisError, Regex, walk_no_nested
from sa.interp import Interp, AbsRaise, PathCut
from sa.values import ADict, AList, AObj, AStream, Unk, concrete, is_concrete, taint_of
from sa import calls as C


class AMatch(object):
    """A successful match of a folded regex with harness-supplied groups."""

    def __init__(self, rx, groups, source):
        self.rx = rx
        self.groups = groups     # name/index -> value
        self.source = source


def level_of(sid):
    return len(sid) - len(sid.lstrip('.'))


def history_to(table, X):
    """Shortest legal section history (list of ids starting with 'diffx') after which X may come."""
    if X == 'diffx':
        return []
    from collections import deque
    q = deque([['diffx']])
    seen = {'diffx'}
    while q:
        h = q.popleft()
        if X in table.get(h[-1], ()):
            return h
        for n in sorted(table.get(h[-1], ())):
            if n not in seen:
                seen.add(n)
                q.append(h + [n])
    return None


def history_ending_in(table, prev):
    """Shortest legal history ending in the section id ``prev``."""
    if prev == 'diffx':
        return ['diffx']
    h = history_to(table, prev)
    return None if h is None else h + [prev]


class Script(object):
    """A scripted abstract header: concrete id, abstract options."""

    def __init__(self, sid, options='none', declares=None):
        self.sid = sid
        self.options = options      # 'none' | 'unknown' (abstract option bytes)
        self.declares = declares


_MUT_CACHE = {}


def mutated_self_attrs(P, cls, skip=('__init__',)):
    """Names of instance attributes stored or mutated outside the constructor."""
    key = (id(P), cls.qualname, skip)
    if key not in _MUT_CACHE:
        _MUT_CACHE[key] = _mutated_self_attrs(P, cls, skip)
    return _MUT_CACHE[key]


def _mutated_self_attrs(P, cls, skip):
    names = set()
    for c in cls.repo_mro():
        fns = list(c.methods.values())
        for p in c.props.values():
            fns += list(p.values())
        for f in fns:
            if f.name in skip:
                continue
            first = f.params()[0] if f.params() else None
            # locals that alias an attribute (tokens = self._tokens): mutating the alias mutates the attribute
            alias = {}
            for n in walk_no_nested(f.node):
                if isinstance(n, ast.Assign) and len(n.targets) == 1 and isinstance(n.targets[0], ast.Name) \
                        and isinstance(n.value, ast.Attribute) and isinstance(n.value.value, ast.Name) and n.value.value.id == first:
                    alias[n.targets[0].id] = n.value.attr
            for n in walk_no_nested(f.node):
                if isinstance(n, ast.Call) and isinstance(n.func, ast.Attribute) and isinstance(n.func.value, ast.Name) \
                        and n.func.value.id in alias and n.func.attr in ('append', 'update', 'clear', 'setdefault', 'extend', 'insert',
                                                                          'remove', 'add', 'discard', 'popitem'):
                    names.add(alias[n.func.value.id])
            for n in walk_no_nested(f.node):
                tgt = None
                if isinstance(n, (ast.Assign, ast.AugAssign, ast.AnnAssign)):
                    tgts = n.targets if isinstance(n, ast.Assign) else [n.target]
                    for t in tgts:
                        for x in ast.walk(t):
                            if isinstance(x, ast.Attribute) and isinstance(x.value, ast.Name) and x.value.id == first:
                                names.add(x.attr)
                elif isinstance(n, ast.Call) and isinstance(n.func, ast.Attribute):
                    v = n.func.value
                    if isinstance(v, ast.Attribute) and isinstance(v.value, ast.Name) and v.value.id == first \
                            and n.func.attr in ('append', 'pop', 'update', 'clear', 'setdefault', 'extend',
                                                'insert', 'remove', 'add', 'discard', 'popitem', 'sort'):
                        names.add(v.attr)
                elif isinstance(n, ast.Delete):
                    for t in n.targets:
                        for x in ast.walk(t):
                            if isinstance(x, ast.Attribute) and isinstance(x.value, ast.Name) and x.value.id == first:
                                names.add(x.attr)
    return names


def _leaf_consts(P, expr, module, cls):
    """Constants an expression may evaluate to when it is a tree of conditional
    expressions / ``or`` / ``and`` over foldable leaves; None when it is anything else."""
    if isinstance(expr, ast.IfExp):
        a = _leaf_consts(P, expr.body, module, cls)
        b = _leaf_consts(P, expr.orelse, module, cls)
        return None if a is None or b is None else a | b
    if isinstance(expr, ast.BoolOp):
        out = set()
        for v in expr.values:
            a = _leaf_consts(P, v, module, cls)
            if a is None:
                return None
            out |= a
        return out
    try:
        v = P.fold(expr, module, cls)
    except Exception:
        return None
    if isinstance(v, (type(None), bool, int, str, bytes)):
        return {v}
    return None


def attr_store_summary(P, cls, name):
    """Kinds / constants of every value stored to self.<name> anywhere in the class."""
    from sa.values import kind_of
    kinds = set()
    consts = set()
    exact = True
    for c in cls.repo_mro():
        fns = list(c.methods.values())
        for p in c.props.values():
            fns += list(p.values())
        for f in fns:
            first = f.params()[0] if f.params() else None

            def is_target(t):
                return isinstance(t, ast.Attribute) and isinstance(t.value, ast.Name) and t.value.id == first and t.attr == name
            handled = set()
            for n in walk_no_nested(f.node):
                if isinstance(n, ast.Assign):
                    for t in n.targets:
                        if is_target(t):
                            handled.add(id(t))
                            v_ = n.value
                            if isinstance(v_, ast.BinOp) and isinstance(v_.op, (ast.Add, ast.Sub)) and \
                                    (is_target(v_.left) or (isinstance(v_.op, ast.Add) and is_target(v_.right))):
                                kinds.add('+=')      # self.x = self.x + e: the spelled-out form of self.x += e
                                continue
                            vs = _leaf_consts(P, n.value, f.module, c)
                            if vs is None:
                                exact = False
                            else:
                                for v in vs:
                                    kinds |= kind_of(v)
                                    consts.add(v)
                elif isinstance(n, ast.AugAssign):
                    t = n.target
                    if is_target(t):
                        handled.add(id(t))
                        if isinstance(n.op, (ast.Add, ast.Sub)):
                            kinds.add('+=')
                        else:
                            exact = False
            for n in walk_no_nested(f.node):
                # any other way of storing the attribute (tuple target, for/with target, del, setattr) is not summarised
                if is_target(n) and isinstance(n.ctx, (ast.Store, ast.Del)) and id(n) not in handled:
                    exact = False
                if isinstance(n, ast.Call) and isinstance(n.func, ast.Name) and n.func.id in ('setattr', 'delattr'):
                    exact = False
                if isinstance(n, ast.Attribute) and n.attr == '__dict__':
                    exact = False
    return kinds, consts, exact


def havoc_value(v, name, summary=None):
    """Over-approximation of every value an attribute may hold after an
    arbitrary earlier use of the object."""
    if summary is not None and not isinstance(v, (ADict, AList, AObj, AStream)):
        kinds, consts, exact = summary
        if exact and kinds:
            if '+=' in kinds:
                base = kinds - {'+='}
                if base <= {'int', 'bool'}:
                    u = Unk('self.%s' % name, kinds=['int'], taint=['STATE'])
                    u.havoc = True
                    return u
            elif consts:
                u = Unk('self.%s' % name, kinds=kinds, taint=['STATE'])
                u.in_sets.append(frozenset(consts))
                u.havoc = True
                return u
    if isinstance(v, ADict):
        d = ADict(dict(v.items), open_=True, taint=frozenset(['STATE']), name=v.name)
        d.havoc = True
        if getattr(v, 'shared', None):
            d.shared = v.shared
        return d
    if isinstance(v, AList):
        l = AList([], elem=Unk('%s[]' % name, taint=['STATE']))
        l.havoc = True
        if getattr(v, 'shared', None):
            l.shared = v.shared
        return l
    if isinstance(v, (AObj, AStream)):
        return v
    u = Unk('self.%s' % name, taint=['STATE'])
    u.havoc = True
    return u


class ReaderHarness(object):
    """Runs DiffXReader.iter_sections on scripted abstract headers."""

    def __init__(self, P, roles, havoc=True, stub_readahead=True, stub_content=True, **ikw):
        self.P = P
        self.R = roles
        self.havoc = havoc
        self.stub_readahead = stub_readahead
        self.stub_content = stub_content
        self.ikw = ikw

    def header_line(self, sid):
        return b'#' + sid.encode('ascii') + b':'

    def make_interp(self, script, eof_after=True):
        R = self.R
        ikw = dict(self.ikw)
        ikw.setdefault('while_bound', max(3, len(script) + 2))
        I = Interp(self.P, **ikw)
        I.open_empty_class_containers = getattr(self, 'open_hooks', ())
        I.record_compares = getattr(self, 'record_compares', False)
        I.record_reads = getattr(self, 'record_reads', False)
        st = {'k': 0, 'script': script, 'content_calls': [], 'header_values': []}
        I.k1 = st
        header_rxs = {rx for _, rx in R.header_apps}

        def regex_oracle(I_, rx, mode, data, node):
            if rx in header_rxs and isinstance(data, Unk) and getattr(data, 'k1_record', None) is not None:
                sc = data.k1_record
                line = self.header_line(sc.sid)
                m = re.compile(rx.pattern, rx.flags)
                mm = getattr(m, mode)(line)     # constant folding on a harness constant
                if mm is None:
                    return None
                groups = {0: line}
                gd = mm.groupdict()
                optgroups = [g for g, v in gd.items() if v is None]
                for i, v in enumerate(mm.groups(), 1):
                    groups[i] = v
                for g, v in gd.items():
                    groups[g] = v
                if sc.options == 'unknown':
                    for g in optgroups:
                        u = Unk('options-bytes', kinds=['bytes'], taint=['INPUT'])
                        u.facts.add('truthy')
                        u.k1_options = sc
                        u.group_of = (rx, m.groupindex[g])
                        u.src = ('method', None, 'group', [g])
                        u._pending_match = True
                        groups[g] = u
                        groups[m.groupindex[g]] = u
                am = AMatch(rx, groups, data)
                for v in groups.values():
                    if isinstance(v, Unk) and getattr(v, '_pending_match', False):
                        v.src = ('method', am, 'group', v.src[3])
                return am
            return 'unknown'
        I.regex_oracle = regex_oracle

        def readahead_stub(I_, fi, args, kwargs, node):
            i = st['k']
            st['k'] += 1
            if i == st.get('det_prefix', 0) and st.get('det_prefix', 0) > 0:
                I_.lock()          # the history before the analysed header is fixed from here on
            if i < len(script):
                h = Unk('header%d' % i, kinds=['bytes'], taint=['INPUT'])
                h.facts.add('truthy')
                h.facts.add('strip-truthy')
                h.k1_record = script[i]
                # post-condition of the read-ahead helper on its not-EOF exit
                # (established structurally by C17-R1/R2): the result ends
                # with the delimiter it was asked for
                delim = args[1] if len(args) > 1 else kwargs.get(fi.params()[1] if len(fi.params()) > 1 else 'c')
                if is_concrete(delim):
                    h.suffix = concrete(delim)
                st['header_values'].append(h)
                I_.emit('k1-header', node, {'index': i, 'script': script[i]})
                return (h, False)
            if eof_after and i == len(script):
                if getattr(self, 'eof_tail', 'empty') == 'empty':
                    return (b'', True)          # the file ends right after the last section
                return (Unk('tail', kinds=['bytes'], taint=['INPUT']), True)
            # reading on after end of file: nothing more to learn on this path
            I_.emit('cut', node, {'why': 'read after EOF'})
            raise PathCut()
        if self.stub_readahead:
            if R.readahead_fn is None:
                raise AnalysisError('read-ahead helper not identified')
            I.stubs[R.readahead_fn.qualname] = readahead_stub

        def content_stub(I_, fi, args, kwargs, node):
            from sa.interp import Frame
            fr = Frame(fi, R.cls)
            I_.bind_params(fr, fi, args, kwargs, node)
            rec = dict(fr.locals)
            st['content_calls'].append(rec)
            I_.emit('k1-content', node, {'params': rec, 'index': st['k'] - 1})
            from sa.props.reader_rules import content_param
            keep = rec.get(content_param(fi, 'keep_bytes'))
            u = Unk('content', kinds=['bytes'] if concrete(keep) is True else ['str', 'bytes'], taint=['INPUT'])
            return u
        if self.stub_content:
            if R.content_fn is None:
                raise AnalysisError('content-reading function not identified')
            I.stubs[R.content_fn.qualname] = content_stub
        I.stubs.update(getattr(self, 'extra_stubs', {}))
        return I

    def make_reader(self, I):
        R = self.R
        stream = AStream('input')
        obj = I.instantiate(R.cls, [stream], {}, None)
        if self.havoc:
            for name in mutated_self_attrs(self.P, R.cls):
                summ = attr_store_summary(self.P, R.cls, name)
                cur = obj.attrs.get(name)
                if cur is None and name not in obj.attrs:
                    # not an instance attribute: a class-level container mutated through self - any content,
                    # but still the one object every reader shares
                    owner, expr = R.cls.find_attr(name)
                    if owner is not None:
                        try:
                            cur = I.get_attr(obj, name, None)
                        except Exception:
                            cur = None
                obj.attrs[name] = havoc_value(cur, name, summ)
        return obj

    def run(self, script, entry=None, eof_after=True, inject=None, det_prefix=0):
        """Yield (interp, path) for every path of iter_sections over the script.  With det_prefix=n the first n
        headers are a fixed history: one feasible way through them is found and frozen, and only what follows varies
        (paths that fail inside the history are not yielded)."""
        I = self.make_interp(script, eof_after)
        entry = entry or self.R.entry
        I.k1['det_prefix'] = det_prefix

        def thunk():
            I.k1['k'] = 0
            I.k1['content_calls'] = []
            I.k1['header_values'] = []
            if inject is not None:
                I.loop_inject = {'node': inject[0], 'values': inject[1], 'done': False}
            from sa.interp import Frame
            I.frames = [Frame(entry)]     # synthetic caller frame for construction
            obj = self.make_reader(I)
            I.frames = []
            return I.call_function(entry, [obj], {}, None, self_cls=self.R.cls)
        unlocked = 0
        for path in I.explore(thunk):
            if det_prefix and not path.reached_lock:
                unlocked += 1
                if unlocked > 1500:
                    # no way through the history among the first 1500 attempts: the caller decides (shorter
                    # histories freeze quickly) whether the history is rejected by the code or the analysis gives up
                    I.budget_exceeded = True
                    return
                continue
            yield I, path

    def paths(self, script, inject=None, eof_after=True, max_paths=4000, det_prefix=0):
        """(list of paths, budget_exceeded)."""
        out = []
        I = None
        for I, path in self.run(script, eof_after=eof_after, inject=inject, det_prefix=det_prefix):
            out.append(path)
            if len(out) >= max_paths:
                return out, True
        return out, bool(I is not None and I.budget_exceeded)
