"""Rules of neighbouring properties that are necessary conditions of a property, instantiated under it.

A property that speaks about what the reader yields, or about a write/parse cycle, cannot hold when a utility the whole
reader or writer rests on is broken: the read-ahead helper (C17), line splitting (C16), the newline/BOM tables (C15), the hunk
parser (C14), serialisation that edits the tree (C06-R4), the writer's order validation (C09).  The check of the property that
*owns* such a utility decides its rules; here each dependent property re-reports those rules as its own obligations (one rule id
per import, ``Cxx-I<owner>``), with the consequence for the dependent property.  The table is frozen by reading: each line names
the clause of the dependent property that fails when the imported rules fail.  Imports are not transitive (the owner's own
``run`` is executed, not this table), so the graph has no cycles."""

# the rules of C17 about header lines and the read-ahead helper (C17-R8 concerns the content path only)
C17_HEADER = ('C17-R1', 'C17-R2', 'C17-R3', 'C17-R4', 'C17-R5', 'C17-R6', 'C17-R7')

IMPORTS = {
    'C01': [('C17', None, 'the reader takes its header lines through the read-ahead helper: bytes lost, duplicated or merged at a chunk '
             'boundary change the records read back from what was written'),
            ('C15', None, 'writer and reader derive the newline / BOM of a section from these tables: for the affected encodings the content '
             'read back differs from the content written')],
    'C02': [('C09', ('C09-R1a', 'C09-R1b', 'C09-R2'), 'a call order the specification forbids is accepted - directly, or because a rejected call left '
             'the writer in a state its order validation then trusts - so the bytes written are not a conformant file'),
            ('C06', ('C06-R4',), 'serialising a tree changes it: the second serialisation of the same tree is no longer the canonical form of '
             'what the caller built'),
            ('C15', None, 'the writer derives the newline it appends, indents after and declares from these tables: for a spelling of the '
             'codec name they do not resolve, a byte-order mark stays inside the newline and the bytes written are not the canonical form')],
    'C03': [('C17', None, 'every header line is taken through the read-ahead helper: for files whose lines straddle a chunk boundary the '
             'records differ from what the specification says the file contains'),
            ('C15', None, 'the newline of a section is derived from these tables: indentation / line splitting of well-formed files in the '
             'affected encodings is wrong'),
            ('C16', None, 'indentation is removed per line of split_lines: content of well-formed files is altered')],
    'C04': [('C06', ('C06-R4',), 'serialising edits the options of the tree (an encoding declaration disappears), so the sections written '
             'next are encoded / declared with a different scope'),
            ('C02', ('C02-R10',), 'an encoding the caller supplied must be declared in the header it opens: a writer that leaves it out '
             '(because it equals some other section\'s) makes the reader inherit a different encoding than the one used'),
            ('C05', ('C05-R8',), 'the object model must hand every stored encoding option to the streaming writer: dropping one that equals '
             'the file\'s main encoding makes a section nested in a differently encoded container inherit the wrong one'),
            ('C09', ('C09-R2',), 'a container call rejected after the scope stack was already popped / pushed leaves the writer with '
             'another encoding in effect than the sections it has open')],
    'C05': [('C15', None, 'the written section and its re-parse derive newline / BOM from these tables: for the affected encodings the '
             'parsed tree differs from the written one'),
            ('C16', None, 'indentation is added and removed per line of split_lines: content differs after the cycle'),
            ('C03', ('C03-R2', 'C03-R3'), 'the parse half of the cycle: content kinds (text decoded with the section encoding, diffs kept '
             'as bytes) and indentation removed per line of the section newline - otherwise the parsed content differs from what was written'),
            ('C06', ('C06-R4', 'C06-R3c'), 'serialising changes the tree that the parsed result is compared with / metadata is not written '
             'as ASCII-escaped JSON, so in encodings that cannot carry a character faithfully the parsed metadata differs')],
    'C06': [('C03', ('C03-R2', 'C03-R3'), 'the parse half of the cycle: content kinds (text decoded with the section encoding, diffs kept '
             'as bytes) and indentation removed per line of the section newline - otherwise re-serialising does not give the bytes back'),
            ('C15', None, 'parse and re-serialisation derive newline / BOM from these tables: the bytes differ after the cycle for the '
             'affected encodings'),
            ('C16', None, 'indentation is removed and re-added per line of split_lines: the bytes differ after the cycle')],
    'C07': [('C10', ('C10-R7',), 'the object-model entry points must hand the caller\'s bytes to the parser unchanged: input that is '
             'repaired first (a newline appended to a cut file) makes a truncated file yield a section the intact file does not have')],
    'C08': [('C17', ('C17-R3', 'C17-R7'), 'end of input and over-long lines must be told apart by the read-ahead helper: otherwise input is '
             'silently dropped instead of being reported as a parse error')],
    'C10': [('C08', ('C08-R1b',), 'an order the hierarchy forbids must be rejected *with a parse error*: a rejection by the streaming reader '
             'that surfaces from the object-model load as another exception is not that'),
            ('C17', C17_HEADER, 'section ids are read from header lines delivered by the read-ahead helper: a line lost or merged at a chunk '
             'boundary makes a legal order rejected or an illegal one accepted')],
    'C11': [('C06', ('C06-R3',), 'accepted options are reported verbatim - also by the object-model load, which must store what the header '
             'parser accepted (minus length) and nothing else'),
            ('C17', C17_HEADER, 'the header grammar is applied to the line the read-ahead helper returns: a terminator missed at a chunk boundary '
             'changes which lines are accepted')],
    'C12': [('C06', ('C06-R3',), 'the object-model load must carry every option of the header (minus length) into the section: a filter or '
             'a merge there drops or overrides unknown options'),
            ('C03', ('C03-R2',), 'an option a section kind does not know (indent on a meta or diff section) must change nothing: it is '
             'interpreted only where the per-kind table says so'),
            ('C08', ('C08-R1b',), 'loading a file through the object model must not fail (or overwrite an attribute) because of the *name* of '
             'an option the library does not know'),
            ('C17', C17_HEADER, 'unknown options make header lines long: a line that straddles a read chunk must come back whole, or the options '
             'delivered differ')],
    'C13': [('C14', None, 'the statistics are the totals of the hunk parser: wrong geometry / totals / tolerated garbage give wrong counts'),
            ('C16', None, 'the hunk parser is fed the lines of split_lines: lost or fabricated lines change the counts')],
    'C15': [('C01', ('C01-R4w',), 'text is encoded once, as a whole: encoding it line by line makes a BOM-emitting codec put a byte-order mark '
             'on every line, so the bytes are not "the text in that codec" whatever the spelling'),
            ('C02', ('C02-R13',), 'the same, on the writer\'s header/content path (strict whole encode)'),
            ('C13', ('C13-R8',), 'statistics must see the lines of the diff bytes split on the codec\'s newline, not str.splitlines() of a decoded '
             'copy, which also breaks at other terminators'),
            ('C03', ('C03-R3',), 'indentation must be removed per line of the split on the codec\'s own newline: a pattern applied to the '
             'whole content takes the raw byte 0x0A for a line start, which is not the newline of UTF-16/32 or EBCDIC codecs')],
    'C19': [('C06', ('C06-R4',), 'serialising a tree edits its options: typed attributes read afterwards, and equality with an equal tree '
             'that was not serialised, change')],
}


FIRST_LINE = {
    'C05': 'a section written without a line_endings option is declared, terminated and indented by the detected value: the parsed '
           'tree differs from the written one',
    'C06': 'a parsed section without a line_endings option is re-serialised with the detected value: the bytes differ after the cycle',
}


def apply(P, rep, tier):
    from sa.props.common import imported_rules, first_line_detection
    if rep.pid in FIRST_LINE:
        rid = rep.rule('%s-IFL' % rep.pid, 'undeclared line endings are detected from the first line only (shared rule; necessary here: %s)'
                       % FIRST_LINE[rep.pid][:140])
        first_line_detection(P, rep, rid)
    for owner, only, consequence in IMPORTS.get(rep.pid, ()):
        rid = rep.rule('%s-I%s' % (rep.pid, owner[1:]), 'rules of %s%s hold (necessary here: %s)'
                       % (owner, ' (%s)' % ', '.join(only) if only else '', consequence[:140]))
        imported_rules(P, rep, rid, tier, owner, consequence, only=set(only) if only else None)
