"""Reporting: obligations, violations, known findings, evidence files."""
import json
import os
import sys
import time

from sa.model import AnalysisError

VERIF = os.path.dirname(os.path.dirname(os.path.abspath(__file__)))
EVIDENCE_DIR = os.environ.get('VERIF_EVIDENCE_DIR') or os.path.join(VERIF, 'evidence')
REPLAY_DIR = os.path.join(EVIDENCE_DIR, 'replay')
KNOWN = os.path.join(VERIF, 'known_findings.jsonl')

LEVELS = {'C10': 'proof', 'C11': 'proof'}


def load_known():
    out = []
    if os.path.exists(KNOWN):
        with open(KNOWN) as fh:
            for line in fh:
                line = line.strip()
                if line and not line.startswith('#'):
                    out.append(json.loads(line))
    return out


class Report(object):
    def __init__(self, pid, tier='quick', program=None):
        self.pid = pid
        self.tier = tier
        self.program = program
        self.t0 = time.time()
        self.rules = {}        # rule id -> dict(desc, instances, discharged, reference)
        self.order = []
        self.violations = []   # dicts
        self.infos = []
        self.samples = []
        self.functions = set()
        self.call_sites = 0
        self.unresolved_calls = 0
        self.assumptions = []
        self.trusted_base = []
        self.extra = {}
        self.explanation = ''
        self.undecided = ''

    # -- rules / obligations ------------------------------------------------
    def rule(self, rid, desc, reference=None):
        if rid not in self.rules:
            self.rules[rid] = {'desc': desc, 'instances': 0, 'discharged': 0}
            if reference is not None:
                self.rules[rid]['reference_count_pinned_tree'] = reference
            self.order.append(rid)
        return rid

    def ok(self, rid, instance, detail=None):
        r = self.rules[rid]
        r['instances'] += 1
        r['discharged'] += 1
        if len(self.samples) < 400:
            s = {'rule': rid, 'instance': instance, 'verdict': 'discharged'}
            if detail is not None:
                s['detail'] = detail
            self.samples.append(s)

    def violation(self, rid, key, loc, msg, path=None, witness=None, construct=None):
        """Record a failed obligation.  ``key`` identifies rule+construct (never a line)."""
        r = self.rules[rid]
        r['instances'] += 1
        full = '%s|%s' % (rid, key)
        for v in self.violations:
            if v['key'] == full:
                return
        self.violations.append({'rule': rid, 'key': full, 'loc': loc, 'msg': msg,
                                'path': path, 'witness': witness, 'construct': construct})

    def floor(self, rid, minimum, what='instances'):
        n = self.rules[rid]['instances']
        if n < minimum:
            raise AnalysisError('rule %s matched %d %s, below its structural minimum %d '
                                '(anchor vanished or idiom not recognised)' % (rid, n, what, minimum))

    def info(self, msg):
        self.infos.append(msg)

    def analysed(self, *fis):
        for fi in fis:
            self.functions.add(fi.qualname if hasattr(fi, 'qualname') else str(fi))

    # -- finish ---------------------------------------------------------------
    def finish(self):
        known = [k for k in load_known() if k.get('property') == self.pid and k.get('kind') == 'finding']
        known_keys = {k['key']: k for k in known}
        new = []
        listed = []
        for v in self.violations:
            if v['key'] in known_keys:
                listed.append((v, known_keys[v['key']]))
            else:
                new.append(v)
        os.makedirs(REPLAY_DIR, exist_ok=True)
        # remove stale replay files of this property
        for f in os.listdir(REPLAY_DIR):
            if f.startswith(self.pid + '-'):
                try:
                    os.unlink(os.path.join(REPLAY_DIR, f))
                except OSError:
                    pass
        out = []
        for v, k in listed:
            out.append('KNOWN-FINDING: property=%s %s [%s] at %s' % (self.pid, k.get('what', v['msg']), v['key'], v['loc']))
        for i, v in enumerate(new, 1):
            rp = os.path.join(REPLAY_DIR, '%s-%d.json' % (self.pid, i))
            with open(rp, 'w') as fh:
                json.dump({'property': self.pid, 'rule': v['rule'], 'key': v['key'], 'location': v['loc'],
                           'message': v['msg'], 'path': v['path'], 'witness': v['witness'],
                           'construct': v['construct'], 'tier': self.tier,
                           'source_digest': self.program.digest if self.program else None},
                          fh, indent=1, default=str)
            extra = ''
            if v['path']:
                extra += ' (path %s)' % ' -> '.join(v['path'])
            if v['witness'] is not None:
                extra += ' witness=%s' % (v['witness'],)
            out.append('%s: [%s] %s%s' % (v['loc'], v['rule'], v['msg'], extra))
            out.append('VIOLATION property=%s replay=%s' % (self.pid, rp))
        stale = [k for k in known if k['key'] not in {v['key'] for v in self.violations}]
        for k in stale:
            self.infos.append('known finding no longer reproduced: %s' % k['key'])
        self._write_evidence(len(new), listed)
        for line in out:
            print(line)
        obligations = sum(r['instances'] for r in self.rules.values())
        discharged = sum(r['discharged'] for r in self.rules.values())
        print('%s %s: %d rules, %d obligations, %d discharged, %d known finding(s), %d violation(s), %d function(s) analysed, %.2fs'
              % (self.pid, self.tier, len(self.rules), obligations, discharged, len(listed), len(new),
                 len(self.functions), time.time() - self.t0))
        return 1 if new else 0

    def _write_evidence(self, nviol, listed):
        level = LEVELS.get(self.pid, 'other')
        obligations = sum(r['instances'] for r in self.rules.values())
        discharged = sum(r['discharged'] for r in self.rules.values())
        if level == 'proof' and discharged != obligations:
            # a proof-level claim needs every obligation discharged; with open
            # findings the run is reported at the weaker level
            level = 'other'
        cov = {
            'explanation': self.explanation,
            'undecided_clauses': self.undecided,
            'obligations': obligations,
            'discharged': discharged,
            'rules': {rid: self.rules[rid] for rid in self.order},
            'samples': self.samples[:60],
            'functions_analysed': sorted(self.functions),
            'functions_analysed_count': len(self.functions),
            'call_sites_resolved': self.call_sites,
            'call_sites_unresolved': self.unresolved_calls,
            'checker_cmd': './check %s --tier %s' % (self.pid, self.tier),
            'trusted_base': self.trusted_base,
            'source_digest_sha256': self.program.digest if self.program else None,
            'known_findings_reproduced': [k['key'] for _, k in listed],
            'informational': self.infos,
            'violations_detail': [{'rule': v['rule'], 'key': v['key'], 'loc': v['loc'], 'msg': v['msg']}
                                  for v in self.violations],
        }
        cov.update(self.extra)
        ev = {
            'property_id': self.pid,
            'tier': self.tier,
            'seed': int(os.environ.get('VERIF_SEED', '0') or 0),
            'level': level,
            'coverage': cov,
            'assumptions': self.assumptions,
            'wall_s': round(time.time() - self.t0, 3),
            'violations': nviol,
        }
        os.makedirs(EVIDENCE_DIR, exist_ok=True)
        tmp = os.path.join(EVIDENCE_DIR, '%s.json.tmp' % self.pid)
        with open(tmp, 'w') as fh:
            json.dump(ev, fh, indent=1, sort_keys=False, default=str)
            fh.write('\n')
        os.replace(tmp, os.path.join(EVIDENCE_DIR, '%s.json' % self.pid))
