"""C20 - the syntax highlighter is lossless and tags every section header."""
import ast
import os
import re

from sa.model import AnalysisError, ClassInfo, External, FunctionInfo, Unfoldable, norm
from sa.roles import SPEC_IDS
from sa import rx as RX
from sa.rx import _opname

P_ = re._parser


def describe_action(P, module, cls, node):
    """('token', dotted) | ('bygroups', [actions]) | ('using', target, state) | ('none',)"""
    if isinstance(node, ast.Constant) and node.value is None:
        return ('none',)
    if isinstance(node, ast.Name) and isinstance(P.resolve_name(module, node.id), FunctionInfo):
        return ('callback', node.id, P.resolve_name(module, node.id))
    if isinstance(node, ast.Name):
        # a class-level (or module-level) constant standing for an action
        owner_, expr_ = cls.find_attr(node.id) if cls is not None else (None, None)
        if owner_ is not None and expr_ is not None and not isinstance(expr_, ast.Name):
            return describe_action(P, owner_.module, owner_, expr_)
        mexpr = getattr(module, 'assigns', {}).get(node.id) if hasattr(module, 'assigns') else None
        if mexpr is not None and isinstance(mexpr, (ast.Call, ast.Tuple)):
            return describe_action(P, module, cls, mexpr)
    if isinstance(node, (ast.Name, ast.Attribute)):
        parts = []
        x = node
        while isinstance(x, ast.Attribute):
            parts.append(x.attr)
            x = x.value
        if isinstance(x, ast.Name):
            parts.append(x.id)
        return ('token', '.'.join(reversed(parts)))
    if isinstance(node, ast.Call) and isinstance(node.func, ast.Name):
        fn = node.func.id
        ref = P.resolve_name(module, fn)
        full = ref.name if isinstance(ref, External) else fn
        if full.endswith('bygroups'):
            acts = []
            for a in node.args:
                if isinstance(a, ast.Starred):
                    tup = a.value
                    if isinstance(tup, ast.Name):
                        owner_, expr_ = cls.find_attr(tup.id) if cls is not None else (None, None)
                        tup = expr_ if owner_ is not None else None
                    if not isinstance(tup, (ast.Tuple, ast.List)):
                        raise AnalysisError('lexer action not understood: %s' % norm(node))
                    acts += [describe_action(P, module, cls, x) for x in tup.elts]
                else:
                    acts.append(describe_action(P, module, cls, a))
            return ('bygroups', acts)
        if full.endswith('using'):
            tgt = describe_action(P, module, cls, node.args[0])
            st = None
            for kw in node.keywords:
                if kw.arg == 'state':
                    st = P.fold(kw.value, module, cls)
            return ('using', tgt[1] if tgt[0] == 'token' else '?', st)
    raise AnalysisError('lexer action not understood: %s' % norm(node))


class _Subst(ast.NodeTransformer):
    def __init__(self, env):
        self.env = env

    def visit_Name(self, node):
        if isinstance(node.ctx, ast.Load) and node.id in self.env:
            return self.env[node.id]
        return node

    def visit_Starred(self, node):
        v = self.visit(node.value)
        return ast.Starred(value=v, ctx=node.ctx)


def expand_rule_helper(P, module, cls, call):
    """A rule written as a call of a module-level helper of the package (``_header_rule(r'...', using(JsonLexer))``) is
    expanded by substitution: the helper's straight-line body (assignments, ``+=``, ``if <varargs>:``, one ``return`` of
    a tuple) is evaluated on the argument *expressions*, giving the tuple expression the helper returns, which is then
    read like a rule written in place.  Anything else in the helper is an analysis error."""
    fi = P.resolve_name(module, call.func.id) if isinstance(call.func, ast.Name) else None
    if not isinstance(fi, FunctionInfo):
        return None
    a = fi.node.args
    if a.kwonlyargs or a.kwarg or call.keywords and any(k.arg is None for k in call.keywords):
        raise AnalysisError('lexer rule helper %s: signature not understood' % fi.name)
    names = [x.arg for x in a.args]
    env = {}
    pos = list(call.args)
    if any(isinstance(x, ast.Starred) for x in pos):
        raise AnalysisError('lexer rule helper %s called with *args' % fi.name)
    for n_, v_ in zip(names, pos):
        env[n_] = v_
    rest = pos[len(names):]
    for kw in call.keywords:
        env[kw.arg] = kw.value
    defaults = a.defaults
    for n_, d_ in zip(names[len(names) - len(defaults):], defaults):
        env.setdefault(n_, d_)
    if a.vararg:
        env[a.vararg.arg] = ast.Tuple(elts=rest, ctx=ast.Load())
    elif rest:
        raise AnalysisError('lexer rule helper %s: too many arguments' % fi.name)
    if any(n_ not in env for n_ in names):
        raise AnalysisError('lexer rule helper %s: missing argument' % fi.name)

    import copy

    def ev(e):
        return _Subst(env).visit(copy.deepcopy(e))

    def run(stmts):
        for st in stmts:
            if isinstance(st, ast.Expr) and isinstance(st.value, ast.Constant):
                continue
            if isinstance(st, ast.Assign) and len(st.targets) == 1 and isinstance(st.targets[0], ast.Name):
                env[st.targets[0].id] = ev(st.value)
            elif isinstance(st, ast.AugAssign) and isinstance(st.target, ast.Name) and isinstance(st.op, ast.Add) and st.target.id in env:
                env[st.target.id] = ast.BinOp(left=env[st.target.id], op=ast.Add(), right=ev(st.value))
            elif isinstance(st, ast.If):
                t = ev(st.test)
                neg = False
                if isinstance(t, ast.UnaryOp) and isinstance(t.op, ast.Not):
                    neg, t = True, t.operand
                if isinstance(t, (ast.Tuple, ast.List)):
                    truth = bool(t.elts)
                elif isinstance(t, ast.Constant):
                    truth = bool(t.value)
                else:
                    raise AnalysisError('lexer rule helper %s: condition %s not decidable from the call' % (fi.name, norm(st.test)))
                r = run(st.body if truth != neg else st.orelse)
                if r is not None:
                    return r
            elif isinstance(st, ast.Return) and st.value is not None:
                return ev(st.value)
            else:
                raise AnalysisError('lexer rule helper %s: statement %s not understood' % (fi.name, norm(st)[:50]))
        return None
    out = run(fi.node.body)
    if out is None:
        raise AnalysisError('lexer rule helper %s returns nothing' % fi.name)
    ast.fix_missing_locations(out)
    for x in ast.walk(out):
        if not hasattr(x, 'lineno'):
            x.lineno = call.lineno
    out.lineno = call.lineno
    return out, fi


def extract_tokens(P, cls):
    owner, expr = cls.find_attr('tokens')
    if owner is None or not isinstance(expr, ast.Dict):
        raise AnalysisError('DiffXLexer.tokens is not a dict literal')
    table = {}
    for k, v in zip(expr.keys, expr.values):
        state = P.fold(k, owner.module, owner)
        if not isinstance(v, ast.List):
            raise AnalysisError('tokens[%r] is not a list literal' % state)
        rules = []
        for e in v.elts:
            if isinstance(e, ast.Call) and isinstance(e.func, ast.Name):
                ref = P.resolve_name(owner.module, e.func.id)
                nm = ref.name if isinstance(ref, External) else e.func.id
                if nm.endswith('include'):
                    rules.append({'kind': 'include', 'target': P.fold(e.args[0], owner.module, owner), 'node': e})
                    continue
            if isinstance(e, ast.Call) and isinstance(e.func, ast.Name):
                exp = expand_rule_helper(P, owner.module, owner, e)
                if exp is not None:
                    e = exp[0]
            if isinstance(e, ast.Tuple) and len(e.elts) in (2, 3):
                try:
                    pat = P.fold(e.elts[0], owner.module, owner)
                except Unfoldable as ex:
                    raise AnalysisError('lexer pattern does not fold: %s' % ex)
                if not isinstance(pat, str):
                    raise AnalysisError('lexer pattern is not a str constant: %s' % norm(e.elts[0]))
                rules.append({'kind': 'rule', 'pattern': pat, 'action': describe_action(P, owner.module, owner, e.elts[1]),
                              'newstate': P.fold(e.elts[2], owner.module, owner) if len(e.elts) == 3 else None, 'node': e})
                continue
            raise AnalysisError('lexer rule not understood: %s' % norm(e))
        table[state] = rules
    return owner, table


def top_items(tree):
    return list(tree)


def is_zero_width(op, av):
    opn = _opname(op)
    if opn in ('AT', 'ASSERT', 'ASSERT_NOT'):
        return True
    if opn == 'SUBPATTERN' and av[0] is None:
        return all(is_zero_width(o, a) for o, a in av[3])
    return False


def has_capture(items):
    for op, av in items:
        opn = _opname(op)
        if opn == 'SUBPATTERN':
            if av[0] is not None:
                return True
            if has_capture(av[3]):
                return True
        elif opn == 'BRANCH':
            if any(has_capture(alt) for alt in av[1]):
                return True
        elif opn in ('MAX_REPEAT', 'MIN_REPEAT'):
            if has_capture(av[2]):
                return True
        elif opn in ('ASSERT', 'ASSERT_NOT'):
            if has_capture(av[1]):
                return True
    return False


def coverage_problems(items, inside_wrapper=False):
    """Consuming items of the pattern that lie outside every capturing group."""
    out = []
    for op, av in items:
        opn = _opname(op)
        if is_zero_width(op, av):
            continue
        if opn == 'SUBPATTERN':
            if av[0] is not None:
                if has_capture(av[3]):
                    out.append(('nested-capture', av[0]))
                continue
            out.extend(coverage_problems(av[3], True))
        elif opn in ('MAX_REPEAT', 'MIN_REPEAT'):
            lo, hi, sub = av
            inner = coverage_problems(sub, True)
            if inner:
                out.extend(inner)
            elif hi != 1 and has_capture(sub):
                out.append(('repeated-capture', None))
        elif opn == 'BRANCH':
            for alt in av[1]:
                out.extend(coverage_problems(alt, True))
        else:
            out.append(('uncovered', opn))
    return out


def width(items):
    return items.getwidth()


def run(P, rep, tier):
    rep.explanation = (
        'The lexer is a pygments RegexLexer: losslessness and termination follow from properties of the rule table '
        'that are visible in its source. The tokens table is extracted symbolically (patterns folded from the class '
        'constants, actions described structurally) and each rule is checked on its regex AST: R1 every consuming item '
        'lies inside exactly one capturing group when the action is bygroups (so the concatenation of groups equals the '
        'match); R2 group count = bygroups arity and no None action over a group that can be non-empty; R3 every rule '
        'consumes at least one character (progress => termination); R4 include targets / states resolve; R5 each of the 9 '
        'header forms the writer emits is matched by the header part of a root rule, and each non-main header by the '
        'end-of-section lookahead; R6 the content group of each content rule accepts every non-empty text without "#."; '
        'R7 header token type is the same for all header rules and used for nothing else; R8 the setup.py entry point '
        'resolves. With the RegexLexer driver loop (trusted) these give: tokens concatenate to the input, lexing terminates.')
    rep.undecided = 'absence of Error tokens produced by the third-party JsonLexer / DiffLexer sub-lexers'
    rep.trusted_base += ['pygments 2.21 RegexLexer.get_tokens_unprocessed driver loop, bygroups/using/include',
                         'JsonLexer and DiffLexer are themselves lossless', 're._parser regex AST']
    mod = P.module('pydiffx.integrations.pygments_lexer')
    cls = P.cls('pydiffx.integrations.pygments_lexer', 'DiffXLexer')
    if not any('RegexLexer' in b for b in cls.external_bases()):
        raise AnalysisError('DiffXLexer is not a RegexLexer (driver loop assumption does not hold)')
    owner, table = extract_tokens(P, cls)
    try:
        flags = int(P.fold_class_attr(cls, 'flags'))
    except Unfoldable:
        flags = re.MULTILINE
    rep.extra['flags'] = flags
    rep.extra['lexer_states'] = {k: len(v) for k, v in table.items()}
    loc0 = '%s:%d' % (mod.relpath, cls.node.lineno)

    def loc(rule):
        return '%s:%d' % (mod.relpath, rule['node'].lineno)

    r1 = rep.rule('C20-R1', 'bygroups rules: every consuming regex item lies in exactly one capturing group', reference=5)
    r2 = rep.rule('C20-R2', 'group count equals bygroups arity; no None action on a possibly non-empty group', reference=5)
    r3 = rep.rule('C20-R3', 'every rule consumes at least one character (or changes state)', reference=8)
    r4 = rep.rule('C20-R4', 'include targets and state names resolve', reference=4)
    all_rules = []
    for state, rules in table.items():
        for i, rule in enumerate(rules):
            key = '%s[%d]' % (state, i)
            if rule['kind'] == 'include':
                if rule['target'] in table:
                    rep.ok(r4, '%s include(%r)' % (key, rule['target']))
                else:
                    rep.violation(r4, 'include:%s' % rule['target'], loc(rule), 'include(%r) names no state' % rule['target'])
                continue
            all_rules.append((state, i, rule))
            acts_ = rule['action'][1] if rule['action'][0] == 'bygroups' else [rule['action']]
            for a_ in acts_:
                if a_[0] == 'using' and a_[1] != 'this' and a_[1].split('.')[-1] not in ('JsonLexer', 'DiffLexer'):
                    raise AnalysisError('rule %s hands text to the foreign lexer %s: only JsonLexer and DiffLexer are in the trusted base '
                                        '(lossless, and error-free on the content the writer produces for meta / diff sections); whether %s '
                                        'is lossless and error-free on arbitrary section content is not known' % (key, a_[1], a_[1]))
            try:
                tree = P_.parse(rule['pattern'], flags)
            except re.error as e:
                rep.violation(r3, 'regex-error:%s' % key, loc(rule), 'pattern does not compile: %s' % e)
                continue
            rule['tree'] = tree
            lo, hi = tree.getwidth()
            if lo >= 1 or rule['newstate'] is not None:
                rep.ok(r3, '%s min width %d' % (key, lo))
            else:
                rep.violation(r3, 'no-progress:%s:%s' % (state, rule['pattern'][:30]), loc(rule),
                              'rule %r in state %r can match the empty string without changing state: the lexer can loop forever'
                              % (rule['pattern'][:40], state))
            if rule['newstate'] is not None:
                ns = rule['newstate']
                names = ns if isinstance(ns, tuple) else (ns,)
                for n in names:
                    if n in table or n in ('#pop', '#push') or (isinstance(n, str) and n.startswith('#pop:')):
                        rep.ok(r4, '%s -> state %r' % (key, n))
                    else:
                        rep.violation(r4, 'state:%s' % n, loc(rule), 'rule switches to unknown state %r' % (n,))
            act = rule['action']
            ngroups = tree.state.groups - 1
            if act[0] == 'bygroups':
                probs = coverage_problems(list(tree))
                if probs:
                    rep.violation(r1, 'coverage:%s:%s' % (state, _rule_name(rule)), loc(rule),
                                  'rule %r: %s - text matched there is dropped by bygroups(), so the token stream is not lossless'
                                  % (rule['pattern'][:60], ', '.join('%s(%s)' % p_ for p_ in probs)))
                else:
                    rep.ok(r1, key, '%d groups cover the match' % ngroups)
                if len(act[1]) != ngroups:
                    rep.violation(r2, 'arity:%s:%s' % (state, _rule_name(rule)), loc(rule),
                                  'rule has %d capturing groups but bygroups() has %d actions' % (ngroups, len(act[1])))
                else:
                    bad = False
                    for gi, a in enumerate(act[1], 1):
                        if a[0] == 'callback':
                            fi = a[2]
                            partial = [norm(n)[:60] for n in ast.walk(fi.node) if isinstance(n, ast.Call) and isinstance(n.func, ast.Attribute)
                                       and n.func.attr in ('finditer', 'findall', 'search', 'split')]
                            whole = any(isinstance(n, (ast.Yield,)) and n.value is not None and 'match.group(' in norm(n.value)
                                        and 'm.group' not in norm(n.value) for n in ast.walk(fi.node))
                            if partial and not whole:
                                bad = True
                                rep.violation(r1, 'callback-partial:%s:%s' % (_rule_name(rule), a[1]), loc(rule),
                                              'group %d of rule %r is handed to the callback %s(), which emits only the pieces matched by %s: '
                                              'text of the group that its inner pattern does not match (e.g. the "/" of mimetype=text/plain) '
                                              'disappears from the token stream' % (gi, rule['pattern'][:40], a[1], partial[0]))
                            elif not whole:
                                raise AnalysisError('callback action %s not understood' % a[1])
                        if a[0] == 'none':
                            glo, ghi = _group_width(tree, gi)
                            if ghi > 0:
                                bad = True
                                rep.violation(r2, 'none-action:%s:%d' % (_rule_name(rule), gi), loc(rule),
                                              'group %d can be non-empty but has action None: its text is dropped' % gi)
                        if a[0] == 'using' and a[2] is not None and a[2] not in table and a[1] == 'this':
                            bad = True
                            rep.violation(r4, 'using-state:%s' % a[2], loc(rule), 'using(this, state=%r): no such state' % a[2])
                        elif a[0] == 'using' and a[2] is not None and a[1] == 'this':
                            rep.ok(r4, '%s using(this, state=%r)' % (key, a[2]))
                    if not bad:
                        rep.ok(r2, key, '%d groups, %d actions' % (ngroups, len(act[1])))
            else:
                if ngroups and act[0] == 'token':
                    rep.ok(r1, key, 'single-token rule: whole match emitted')
    rep.floor(r3, 5)
    rep.floor(r1, 3)

    # ---- R5/R6/R7: headers -----------------------------------------------------
    r5 = rep.rule('C20-R5', 'each header form the writer emits is matched by the header part of a root rule; every '
                  'non-main header terminates the preceding content (end-of-section lookahead)', reference=17)
    r6 = rep.rule('C20-R6', 'content group of each content rule accepts every non-empty text without "#."', reference=3)
    r7 = rep.rule('C20-R7', 'all header rules emit the same token type for the header, used by no other rule', reference=4)
    root = [r for s_, i, r in all_rules if s_ == 'root']
    for inc in table.get('root', []):
        if inc['kind'] == 'include':
            root += [r for r in table.get(inc['target'], []) if r['kind'] == 'rule']
    N = 257
    header_rules = []
    for rule in root:
        if 'tree' not in rule:
            continue
        items = list(rule['tree'])
        if not items or _opname(items[0][0]) != 'SUBPATTERN' or items[0][1][0] is None:
            continue
        g1 = RX.sub_dfa(items[0][1][3], False, flags, N)
        w = RX.shortest(g1)
        if w is None or not w or w[0] != ord('#'):
            continue
        header_rules.append((rule, items, g1))
    if not header_rules:
        raise AnalysisError('no header rules found in the root state')
    # header part = items up to (not including) the content group / lookahead: all items whose text is header
    forms = []
    for sid in SPEC_IDS:
        forms.append((sid, '#%s:\n' % sid))
        forms.append((sid, '#%s: a=b, length=12\n' % sid))
    for sid, text in forms:
        matched = []
        for rule, items, g1 in header_rules:
            hdr_items, rest = _split_header(items)
            d = RX.sub_dfa(hdr_items, False, flags, N)
            if d.accepts([ord(c) for c in text]):
                matched.append(rule)
        if matched:
            rep.ok(r5, 'header %r' % text, 'matched by %r' % matched[0]['pattern'][:40])
        else:
            rep.violation(r5, 'header-unmatched:%s:%s' % (sid, 'opts' if ' ' in text else 'bare'), loc0,
                          'no root rule matches the header line %r the writer can emit: it is not tagged' % text)
    # end-of-section lookahead
    looks = []
    for rule, items, g1 in header_rules:
        for op, av in items:
            if _opname(op) == 'ASSERT' and av[0] == 1:
                looks.append((rule, av[1]))
    for rule, body in looks:
        try:
            items_ = list(body)
            alts = [list(a) for a in items_[0][1][1]] if len(items_) == 1 and _opname(items_[0][0]) == 'BRANCH' else [items_]
            d = RX.empty_lang(N)
            for alt in alts:
                if all(is_zero_width(o, a) for o, a in alt):
                    continue        # \Z / $: fires only at the end of the text
                d = RX.union(d, RX.concat(RX.sub_dfa(alt, False, flags, N), RX.sigma_star(N)))
        except AnalysisError as e:
            raise AnalysisError('end-of-section lookahead not understood: %s' % e)
        hashdot = RX.concat(RX.literal('#.', N), RX.sigma_star(N))
        w_ = RX.included(RX.intersect(d, RX.complement(RX.empty_string(N))), hashdot)
        if w_ is not None:
            rep.violation(r5, 'lookahead-fires-in-content:%s' % _rule_name(rule), loc(rule),
                          'the end-of-section lookahead of %r also fires at %s, which is not the start of a nested section header '
                          '("#." ...): content containing that text (and no "#.") is cut there and a spurious header token appears'
                          % (rule['pattern'][:30], RX.show(w_, N)), witness=RX.show(w_, N))
        else:
            rep.ok(r5, 'lookahead of %r fires only at "#."' % _rule_name(rule))
        for sid in SPEC_IDS:
            if sid == 'diffx':
                continue
            text = '#%s: x=y\n' % sid
            if d.accepts([ord(c) for c in text]):
                rep.ok(r5, 'lookahead of %r stops at %s' % (_rule_name(rule), sid))
            else:
                rep.violation(r5, 'lookahead-misses:%s:%s' % (_rule_name(rule), sid), loc(rule),
                              'the end-of-section lookahead of %r does not recognise a following %r header: the content '
                              'group swallows that section' % (rule['pattern'][:30], sid))
    # content groups
    nohashdot = RX.intersect(RX.complement(RX.contains_substring('#.', N)), RX.complement(RX.empty_string(N)))
    for rule, items, g1 in header_rules:
        hdr_items, rest = _split_header(items)
        cont = [(op, av) for op, av in rest if _opname(op) == 'SUBPATTERN' and av[0] is not None]
        if not cont:
            continue
        for op, av in cont:
            d = RX.sub_dfa(av[3], False, flags, N, asserts='over', tail=True)
            w = RX.included(nohashdot, d)
            if w is not None:
                rep.violation(r6, 'content-language:%s' % _rule_name(rule), loc(rule),
                              'the content group of %r cannot match the section content %s (no "#." in it): the rule fails, '
                              'the fallback rule swallows the rest of the file and headers are not tagged'
                              % (rule['pattern'][:40], RX.show(w, N)), witness=RX.show(w, N))
            elif getattr(d, 'over_approximated', False):
                raise AnalysisError('content group of %r uses look-arounds; its language cannot be decided' % rule['pattern'][:40])
            else:
                rep.ok(r6, _rule_name(rule), 'content group accepts every non-empty text without "#."')
    # header token type
    types = set()
    for rule, items, g1 in header_rules:
        act = rule['action']
        if act[0] == 'bygroups' and act[1] and act[1][0][0] == 'token':
            types.add(act[1][0][1])
        else:
            types.add(str(act))
    if len(types) != 1:
        rep.violation(r7, 'header-token-types', loc0, 'header rules emit different token types for the header: %s' % sorted(types))
    else:
        T = next(iter(types))
        others = []
        for s_, i, rule in all_rules:
            if any(rule is hr for hr, _, _ in header_rules):
                continue
            acts = rule['action'][1] if rule['action'][0] == 'bygroups' else [rule['action']]
            for a in acts:
                if a[0] == 'token' and a[1] == T:
                    others.append(_rule_name(rule))
        if others:
            rep.violation(r7, 'header-token-reused', loc0, 'token type %s is also emitted by non-header rules %s' % (T, others))
        else:
            for rule, _, _ in header_rules:
                rep.ok(r7, _rule_name(rule), 'header token %s' % T)
    # fallback rule in root
    r9 = rep.rule('C20-R9', 'the root state has a fallback rule matching any line, so no Error token arises from DiffX-level text', reference=1)
    anyline = RX.from_pattern('[^\\n]*\\n', 0)
    ok = False
    for rule in root:
        if 'tree' in rule and rule['action'][0] == 'token':
            try:
                d = RX.sub_dfa(list(rule['tree']), False, flags, N)
            except AnalysisError:
                continue
            if RX.included(anyline, d) is None:
                ok = True
                rep.ok(r9, _rule_name(rule), 'matches every newline-terminated line')
    if not ok:
        rep.violation(r9, 'no-fallback', loc0, 'no root rule matches an arbitrary line: unmatched text yields Error tokens')

    # ---- R10 sub-lexing into an own state: the state must tokenise everything the group can hold ------------
    r10 = rep.rule('C20-R10', 'a group handed to using(this, state=S) holds only text that the rules of S tokenise completely '
                   '(the writer\'s option lists for the options group, any "#."-free text for content groups)', reference=1)
    W = RX.from_pattern(r'[A-Za-z][A-Za-z0-9_-]*=[A-Za-z0-9/._-]+(?:, [A-Za-z][A-Za-z0-9_-]*=[A-Za-z0-9/._-]+)*', 0)
    anytext = RX.difference(RX.sigma_star(N), RX.contains_substring([ord('#'), ord('.')], N))

    def state_language(sname, seen=()):
        alts = None
        for r_ in table.get(sname, []):
            if r_['kind'] == 'include':
                if r_['target'] in seen:
                    continue
                d_ = state_language(r_['target'], seen + (sname,))
                d_ = None if d_ is None else d_[1]
            else:
                if 'tree' not in r_:
                    continue
                d_ = RX.sub_dfa(list(r_['tree']), False, flags, N, asserts='over')
            if d_ is not None:
                alts = d_ if alts is None else RX.union(alts, d_)
        if alts is None:
            return None
        return RX.star(alts), alts
    n10 = 0
    for state, i, rule in all_rules:
        act = rule['action']
        if act[0] != 'bygroups' or 'tree' not in rule:
            continue
        for gi, a in enumerate(act[1], 1):
            if not (a[0] == 'using' and a[1] == 'this' and a[2] is not None and a[2] in table):
                continue
            n10 += 1
            sl = state_language(a[2])
            if sl is None:
                rep.violation(r10, 'empty-state:%s' % a[2], loc(rule), 'state %r has no rules' % a[2])
                continue
            T = sl[0]
            try:
                Lg = RX.group_language(rule['pattern'], flags, gi, asserts='over')
            except AnalysisError:
                Lg = None
            if Lg is not None and RX.included(W, Lg) is None and RX.included(anytext, Lg) is not None:
                req, what = W, 'an option list the writer can emit'
            elif Lg is not None and RX.included(anytext, RX.union(Lg, RX.empty_string(N))) is None:
                req, what = anytext, 'content without "#."'
            else:
                raise AnalysisError('using(this, state=%r) on group %d of %r: role of the group not recognised' % (a[2], gi, rule['pattern'][:40]))
            w_ = RX.included(req, T)
            if w_ is None:
                rep.ok(r10, '%s[%d] group %d -> state %r' % (state, i, gi, a[2]), what)
            else:
                rep.violation(r10, 'state-not-total:%s:%s' % (_rule_name(rule), a[2]), loc(rule),
                              'group %d of rule %r is sub-lexed in state %r, whose rules cannot tokenise %s completely, e.g. %r: the '
                              'unmatched characters become Error tokens' % (gi, rule['pattern'][:40], a[2], what, RX.show(w_, N)))
    if n10 == 0:
        rep.info('no using(this, state=...) action in the table')

    # ---- R8 entry point ------------------------------------------------------------
    r8 = rep.rule('C20-R8', 'setup.py pygments entry point names an existing module and class', reference=1)
    sp = os.path.join(P.pkg_parent, 'setup.py')
    try:
        st = ast.parse(open(sp).read())
    except (OSError, SyntaxError) as e:
        raise AnalysisError('setup.py: %s' % e)
    eps = []
    for n in ast.walk(st):
        if isinstance(n, ast.Constant) and isinstance(n.value, str) and re.match(r'^\s*\w+\s*=\s*[\w.]+:\w+\s*$', n.value) \
                and 'lexer' in n.value.lower():
            eps.append(n.value)
    if not eps:
        rep.violation(r8, 'entry-point-missing', 'python/setup.py', 'no pygments.lexers entry point found in setup.py')
    for ep in eps:
        name, target = [x.strip() for x in ep.split('=', 1)]
        modname, clsname = target.split(':')
        m = P.modules.get(modname)
        if m is not None and clsname in m.classes:
            rep.ok(r8, ep)
        else:
            rep.violation(r8, 'entry-point:%s' % target, 'python/setup.py', 'entry point %r does not resolve to a class' % ep)


def _rule_name(rule):
    return rule['pattern'][:24]


def _group_width(tree, gi):
    def walk(items):
        for op, av in items:
            opn = _opname(op)
            if opn == 'SUBPATTERN':
                if av[0] == gi:
                    return av[3].getwidth()
                r = walk(av[3])
                if r:
                    return r
            elif opn == 'BRANCH':
                for alt in av[1]:
                    r = walk(alt)
                    if r:
                        return r
            elif opn in ('MAX_REPEAT', 'MIN_REPEAT'):
                r = walk(av[2])
                if r:
                    return r
        return None
    return walk(tree) or (0, 1)


def _split_header(items):
    """Header part of a rule: everything up to and including the group that
    matches the header's newline (the last group whose language is exactly '\\n')."""
    last = None
    for i, (op, av) in enumerate(items):
        if _opname(op) == 'SUBPATTERN' and av[0] is not None:
            try:
                d = RX.sub_dfa(av[3], False, 0, 257)
            except AnalysisError:
                continue
            if d.accepts([10]) and RX.count_up_to(d, 3) == 1:
                last = i
                break
    if last is None:
        # the newline may sit inside a wrapper; fall back to: items before the first lazy/any content group
        for i, (op, av) in enumerate(items):
            if _opname(op) == 'SUBPATTERN' and av[0] is not None and i > 0:
                lo, hi = av[3].getwidth()
                if hi > 1000:
                    return items[:i], items[i:]
        return items, []
    return items[:last + 1], items[last + 1:]
