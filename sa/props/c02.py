"""C02 - the writer emits only spec-conformant, canonical DiffX bytes (structural part)."""
import ast

from sa.model import AnalysisError, norm, walk_no_nested
from sa.roles import SPEC_IDS, closure
from sa.values import ADict, AList, Unk, concrete, is_concrete
from sa import sinks, k1
from sa.props.c01 import writer_call, WRITER_CASES
from sa.props.reader_rules import src_chain


def _flatten(v, depth=0):
    """([('lit', text) | ('join', value) | ('unk', value)], bad_encoding) with adjacent literals merged."""
    out = []
    bad = [None]

    def lit(x):
        if isinstance(x, bytes):
            x = x.decode('latin-1')
        return ('lit', str(x))

    def walk(x, d):
        if d > 30:
            out.append(('unk', x))
            return
        if is_concrete(x) and isinstance(concrete(x), (str, bytes, int)) and not isinstance(concrete(x), bool):
            out.append(lit(concrete(x)))
            return
        if isinstance(x, Unk) and getattr(x, 'joined', None):
            sep_, seq_, items_ = x.joined
            from sa.values import AList as _AList
            if is_concrete(sep_) and not concrete(sep_) and isinstance(seq_, _AList) and not seq_.unknown:
                # a join of a definite list of pieces (b''.join([b'#', id, b':', ...])) is the concatenation of the pieces
                for it_ in seq_.items:
                    walk(it_, d + 1)
                return
            out.append(('join', x))
            return
        if isinstance(x, Unk) and x.src:
            s_ = x.src
            if s_[0] == 'binop' and s_[1] == 'Add':
                walk(s_[2], d + 1)
                walk(s_[3], d + 1)
                return
            if s_[0] == 'method' and s_[2] == 'encode':
                e_ = s_[3][0] if len(s_) > 3 and s_[3] else None
                if not (is_concrete(e_) and str(concrete(e_)).lower().replace('_', '-') in ('ascii', 'us-ascii')):
                    bad[0] = concrete(e_) if is_concrete(e_) else '<unknown>'
                walk(s_[1], d + 1)
                return
            if s_[0] == 'format' and is_concrete(s_[1]) and isinstance(concrete(s_[1]), (str, bytes)):
                fmt = concrete(s_[1])
                if isinstance(fmt, bytes):
                    fmt = fmt.decode('latin-1')
                args = s_[2] if isinstance(s_[2], (list, tuple)) else [s_[2]]
                import re as _re
                parts = _re.split(r'(%[sdr])', fmt)
                if sum(1 for p_ in parts if p_ in ('%s', '%d', '%r')) == len(args) and '%' not in ''.join(p_ for p_ in parts if p_ not in ('%s', '%d', '%r')):
                    k = 0
                    for p_ in parts:
                        if p_ in ('%s', '%d', '%r'):
                            walk(args[k], d + 1)
                            k += 1
                        elif p_:
                            out.append(('lit', p_))
                    return
        out.append(('unk', x))
    walk(v, depth)
    merged = []
    for t in out:
        if t[0] == 'lit' and merged and merged[-1][0] == 'lit':
            merged[-1] = ('lit', merged[-1][1] + t[1])
        else:
            merged.append(t)
    return merged, bad[0]


def run(P, rep, tier):
    P.func('pydiffx.utils.text', 'split_lines')     # anchor of the line-splitting role (analysed by C16); vanished -> exit 2
    rep.explanation = (
        'Byte equality with an independent serialiser is NOT decided. Decided on the abstract paths of every public writer '
        'call: R1 every option value that reaches a header is None (dropped), a member of a folded choice set inside the '
        'header grammar, a computed length, or validated against the value grammar; R2 every option key that can reach a '
        'header is a constant matching the key grammar; R3 canonical rendering: pairs rendered "key=value", joined with '
        '", " over an iteration sorted by key, prefixed "#<id>:" plus one space only when options exist, terminated by one '
        'LF, all through .encode("ascii"); R4 the id written is the id the section hierarchy assigns to the call (K1 '
        'exploration of all accepted call histories); R5 length = len of the bytes written next; R6 the newline appended / '
        'checked is BOM-stripped in the section\'s encoding; R7 indentation is the literal b" " * indent written before each '
        'line of split_lines(encoded content, newline); R8 json.dumps(indent=4, sort_keys=True, separators (",", ": ")); '
        'R9 the effective encoding follows the scope oracle (K1).')
    rep.undecided = 'byte-for-byte equality with an independent serialiser derived from the specification'
    rep.trusted_base += ['%-formatting / str.join / sorted semantics', 'json.dumps argument semantics', 'summaries of utils/text.py']
    from sa.props.c09 import explore_writer, fmt_seq
    WK, cls, seen, problems, collected = explore_writer(P, tier)
    for name, _ in WK.CALLS + (('__init__', None),):
        for f in closure(P, cls.find_method(name), cls):
            rep.analysed(f)
    r1 = rep.rule('C02-R1', 'header values: None, folded choice inside the grammar, computed length, or regex-validated', reference=8)
    r2 = rep.rule('C02-R2', 'header keys are constants matching [A-Za-z][A-Za-z0-9_-]*', reference=8)
    pairs = {}
    for seq, res in collected:
        for key, ok, why, org, loc in res.get('pairs', []):
            pairs.setdefault((key, org, ok), (seq, why, loc))
    keys = set()
    for (key, org, ok), (seq, why, loc) in sorted(pairs.items(), key=str):
        keys.add(key)
        inst = 'option %s (from %s)' % (key, org or 'writer')
        if ok:
            rep.ok(r1, inst, why)
        else:
            rep.violation(r1, 'unsanitised-header-value:%s:%s' % (key, org), loc,
                          'option %r reaches the written header without validation: %s' % (key, why), path=[seq[-1][0]], witness=fmt_seq(seq))
    rep.floor(r1, 5)
    for key in sorted(keys):
        if key != '?' and sinks.const_in_grammar(key, 'key'):
            rep.ok(r2, key)
        else:
            rep.violation(r2, 'key:%s' % key, cls.module.relpath, 'header option key %r is not a constant of the key grammar' % key)

    # ---- R3 / R4 / R5 / R7 / R8 on well-typed calls --------------------------------------
    r3 = rep.rule('C02-R3', 'canonical header rendering: sorted by key, ", "-joined, "#id:", single space, LF, ascii', reference=5)
    r5 = rep.rule('C02-R5', 'length is the length of the bytes written after the header', reference=3)
    r7 = rep.rule('C02-R7', 'indentation: b" " * indent before each line of split_lines(encoded content, newline)', reference=1)
    r13 = rep.rule('C02-R13', 'text is encoded once, as a whole, with the strict error handler', reference=3)
    r8 = rep.rule('C02-R8', 'metadata JSON is dumped with indent=4, sort_keys=True, separators (",", ": ")', reference=1)
    wcls = cls
    for meth, kind, prefix in WRITER_CASES:
        probs3, probs5, probs7, probs8, probs13 = set(), set(), set(), set(), set()
        n = 0
        for path, mark, fp, content in writer_call(P, meth, prefix):
            n += 1
            evs = path.events[mark:]
            writes = [e for e in evs if e.kind == 'stream-write' and e.data['stream'] is fp]
            if len(writes) != 2:
                probs3.add('%d stream writes for one content section' % len(writes))
                continue
            hdr, body = writes
            H = hdr.data['data']
            # normal form of the header value: literal text pieces and the joined option list, whatever mix of
            # concatenation, %-formatting and .encode('ascii') assembled it
            shape_ok = False
            flat, enc_bad = _flatten(H)
            lits = ''.join(x[1] for x in flat if x[0] == 'lit')
            joins = [x for x in flat if x[0] == 'join']
            unks = [x for x in flat if x[0] == 'unk']
            if enc_bad:
                probs3.add('header text is encoded with %r, not ascii' % (enc_bad,))
            elif len(joins) == 1 and not unks and len(flat) == 3 and flat[0][0] == 'lit' and flat[2] == ('lit', '\n') \
                    and flat[0][1].startswith('#') and flat[0][1].endswith(': ') and ' ' not in flat[0][1][:-1]:
                j = joins[0][1]
                sep = j.joined[0]
                if not (is_concrete(sep) and concrete(sep) == ', '):
                    probs3.add('options are joined with %r, not ", "' % (concrete(sep),))
                elif not getattr(j, 'join_sorted', False):
                    probs3.add('options are not rendered in an iteration sorted by key')
                else:
                    shape_ok = True
                    # the concrete items must be in alphabetical order as rendered
                    kk = []
                    for it_ in j.joined[2]:
                        if is_concrete(it_) and isinstance(concrete(it_), str):
                            kk.append(concrete(it_).split('=', 1)[0])
                        elif isinstance(it_, Unk) and it_.src and it_.src[0] == 'format':
                            a_ = it_.src[2]
                            if isinstance(a_, (list, tuple)) and a_ and is_concrete(a_[0]):
                                kk.append(str(concrete(a_[0])))
                    if kk != sorted(kk):
                        shape_ok = False
                        probs3.add('rendered option order %s is not alphabetical' % kk)
            if not shape_ok and not probs3:
                probs3.add('the header bytes are not assembled as "#<id>:" [+ " " + ascii(options)] + LF')
            # length
            prs = sinks.header_pairs(H)
            lens = [v for k_, v, _ in prs if is_concrete(k_) and concrete(k_) == 'length']
            X = body.data['data']
            if not (len(lens) == 1 and isinstance(lens[0], Unk) and lens[0].src and lens[0].src[0] == 'call'
                    and lens[0].src[1] == 'len' and lens[0].src[2][0] is X):
                probs5.add('the length option is not len() of the bytes written after the header')
            # indentation
            indw = [e for e in evs if e.kind == 'stream-write' and e.data['stream'] is not fp]
            for e in indw:
                d_ = e.data['data']
                if is_concrete(d_) and isinstance(concrete(d_), bytes):
                    if concrete(d_).strip(b' '):
                        probs7.add('indentation writes %r, not ASCII spaces' % (concrete(d_),))
                    continue
                if isinstance(d_, Unk) and d_.src and d_.src[0] == 'binop' and d_.src[1] == 'Mult':
                    if not (is_concrete(d_.src[2]) and concrete(d_.src[2]) == b' '):
                        probs7.add('indentation uses %r, not ASCII spaces' % (concrete(d_.src[2]),))
                elif isinstance(d_, Unk) and not any(x.src and x.src[0] in ('summary-elem', 'summary') and 'split_lines' in str(x.src[1]) for x in src_chain(d_)):
                    probs7.add('indentation precedes pieces that are not lines of split_lines(content, newline)')
            from sa.props.common import encoded_piecewise
            pw = encoded_piecewise(evs, content)
            if pw is not None:
                probs13.add('the text is encoded piece by piece (%s) instead of once as a whole: with BOM-emitting codecs every piece carries '
                            'its own byte order mark, so the bytes are not the encoded text' % norm(pw.node)[:50])
            for e in evs:
                if e.kind == 'encode' and e.data.get('errors') is not None and not (is_concrete(e.data['errors']) and concrete(e.data['errors']) == 'strict'):
                    probs13.add('text is encoded with the error handler %r: characters the section encoding cannot represent are written as '
                                'something else instead of being rejected' % (concrete(e.data['errors']) if is_concrete(e.data['errors']) else '<unknown>',))
            for e in evs:
                if e.kind == 'json.dumps':
                    kw = e.data['kwargs']
                    if concrete(kw.get('indent')) != 4 or concrete(kw.get('sort_keys')) is not True:
                        probs8.add('json.dumps(indent=%r, sort_keys=%r)' % (concrete(kw.get('indent')), concrete(kw.get('sort_keys'))))
                    ea = kw.get('ensure_ascii')
                    if ea is not None and concrete(ea) is not True:
                        probs8.add('json.dumps(ensure_ascii=%r): non-ASCII metadata is written raw, so it depends on (and can fail '
                                   'in) the section encoding and differs from the canonical escaped form' % (concrete(ea),))
                    sp = kw.get('separators')
                    if sp is not None and concrete(sp) != (',', ': '):
                        probs8.add('json.dumps(separators=%r)' % (concrete(sp),))
        inst = 'DiffXWriter.%s' % meth
        m = wcls.find_method(meth)
        if n == 0:
            raise AnalysisError('%s: no completed path' % inst)
        for probs, rid, tag in ((probs3, r3, 'render'), (probs5, r5, 'length'), (probs7, r7, 'indent'), (probs8, r8, 'json'), (probs13, r13, 'errors')):
            if probs:
                rep.violation(rid, '%s:%s' % (meth, tag), m.loc(), '%s: %s' % (inst, '; '.join(sorted(probs))), path=[inst])
            elif rid in (r3, r5, r13) or (rid is r7 and kind == 'preamble') or (rid is r8 and kind == 'meta'):
                rep.ok(rid, inst, {'paths': n})
    # caller-supplied options must be rendered whenever the call is accepted
    r10 = rep.rule('C02-R10', 'an option the caller supplies (not None) is always rendered into the header of an accepted call', reference=5)
    missing = {}
    seen_opts = set()
    for seq, res in collected:
        for call, pname, key in res.get('unrendered', []):
            missing.setdefault((call, pname), seq)
        for call, pname in res.get('rendered', []):
            seen_opts.add((call, pname))
    for (call, pname), seq in sorted(missing.items()):
        rep.violation(r10, 'option-not-rendered:%s:%s' % (call, pname), cls.find_method(call).loc(),
                      '%s(%s=<value>) can be accepted without writing the option into the header (e.g. when it equals some other '
                      'section\'s value): the bytes no longer declare what the content was encoded with' % (call, pname),
                      path=[call], witness=fmt_seq(seq))
    for call, pname in sorted(seen_opts):
        if (call, pname) not in missing:
            rep.ok(r10, '%s(%s=)' % (call, pname))
    # ---- R4 ids written = hierarchy ids ----------------------------------------------------
    r4 = rep.rule('C02-R4', 'the id written by each accepted call is the id the hierarchy assigns to it', reference=30)
    bad_ids = {}
    okc = 0
    for seq, res in collected:
        if not res['accepted'] or res.get('next_id') is None:
            continue
        wid = res.get('written_id')
        if wid is None:
            continue
        if wid == res['next_id'] and wid in SPEC_IDS:
            okc += 1
        else:
            bad_ids.setdefault((seq[-1][0], wid, res['next_id']), seq)
    for (call, wid, exp), seq in sorted(bad_ids.items()):
        rep.violation(r4, 'id:%s:%s' % (call, wid), cls.find_method(call).loc(), '%s writes the header id %r where the hierarchy assigns %r '
                      '(history %s)' % (call, wid, exp, fmt_seq(seq)), path=[call], witness=fmt_seq(seq))
    if okc and not bad_ids:
        rep.ok(r4, 'all accepted (state, call) pairs', {'pairs': okc})
    elif not okc and not bad_ids:
        raise AnalysisError('written ids not observed')
    # ---- R6 newline routing (writer part of C15-R3) -------------------------------------------
    r11 = rep.rule('C02-R11', 'line endings written for content without a declared type are detected from the first line only', reference=1)
    from sa.props.common import first_line_detection
    first_line_detection(P, rep, r11)
    r12 = rep.rule('C02-R12', 'the lines that receive indentation are exactly the lines of the content on the section newline '
                   '(the rules of C16 hold for split_lines)', reference=1)
    from sa.props.common import split_lossless_rule
    split_lossless_rule(P, rep, r12, tier, 'indentation spaces end up inside lines (e.g. after a bare CR) or the written bytes '
                        'are not the encoded content')
    r6 = rep.rule('C02-R6', 'the newline the writer appends/checks is BOM-stripped in the section encoding', reference=2)
    from sa.props import c15
    strip = P.func('pydiffx.utils.text', 'strip_bom')
    nlf = P.fold_module_const('pydiffx.utils.text', 'NEWLINE_FORMATS')
    consts = set(nlf.values()) | {'\n', '\r\n'}
    wfuncs = []
    for name in ('write_preamble', 'write_diff', 'write_meta'):
        for f in closure(P, cls.find_method(name), cls):
            if f.cls is cls and f not in wfuncs:
                wfuncs.append(f)
    if not c15.route_rule(P, rep, r6, wfuncs, strip, consts):
        raise AnalysisError('no newline encoding site found in the writer (idiom not recognised)')
    # ---- R9 scopes ------------------------------------------------------------------------------
    r9 = rep.rule('C02-R9', 'effective encoding of each content section follows the nesting oracle (K1)', reference=20)
    from sa.props.c04 import writer_scope_rule
    writer_scope_rule(P, rep, r9)
