"""C17 - reader output does not depend on stream chunking or header alignment."""
import ast

from sa.model import AnalysisError, FunctionInfo, norm, walk_no_nested
from sa.roles import ReaderRoles, stream_ops
from sa.interp import Interp, Frame
from sa.values import AList, AObj, AStream, Unk, concrete, is_concrete


def linform(v, atoms):
    """Linear form {atom: coef, 1: const} of an integer-valued abstract value."""
    if is_concrete(v) and isinstance(concrete(v), int):
        return {1: concrete(v)}
    if isinstance(v, Unk) and v.src:
        s = v.src
        if s[0] == 'binop' and s[1] in ('Add', 'Sub'):
            a, b = linform(s[2], atoms), linform(s[3], atoms)
            if a is None or b is None:
                return None
            out = dict(a)
            for k, c in b.items():
                out[k] = out.get(k, 0) + (c if s[1] == 'Add' else -c)
            return out
        if s[0] == 'neg':
            a = linform(s[1], atoms)
            return None if a is None else {k: -c for k, c in a.items()}
        if s[0] == 'call' and s[1] == 'len':
            key = ('len', id(s[2][0]))
            atoms[key] = s[2][0]
            return {key: 1}
    if isinstance(v, Unk):
        key = ('val', id(v))
        atoms[key] = v
        return {key: 1}
    return None


def lin_zero(f):
    return f is not None and all(c == 0 for c in f.values())


def lin_add(a, b, sign=1):
    if a is None or b is None:
        return None
    out = dict(a)
    for k, c in b.items():
        out[k] = out.get(k, 0) + sign * c
    return out


def run(P, rep, tier):
    _run(P, rep, tier, 'C17')


def _run(P, rep, tier, prefix):
    if prefix == 'C17':
        rep.explanation = (
            'The read-ahead helper (found through the call graph: the reader function that both reads and seeks) is 25 lines; '
            'independence from block size and alignment follows by induction on its iterations from premises that are checked '
            'on every abstract path: R1 in the delimiter-found branch the kept slice is chunk[:K] with K = i+1 for the tested '
            'find() result i, and the give-back seek(D, SEEK_CUR) satisfies D + len(chunk) - K == 0 as linear forms; R2 in the '
            'not-found branch the whole chunk is appended and nothing is given back; R3 end of file is signalled only by an '
            'empty read and then nothing is given back; R4 every call site passes a one-byte delimiter (a longer one could '
            'straddle blocks); R5 the block-size parameter is used only as the size of read(); R6 content is read from the same '
            'stream directly and the reader keeps no attribute holding read-ahead bytes.')
        rep.undecided = 'none of the premises; the induction itself is a written argument (DESIGN.md), not machine-checked'
        rep.trusted_base += ['binary stream read/seek semantics; bytes.find / slicing']
    R = ReaderRoles(P)
    ra = R.readahead_fn
    if ra is None:
        raise AnalysisError('no unique read-ahead helper (a reader function that both reads and seeks) - the buffered-reading '
                            'idiom of this tree is outside the recognised ones')
    rep.analysed(ra, R.header_fn, R.content_fn or ra)
    I = Interp(P, while_bound=3)
    params = ra.params()

    # the helper is analysed with the constant arguments of each of its call sites
    # (plus the bare signature), so that optional behaviours selected by the callers are covered
    site_kwargs = [{}]
    for f in R.funcs:
        for n in walk_no_nested(f.node):
            if isinstance(n, ast.Call):
                rr_ = P.resolve_call(f, n, self_cls=R.cls if (f.cls is not None and f.cls in R.cls.mro()) else None)
                if isinstance(rr_, list) and ra in rr_:
                    kw = {}
                    for i_, a_ in enumerate(n.args[1:], start=2):
                        try:
                            kw[params[i_]] = P.fold(a_, f.module, f.cls)
                        except Exception:
                            pass
                    for k_ in n.keywords:
                        if k_.arg and k_.arg != params[1]:
                            try:
                                kw[k_.arg] = P.fold(k_.value, f.module, f.cls)
                            except Exception:
                                pass
                    if kw and kw not in site_kwargs:
                        site_kwargs.append(kw)

    def thunk():
        # a reader as its constructor builds it, with every attribute that is stored outside __init__
        # holding an arbitrary value of its kind (the helper runs after arbitrary earlier reads)
        from sa.harness import mutated_self_attrs, attr_store_summary, havoc_value
        from sa.interp import Frame
        st = AStream('input')
        I.frames = [Frame(ra)]
        obj = I.instantiate(R.cls, [st], {}, None)
        I.frames = []
        for name_ in mutated_self_attrs(P, R.cls):
            obj.attrs[name_] = havoc_value(obj.attrs.get(name_), name_, attr_store_summary(P, R.cls, name_))
        if obj.attrs.get(R.stream) is not st:
            raise AnalysisError('the reader constructor does not store its stream in self.%s' % R.stream)
        delim = Unk('c', kinds=['bytes'], taint=[], src=('param', params[1]))
        delim.facts.add('truthy')
        args = [obj, delim]
        kw = dict(site_kwargs[I.choose(len(site_kwargs), 'call-site')])
        if len(params) > 2 and params[2] not in kw:
            kw[params[2]] = Unk('chunk_size', kinds=['int'], src=('param', params[2]))
            kw[params[2]].facts.add('>=1')
        return I.call_function(ra, args, kw, None, self_cls=R.cls), st
    r1 = rep.rule(prefix + '-R1', 'found branch: kept = chunk[:i+1], give-back seek offset + len(chunk) - kept == 0', reference=1)
    r2 = rep.rule(prefix + '-R2', 'not-found branch: whole chunk appended, no seek', reference=1)
    r3 = rep.rule(prefix + '-R3', 'EOF is signalled only by an empty read; nothing is given back then', reference=1)
    found_ok = found_bad = 0
    nf_ok = nf_bad = 0
    eof_ok = eof_bad = 0
    msgs = {}
    npaths = 0
    for path in I.explore(thunk):
        npaths += 1
        if path.outcome != 'return':
            if path.outcome == 'cut':
                continue
            raise AnalysisError('read-ahead helper raises on an abstract path: %s' % getattr(path.value, 'note', path.value))
        (res, st) = path.value
        if not (isinstance(res, tuple) and len(res) == 2):
            raise AnalysisError('read-ahead helper does not return (data, eof)')
        eof = res[1]
        reads = [e for e in path.events if e.kind == 'stream-read' and e.data['stream'] is st]
        seeks = [e for e in path.events if e.kind == 'stream-seek' and e.data['stream'] is st]
        writes = [e for e in path.events if e.kind == 'stream-write' and e.data['stream'] is not st]
        others = [e for e in path.events if e.kind.startswith('stream-') and e.data.get('stream') is st and
                  e.kind not in ('stream-read', 'stream-seek', 'stream-tell')]
        if others:
            msgs['other-op'] = (others[0], 'the helper performs %s on the input stream' % others[0].kind)
        # chunk values by read order
        chunks = []
        for ev in path.events:
            if ev.kind == 'stream-read' and ev.data['stream'] is st:
                chunks.append(ev)
        eof_true = is_concrete(eof) and concrete(eof) is True
        eof_false = is_concrete(eof) and concrete(eof) is False
        if not (eof_true or eof_false):
            msgs['eof-unknown'] = (reads[-1] if reads else None, 'the EOF flag is not a definite boolean on every path')
            continue
        last_chunk = _read_result(path, chunks[-1]) if chunks else None
        if eof_true:
            if last_chunk is not None and 'falsy' in last_chunk.facts and not seeks:
                eof_ok += 1
            else:
                eof_bad += 1
                msgs['eof'] = (reads[-1] if reads else None,
                               'EOF is reported although the last read returned data (a short read is not end of file)'
                               if not (last_chunk is not None and 'falsy' in last_chunk.facts) else 'bytes are given back at EOF')
            continue
        # not EOF: the last chunk contained the delimiter
        wdata = _pieces(res[0], path, st)
        if wdata is None:
            raise AnalysisError('the data returned by the read-ahead helper is not a concatenation of pieces (idiom not recognised)')
        if not seeks and not any(e.data.get('method') is None for e in reads):
            # line-reader idiom (readline): the result is complete only if the last
            # piece is known to end with the delimiter
            delim = path.events[0].data['locals'].get(params[1]) if path.events and path.events[0].kind == 'enter' else None
            ok_post = last_chunk is not None and any(isinstance(f_, tuple) and f_[0] == 'endswith' and f_[2] is True and
                                                     (delim is None or f_[1] == id(delim)) for f_ in last_chunk.facts)
            if ok_post:
                found_ok += 1
            else:
                found_bad += 1
                msgs['post'] = (reads[-1], 'a result that is not known to end with the delimiter is returned as a complete '
                                'line (not EOF): a file cut inside its last header yields an altered section')
            continue
        # every chunk but the last must be appended whole
        ok_nf = True
        for k, cev in enumerate(chunks[:-1]):
            cval = _read_result(path, cev)
            if not any(w is cval for w in wdata):
                ok_nf = False
        if len(chunks) > 1:
            if ok_nf and len(seeks) == 1:
                nf_ok += 1
            else:
                nf_bad += 1
                msgs['not-found'] = (chunks[0], 'a block without the delimiter is not appended whole (or bytes are given back for it)')
        if len(seeks) != 1:
            found_bad += 1
            msgs['seek-count'] = (seeks[0] if seeks else reads[-1], 'the found branch performs %d seeks' % len(seeks))
            continue
        sk = seeks[0]
        args = sk.data['args']
        whence = concrete(args[1]) if len(args) > 1 and is_concrete(args[1]) else (0 if len(args) < 2 else None)
        atoms = {}
        off = linform(args[0], atoms)
        kept = None
        for w in wdata:
            if isinstance(w, Unk) and w.src and w.src[0] == 'slice' and w.src[1] is last_chunk and w.src[2] is None:
                kept = w.src[3]
        if kept is None:
            found_bad += 1
            msgs['kept'] = (sk, 'the kept part of the last block is not a prefix slice chunk[:K] of it')
            continue
        K = linform(kept, atoms)
        L = {('len', id(last_chunk)): 1}
        total = lin_add(lin_add(off, L), K, -1)
        # K = i + 1 with i the find() result that was tested
        finds = [a for a in atoms.values() if isinstance(a, Unk) and a.src and a.src[0] == 'method' and a.src[2] == 'find'
                 and a.src[1] is last_chunk]
        k_ok = False
        for fnd in finds:
            if lin_zero(lin_add(lin_add(K, {('val', id(fnd)): 1}, -1), {1: 1}, -1)) and -1 in [x for x in fnd.neq]:
                k_ok = True
        if whence == 0:
            # absolute target: must be <position reported by tell()> + <bytes read since> - len(last) + K
            good_abs = False
            for ti, tev in enumerate(path.events):
                if tev.kind != 'stream-tell' or tev.data.get('stream') is not st or 'result' not in tev.data:
                    continue
                since = {}
                for cev in chunks:
                    if path.events.index(cev) > ti:
                        since = lin_add(since, {('len', id(_read_result(path, cev))): 1})
                target = lin_add(lin_add(lin_add({('val', id(tev.data['result'])): 1}, since), L, -1), K)
                if lin_zero(lin_add(off, target, -1)):
                    good_abs = True
            if not good_abs:
                found_bad += 1
                msgs['whence'] = (sk, 'the give-back seek is absolute (whence=0) and its target is not <a position reported by the '
                                  'stream\'s tell()> + <bytes read since> - len(chunk) + kept: a position the reader keeps itself is '
                                  'wrong for a stream that did not start at offset 0')
            elif not k_ok:
                found_bad += 1
                msgs['kept-length'] = (sk, 'the kept length is not find(delimiter)+1 of a found delimiter')
            else:
                found_ok += 1
        elif whence != 1:
            found_bad += 1
            msgs['whence'] = (sk, 'the give-back seek is not relative to the current position (whence=%r)' % whence)
        elif not lin_zero(total):
            found_bad += 1
            msgs['accounting'] = (sk, 'give-back accounting is off: seek offset + len(chunk) - kept = %s, not 0: bytes after '
                                  'the delimiter are lost or re-read' % _show(total, atoms))
        elif not k_ok:
            found_bad += 1
            msgs['kept-length'] = (sk, 'the kept length is not find(delimiter)+1 of a found delimiter: the result does not end '
                                   'exactly after the delimiter')
        else:
            found_ok += 1
    rep.extra['paths_explored'] = npaths
    for key, rid in (('post', r1), ('seek-count', r1), ('kept', r1), ('whence', r1), ('accounting', r1), ('kept-length', r1),
                     ('not-found', r2), ('eof', r3), ('eof-unknown', r3), ('other-op', r1)):
        if key in msgs:
            ev, m = msgs[key]
            rep.violation(rid, key, ev.loc if ev is not None else ra.loc(), '%s: %s' % (ra.short, m), path=[ra.short],
                          construct=norm(ev.node) if ev is not None else None)
    if found_ok and not found_bad:
        rep.ok(r1, ra.short, {'paths': found_ok})
    if nf_ok and not nf_bad:
        rep.ok(r2, ra.short, {'paths': nf_ok})
    if eof_ok and not eof_bad:
        rep.ok(r3, ra.short, {'paths': eof_ok})
    if not (found_ok or found_bad):
        raise AnalysisError('no delimiter-found path observed in %s' % ra.short)
    if not (eof_ok or eof_bad):
        raise AnalysisError('no EOF path observed in %s' % ra.short)

    # ---- R7 header lines of any length ----------------------------------------------------------
    r7 = rep.rule(prefix + '-R7', 'nothing on the header path compares the length of input text with a constant (a header line may be '
                  'arbitrarily long)', reference=1)
    from sa.props.common import length_guard_rule
    length_guard_rule(P, rep, r7, R=R)

    # ---- R8 content lines of any length ----------------------------------------------------------
    r8 = rep.rule(prefix + '-R8', 'nothing on the content path looks at input text through a window of constant size (a content line '
                  'may be arbitrarily long)', reference=3)
    constant_window_rule(P, rep, r8, R)

    # ---- R4 one-byte delimiter at every call site -----------------------------------
    r4 = rep.rule(prefix + '-R4', 'every call site passes a one-byte constant delimiter', reference=1)
    sites = 0
    for f in R.funcs:
        for n in walk_no_nested(f.node):
            if isinstance(n, ast.Call):
                r = P.resolve_call(f, n, self_cls=R.cls if (f.cls is not None and f.cls in R.cls.mro()) else None)
                if isinstance(r, list) and ra in r:
                    sites += 1
                    a = n.args[0] if n.args else (n.keywords[0].value if n.keywords else None)
                    try:
                        v = P.fold(a, f.module, f.cls)
                    except Exception:
                        v = None
                    if isinstance(v, (bytes, str)) and len(v) == 1:
                        rep.ok(r4, '%s: %s' % (f.short, norm(n)))
                    else:
                        rep.violation(r4, 'delimiter:%s' % f.short, f.loc(n),
                                      '%s calls the read-ahead helper with %s, which is not a one-byte constant: a longer '
                                      'delimiter can straddle two read-ahead blocks and is then never found' % (f.short, norm(a)),
                                      path=[f.short, ra.short])
    rep.floor(r4, 1)

    # ---- R5 block size used only as read size ----------------------------------------
    r5 = rep.rule(prefix + '-R5', 'the block-size parameter is used only as the argument of read()', reference=1)
    if len(params) > 2:
        bs = params[2]
        def bad_uses(fn, pname, depth=0):
            """Uses of parameter pname in fn other than as the size of a read; handing it to a module-level helper of the
            package is followed into that helper (one forwarding method, one level)."""
            uses_ = [n for n in walk_no_nested(fn.node) if isinstance(n, ast.Name) and n.id == pname and isinstance(n.ctx, ast.Load)]
            bad_ = []
            # locals bound to a stream's read method (read = fp.read): calling them is reading
            read_aliases = {t.id for n in walk_no_nested(fn.node) if isinstance(n, ast.Assign) and isinstance(n.value, ast.Attribute)
                            and n.value.attr in ('read', 'readline', 'read1') for t in n.targets if isinstance(t, ast.Name)}
            for u in uses_:
                ok = False
                for n in walk_no_nested(fn.node):
                    if isinstance(n, ast.Call) and isinstance(n.func, ast.Attribute) and n.func.attr in ('read', 'readline', 'read1') and u in n.args:
                        ok = True
                    if isinstance(n, ast.Call) and isinstance(n.func, ast.Name) and n.func.id in read_aliases and u in n.args:
                        ok = True
                    if isinstance(n, ast.Call) and depth < 2 and (u in n.args or any(kw.value is u for kw in n.keywords)):
                        try:
                            g = P.resolve_call(fn, n, self_cls=fn.cls)
                        except Exception:
                            g = None
                        g = g[0] if isinstance(g, list) and len(g) == 1 else g
                        if isinstance(g, FunctionInfo) and g.cls is None:
                            gp = g.params()
                            tgt = None
                            if u in n.args and n.args.index(u) < len(gp):
                                tgt = gp[n.args.index(u)]
                            for kw in n.keywords:
                                if kw.value is u and kw.arg in gp:
                                    tgt = kw.arg
                            if tgt is not None:
                                sub = bad_uses(g, tgt, depth + 1)
                                if not sub:
                                    ok = True
                                else:
                                    bad_.extend(sub)
                                    ok = True
                if not ok:
                    bad_.append(u)
            return bad_
        uses = [n for n in walk_no_nested(ra.node) if isinstance(n, ast.Name) and n.id == bs and isinstance(n.ctx, ast.Load)]
        bad = bad_uses(ra, bs)
        if bad:
            rep.violation(r5, 'block-size-use', ra.loc(bad[0]), 'the block size %r is used for something other than the size of '
                          'read() (line %d): the result can depend on the block size' % (bs, bad[0].lineno), path=[ra.short])
        else:
            rep.ok(r5, ra.short, {'uses': len(uses)})
    else:
        rep.ok(r5, ra.short, 'no block-size parameter')

    # ---- R6 single consumer, no private buffer ------------------------------------------
    r6 = rep.rule(prefix + '-R6', 'content is read from the same stream directly; no reader attribute holds read-ahead bytes', reference=2)
    if R.content_fn is None:
        raise AnalysisError('content-reading function not identified')
    consumers = [(f.short, [m for _, m in ops]) for f, ops in R.readers]
    if len(R.readers) == 2:
        rep.ok(r6, 'stream consumers', consumers)
    else:
        rep.violation(r6, 'consumers', R.entry.loc(), 'the stream is consumed by %s (expected the read-ahead helper and the content '
                      'reader only)' % consumers)
    from sa.harness import mutated_self_attrs, attr_store_summary
    buf = []
    for nm in mutated_self_attrs(P, R.cls, skip=()):
        kinds, consts, exact = attr_store_summary(P, R.cls, nm)
        if not exact and nm != R.stream:
            buf.append(nm)
    if buf:
        rep.violation(r6, 'buffer-attrs:%s' % ','.join(sorted(buf)), R.cls.module.relpath,
                      'reader attributes %s hold computed data between calls (possible read-ahead buffer): content reads may '
                      'miss bytes kept there' % sorted(buf))
    else:
        rep.ok(r6, 'reader attributes', 'only the stream, a line counter and the newline style are kept')


def _pieces(val, path, st, depth=0):
    """The ordered pieces the returned data is the concatenation of: writes to an internal byte stream whose
    getvalue() is returned, items of a b''.join(list), or the operands of + / += chains."""
    if depth > 40:
        return None
    if is_concrete(val) and isinstance(concrete(val), bytes):
        return [] if not concrete(val) else [concrete(val)]
    if isinstance(val, Unk) and val.src:
        s_ = val.src
        if s_[0] == 'getvalue':
            return [e.data['data'] for e in path.events if e.kind == 'stream-write' and e.data['stream'] is s_[1]]
        if getattr(val, 'joined', None):
            sep, seq, items = val.joined
            if not (is_concrete(sep) and concrete(sep) in (b'', '')):
                return None
            if isinstance(seq, AList) and seq.unknown:
                return None
            out = []
            for it in items:
                sub = _pieces(it, path, st, depth + 1)
                out += sub if (sub is not None and not isinstance(it, Unk)) else [it]
            return out
        if s_[0] == 'binop' and s_[1] == 'Add':
            a_ = _pieces(s_[2], path, st, depth + 1)
            b_ = _pieces(s_[3], path, st, depth + 1)
            return (a_ if a_ is not None else [s_[2]]) + (b_ if b_ is not None else [s_[3]])
    if isinstance(val, Unk):
        return [val]
    return None


def _read_result(path, read_ev):
    """The abstract value produced by a stream-read event (the next Unk whose src is that read)."""
    n = read_ev.data.get('n')
    st = read_ev.data['stream']
    for ev in path.events:
        pass
    return read_ev.data.get('result')


def _show(f, atoms):
    parts = []
    for k, c in f.items():
        if c == 0:
            continue
        if k == 1:
            parts.append(str(c))
        elif k[0] == 'len':
            parts.append('%+d*len(%s)' % (c, getattr(atoms.get(k), 'name', '?')))
        else:
            parts.append('%+d*%s' % (c, getattr(atoms.get(k), 'name', '?')))
    return ' '.join(parts) or '0'



def constant_window_rule(P, rep, rid, R):
    """The content function and the utils.text functions it reaches take no slice of, and run no bounded search over, their
    input with a bound that folds to an integer constant >= 2: such a window makes the result depend on whether a line (the
    first one, for line-ending detection) is longer than the constant - the records then differ with the length of a
    content line.  Bounds that are computed from the data (positions found, len(newline)) are not constants and pass."""
    from sa.model import Unfoldable
    cf = R.content_fn
    if cf is None:
        raise AnalysisError('no single content-reading function reachable from %s' % R.entry.short)
    todo, fns = [cf], []
    while todo:
        f = todo.pop()
        if f in fns:
            continue
        fns.append(f)
        for n in walk_no_nested(f.node):
            if isinstance(n, ast.Call):
                r = P.resolve_call(f, n, self_cls=R.cls if (f.cls is not None and f.cls in R.cls.mro()) else None)
                if isinstance(r, list):
                    for g in r:
                        if g.module.name == 'pydiffx.utils.text' or (g.cls is not None and g.cls in R.cls.mro() and g is not R.readahead_fn
                                                                      and g is not R.header_fn and g is not R.entry):
                            todo.append(g)

    def const_int(e, f):
        if e is None:
            return None
        try:
            v = P.fold(e, f.module, f.cls)
        except (Unfoldable, AnalysisError):
            return None
        return v if type(v) is int and abs(v) >= 2 else None
    SEARCH = ('find', 'rfind', 'index', 'rindex', 'count', 'startswith', 'endswith')
    for f in fns:
        rep.analysed(f)
        bad = []
        for n in walk_no_nested(f.node):
            if isinstance(n, ast.Subscript) and isinstance(n.slice, ast.Slice):
                for b in (n.slice.lower, n.slice.upper):
                    k = const_int(b, f)
                    if k is not None:
                        bad.append((n, 'slice %s with the constant bound %d' % (norm(n)[:40], k)))
            elif isinstance(n, ast.Call) and isinstance(n.func, ast.Attribute) and n.func.attr in SEARCH:
                for b in list(n.args[1:]) + [kw.value for kw in n.keywords]:
                    k = const_int(b, f)
                    if k is not None:
                        bad.append((n, 'search %s bounded by the constant %d' % (norm(n)[:40], k)))
        if bad:
            for n, what in bad:
                rep.violation(rid, 'constant-window:%s:%s' % (f.short, norm(n)[:40]), f.loc(n), '%s takes a %s: what the reader makes of a '
                              'content section then depends on whether a line is longer than that constant' % (f.short, what),
                              path=[R.entry.short, cf.short, f.short])
        else:
            rep.ok(rid, f.short)
    rep.floor(rid, 3)
