"""C16 - line splitting is lossless and consistent between its two modes.

A dedicated abstract domain decides the four clauses for the *shape* of ``split_lines``.  The only
trusted fact is the algebra of ``bytes.split``:  for a non-empty separator NL,
``data.split(NL) == [p_0, ..., p_n]`` with ``data == p_0 + NL + p_1 + ... + NL + p_n``, n = number of
(non-overlapping, left-to-right) occurrences of NL, no p_i contains NL, and
``data.endswith(NL)`` iff ``p_n == b''`` (for the separators the library uses, LF and CRLF in any
codec, NL has no proper border, so "ends with NL" and "last piece empty" coincide).

Abstract list value: ``n`` leading elements of one *form* plus an optional distinguished last
element; a form is 'P' (the piece), 'P+NL' (piece followed by the newline) or 'LOSSY'.
"""
import ast

from sa.model import AnalysisError, norm


class SymList(object):
    def __init__(self, prefix='P', has_last=True, last='P', source='split'):
        self.prefix = prefix
        self.has_last = has_last
        self.last = last
        self.source = source

    def copy(self):
        return SymList(self.prefix, self.has_last, self.last, self.source)

    def __repr__(self):
        return '[%s]*n%s' % (self.prefix, (' + [%s]' % self.last) if self.has_last else '')


class Stop(Exception):
    def __init__(self, value):
        self.value = value


class Unsupported(AnalysisError):
    pass


class Eval(object):
    """Evaluates split_lines for one case: keep_ends in {True, False}, E = data.endswith(newline)."""

    def __init__(self, fi, keep_ends, E, nl_is_lf, count='other'):
        # count: how many newlines the data holds - 'none', 'one-at-end' (exactly one, and it ends the data) or
        # 'other' (any other number/position; E then says whether the data ends with one)
        self.count = count
        self.flags = []
        self.fi = fi
        a = fi.node.args
        names = [x.arg for x in a.args]
        if len(names) < 2:
            raise Unsupported('split_lines signature')
        self.data, self.nl = names[0], names[1]
        self.keep = names[2] if len(names) > 2 else None
        self.env = {self.data: 'DATA', self.nl: 'NL'}
        if self.keep:
            self.env[self.keep] = keep_ends
        self.E = E
        self.nl_is_lf = nl_is_lf
        self.notes = []

    # -- expressions ---------------------------------------------------------------
    def cond(self, e):
        if isinstance(e, ast.Constant) and isinstance(e.value, bool):
            return e.value
        if isinstance(e, ast.Name) and e.id in self.env and isinstance(self.env[e.id], bool):
            return self.env[e.id]
        if isinstance(e, ast.UnaryOp) and isinstance(e.op, ast.Not):
            return not self.cond(e.operand)
        if isinstance(e, ast.BoolOp):
            vals = [self.cond(v) for v in e.values]
            return all(vals) if isinstance(e.op, ast.And) else any(vals)
        if isinstance(e, ast.Call) and isinstance(e.func, ast.Attribute) and e.func.attr == 'endswith' \
                and self.val(e.func.value) == 'DATA' and len(e.args) == 1 and self.val(e.args[0]) == 'NL':
            return self.E
        if isinstance(e, ast.Compare) and len(e.ops) == 1 and isinstance(e.ops[0], (ast.In, ast.NotIn)):
            l, r = self.val(e.left), self.val(e.comparators[0])
            if l == 'NL' and r == 'DATA':
                res = self.count != 'none'
                return res if isinstance(e.ops[0], ast.In) else not res
        if isinstance(e, ast.Compare) and len(e.ops) == 1:
            l, r = self.val(e.left), self.val(e.comparators[0])
            opn = type(e.ops[0]).__name__
            if r in ('FIND', 'COUNT', 'FIND+len(NL)') and l not in ('FIND', 'COUNT', 'FIND+len(NL)'):
                l, r = r, l
                opn = {'Lt': 'Gt', 'Gt': 'Lt', 'LtE': 'GtE', 'GtE': 'LtE'}.get(opn, opn)
            res = None
            if l == 'FIND' and isinstance(r, int) and not isinstance(r, bool):
                # position of the first newline: -1 exactly when there is none, otherwise >= 0
                found = self.count != 'none'
                if (opn, r) in (('Eq', -1), ('Lt', 0), ('LtE', -1)):
                    res = not found
                elif (opn, r) in (('NotEq', -1), ('GtE', 0), ('Gt', -1)):
                    res = found
            if l == 'COUNT' and isinstance(r, int) and not isinstance(r, bool):
                zero = self.count == 'none'
                if (opn, r) in (('Eq', 0), ('Lt', 1), ('LtE', 0)):
                    res = zero
                elif (opn, r) in (('NotEq', 0), ('GtE', 1), ('Gt', 0)):
                    res = not zero
            if l == 'FIND+len(NL)' and r == 'len(DATA)' and opn in ('Eq', 'NotEq'):
                # the first newline ends the data: it is the only one (newlines have no proper border)
                res = self.count == 'one-at-end'
                res = res if opn == 'Eq' else not res
            if res is not None:
                return res
        if isinstance(e, ast.Compare) and len(e.ops) == 1 and isinstance(e.ops[0], (ast.Eq, ast.NotEq)):
            l, r = self.val(e.left), self.val(e.comparators[0])
            if {l, r} & {'NL'} and any(isinstance(x, bytes) for x in (l, r)):
                c = [x for x in (l, r) if isinstance(x, bytes)][0]
                res = self.nl_is_lf if c == b'\n' else False
                return res if isinstance(e.ops[0], ast.Eq) else not res
        if isinstance(e, ast.Name) and isinstance(self.env.get(e.id), SymList):
            return True          # a split result is never empty
        if isinstance(e, ast.Subscript) or isinstance(e, ast.Call):
            v = self.val(e)
            if v == ('elem-last', 'P'):
                return not self.E   # the last piece is empty exactly when data ends with the newline
        raise Unsupported('condition %s' % norm(e))

    def val(self, e):
        if isinstance(e, ast.Constant):
            return e.value
        if isinstance(e, ast.UnaryOp) and isinstance(e.op, ast.USub) and isinstance(e.operand, ast.Constant) \
                and isinstance(e.operand.value, int) and not isinstance(e.operand.value, bool):
            return -e.operand.value
        if isinstance(e, ast.Name):
            if e.id in self.env:
                return self.env[e.id]
            P_ = getattr(self, 'P', None)
            if P_ is not None:
                try:
                    c_ = P_.fold_module_const(self.fi.module.name, e.id)      # a module-level constant
                except Exception:
                    c_ = None
                if isinstance(c_, (bytes, str, int, bool)):
                    return c_
            raise Unsupported('name %s' % e.id)
        if isinstance(e, ast.Call) and isinstance(e.func, ast.Attribute):
            recv = self.val(e.func.value)
            m = e.func.attr
            if m == 'split' and recv == 'DATA' and len(e.args) == 1 and self.val(e.args[0]) == 'NL':
                return SymList('P', True, 'P', 'split')
            if m == 'splitlines' and recv == 'DATA':
                l = SymList('P', True, 'P', 'splitlines')
                return l
            if m == 'copy' and isinstance(recv, SymList):
                return recv.copy()
            if m in ('find', 'index') and recv == 'DATA' and len(e.args) == 1 and self.val(e.args[0]) == 'NL':
                return 'FIND'
            if m == 'count' and recv == 'DATA' and len(e.args) == 1 and self.val(e.args[0]) == 'NL':
                return 'COUNT'
        if isinstance(e, ast.Call) and isinstance(e.func, ast.Name) and e.func.id == 'len' and self.val(e.args[0]) == 'NL':
            return 'len(NL)'
        if isinstance(e, ast.Call) and isinstance(e.func, ast.Name) and e.func.id == 'len' and self.val(e.args[0]) == 'DATA':
            return 'len(DATA)'
        if isinstance(e, ast.BinOp) and isinstance(e.op, ast.Add):
            l, r = self.val(e.left), self.val(e.right)
            if {l, r} == {'FIND', 'len(NL)'}:
                return 'FIND+len(NL)'
            if isinstance(l, (bytes, str)) and r == 'NL' and l in (b'%s', '%s'):
                return 'TEMPLATE(%s NL)'
        if isinstance(e, ast.List) and len(e.elts) == 1 and self.val(e.elts[0]) == 'DATA':
            # the data as the only line
            if self.count == 'none':
                return SymList('ANY', True, 'P', 'split')          # no newline: the data is the one (unterminated) piece
            if self.count == 'one-at-end':
                out = SymList('P+NL', False, 'P', 'split')          # one newline ending the data: the data is piece+newline
                out.single = True
                return out
            out = SymList('LOSSY', False, 'P', 'split')
            out.wrong_count = 'the whole data is returned as one line although it holds %s' % (
                'several lines' if self.E else 'a newline before its last line')
            return out
        if isinstance(e, ast.Call) and isinstance(e.func, ast.Name) and e.func.id == 'list':
            v = self.val(e.args[0])
            if isinstance(v, SymList):
                return v.copy()
        if isinstance(e, ast.ListComp) and len(e.generators) == 1 and not e.generators[0].ifs:
            g = e.generators[0]
            src = self.val(g.iter)
            if isinstance(src, SymList) and isinstance(g.target, ast.Name):
                out = src.copy()
                out.prefix = self.form(e.elt, g.target.id, src.prefix)
                if src.has_last:
                    out.last = self.form(e.elt, g.target.id, src.last)
                return out
        if isinstance(e, ast.Subscript):
            base = self.val(e.value)
            if isinstance(base, SymList) and isinstance(e.slice, ast.UnaryOp) and isinstance(e.slice.op, ast.USub) \
                    and isinstance(e.slice.operand, ast.Constant) and e.slice.operand.value == 1:
                if not base.has_last:
                    return ('elem-prefix', base.prefix)
                return ('elem-last', base.last)
            if isinstance(base, tuple) and base[0] in ('elem-last', 'elem-prefix') and isinstance(e.slice, ast.Slice) \
                    and e.slice.lower is None and e.slice.upper is not None:
                up = e.slice.upper
                if isinstance(up, ast.UnaryOp) and isinstance(up.op, ast.USub) and self.val(up.operand) == 'len(NL)':
                    return (base[0], 'P' if base[1] == 'P+NL' else 'LOSSY')
            if isinstance(base, SymList) and isinstance(e.slice, ast.Slice) and e.slice.lower is None and e.slice.upper is not None:
                up = e.slice.upper
                if isinstance(up, ast.UnaryOp) and isinstance(up.op, ast.USub) and isinstance(up.operand, ast.Constant) and up.operand.value == 1:
                    out = base.copy()
                    if not out.has_last:
                        raise Unsupported('dropping an element of the prefix')
                    out.has_last = False
                    return out
        if isinstance(e, (ast.UnaryOp, ast.BoolOp, ast.Compare)) or \
                (isinstance(e, ast.Call) and isinstance(e.func, ast.Attribute) and e.func.attr == 'endswith'):
            return self.cond(e)      # a boolean kept in a local
        raise Unsupported('expression %s' % norm(e)[:60])

    def form(self, elt, var, cur):
        """Form of a comprehension element expression given the form of the source element."""
        if isinstance(elt, ast.Name) and elt.id == var:
            return cur
        if cur == 'ANY' and not (isinstance(elt, ast.BinOp) and isinstance(elt.op, ast.Mod)):
            return 'ANY'          # there are no leading elements in this case
        plus_nl = False
        if isinstance(elt, ast.BinOp) and isinstance(elt.op, ast.Add) and isinstance(elt.left, ast.Name) and elt.left.id == var \
                and self.val(elt.right) == 'NL':
            plus_nl = True
        if isinstance(elt, ast.BinOp) and isinstance(elt.op, ast.Mod) and isinstance(elt.left, (ast.Constant, ast.Name)) \
                and self.val(elt.left) in (b'%s%s', '%s%s') and isinstance(elt.right, ast.Tuple) and len(elt.right.elts) == 2 \
                and isinstance(elt.right.elts[0], ast.Name) and elt.right.elts[0].id == var and self.val(elt.right.elts[1]) == 'NL':
            plus_nl = True
        if isinstance(elt, ast.BinOp) and isinstance(elt.op, ast.Mod) and isinstance(elt.right, ast.Name) and elt.right.id == var \
                and not isinstance(elt.left, ast.Constant) and self.val(elt.left) == 'TEMPLATE(%s NL)':
            self.flags.append('the newline is made part of a %-format template (' + norm(elt) + '): a newline that contains the byte 0x25 '
                              '- LF is 0x25 in every EBCDIC codec (cp037, cp500, cp1140, ...) - is read as a conversion and formatting fails')
            plus_nl = True
        if plus_nl:
            if cur == 'ANY':
                return 'ANY'
            return 'P+NL' if cur == 'P' else 'LOSSY'
        # elt[:-len(NL)]: removes exactly one newline from a terminated element
        if isinstance(elt, ast.Subscript) and isinstance(elt.value, ast.Name) and elt.value.id == var and isinstance(elt.slice, ast.Slice) \
                and elt.slice.lower is None and isinstance(elt.slice.upper, ast.UnaryOp) and isinstance(elt.slice.upper.op, ast.USub) \
                and self.val(elt.slice.upper.operand) == 'len(NL)':
            return 'P' if cur == 'P+NL' else 'LOSSY'
        # strip-like calls remove any run of the newline's *bytes* (or whitespace), not one newline sequence
        if isinstance(elt, ast.Call) and isinstance(elt.func, ast.Attribute) and isinstance(elt.func.value, ast.Name) \
                and elt.func.value.id == var and elt.func.attr in ('rstrip', 'strip', 'lstrip', 'replace', 'removesuffix'):
            if elt.func.attr == 'removesuffix' and len(elt.args) == 1 and self.val(elt.args[0]) == 'NL' and cur == 'P+NL':
                return 'P'
            if elt.func.attr == 'rstrip' and len(elt.args) == 1 and self.val(elt.args[0]) == 'NL' and self.nl_is_lf and cur in ('P', 'P+NL'):
                return 'P'       # a one-byte newline: pieces do not contain it, so exactly the terminator goes
            self.notes.append('%s() removes every trailing byte that occurs in the newline, not one newline' % elt.func.attr)
            return 'LOSSY'
        raise Unsupported('comprehension element %s' % norm(elt))

    # -- statements ---------------------------------------------------------------------
    def run(self, stmts):
        for s in stmts:
            if isinstance(s, ast.Expr) and isinstance(s.value, ast.Constant):
                continue
            if isinstance(s, (ast.Assert, ast.Pass)):
                continue
            if isinstance(s, ast.Assign) and len(s.targets) == 1:
                t = s.targets[0]
                if isinstance(t, ast.Name):
                    self.env[t.id] = self.val(s.value)
                    continue
                if isinstance(t, ast.Subscript):
                    base = self.val(t.value)
                    if isinstance(base, SymList) and isinstance(t.slice, ast.UnaryOp) and isinstance(t.slice.op, ast.USub) \
                            and isinstance(t.slice.operand, ast.Constant) and t.slice.operand.value == 1:
                        v = self.val(s.value)
                        if isinstance(v, tuple) and v[0] in ('elem-last', 'elem-prefix'):
                            if not base.has_last:
                                raise Unsupported('assignment to the last prefix element')
                            base.last = v[1]
                            continue
                raise Unsupported('assignment %s' % norm(s)[:60])
            if isinstance(s, ast.If):
                self.run(s.body if self.cond(s.test) else s.orelse)
                continue
            if isinstance(s, ast.Expr) and isinstance(s.value, ast.Call) and isinstance(s.value.func, ast.Attribute):
                c = s.value
                recv = self.val(c.func.value)
                if c.func.attr == 'pop' and isinstance(recv, SymList) and not c.args:
                    if not recv.has_last:
                        raise Unsupported('pop of a prefix element')
                    recv.has_last = False
                    continue
                if c.func.attr == 'pop' and isinstance(recv, SymList) and len(c.args) == 1 and isinstance(c.args[0], ast.UnaryOp):
                    if recv.has_last:
                        recv.has_last = False
                        continue
            if isinstance(s, ast.Delete) and len(s.targets) == 1 and isinstance(s.targets[0], ast.Subscript):
                t = s.targets[0]
                base = self.val(t.value)
                if isinstance(base, SymList) and base.has_last and isinstance(t.slice, ast.UnaryOp):
                    base.has_last = False
                    continue
            if isinstance(s, ast.Return):
                raise Stop(self.val(s.value))
            raise Unsupported('statement %s' % norm(s)[:60])
        return None


def run(P, rep, tier):
    rep.explanation = (
        'The four clauses are identities about the result of bytes.split and the list surgery that follows. They are '
        'decided for the code shape by abstract interpretation of split_lines over a small dedicated domain: a list is '
        '"n leading elements of one form + an optional distinguished last element", a form is P (the piece), P+NL (piece '
        'followed by the newline) or LOSSY. The function is evaluated for the four cases keep_ends in {True, False} x '
        'data.endswith(newline) in {True, False} (and newline == LF or not, for fast paths that test it). With the '
        'trusted algebra of bytes.split (data = p_0 NL p_1 ... NL p_n, no piece contains NL, the last piece is empty iff '
        'data ends with NL) the resulting forms decide: concatenation of the kept-ends lines equals the data; every line '
        'but possibly the last ends with the newline and contains it nowhere else; the number of lines is the number of '
        'newlines plus one if the data does not end with one; without ends = with ends minus exactly one newline per '
        'terminated line. Any other list primitive (e.g. bytes.splitlines, which also breaks on CR, VT, FF, ...) or an '
        'unrecognised statement form is reported / is an analysis error.')
    rep.undecided = 'nothing of the four clauses for the recognised code shape; the algebra of bytes.split itself is trusted'
    rep.trusted_base += ['bytes.split algebra (stated in sa/props/c16.py)', 'newlines used by the library have no proper border (LF, CRLF in any codec)']
    f = P.func('pydiffx.utils.text', 'split_lines')
    rep.analysed(f)
    r0 = rep.rule('C16-R0', 'every call computes a fresh result: the function is not wrapped by a cache', reference=1)
    decos = [norm(d) for d in f.node.decorator_list]
    caching = [d for d in decos if any(w in d for w in ('lru_cache', 'cache', 'memo'))]
    if caching:
        rep.violation(r0, 'cached-result', f.loc(), 'split_lines is wrapped by %s: calls with equal arguments return the same mutable list, so '
                      'a caller that edits the lines of one result changes what later calls return' % ', '.join(caching), path=[f.short])
    elif decos:
        raise Unsupported('split_lines is decorated with %s (effect on the result unknown)' % ', '.join(decos))
    else:
        rep.ok(r0, 'no decorator')
    r1 = rep.rule('C16-R1', 'kept-ends lines concatenate to the data; each but the last ends with the newline exactly once', reference=4)
    r2 = rep.rule('C16-R2', 'number of lines = number of newlines (+1 if the data does not end with one)', reference=8)
    r3 = rep.rule('C16-R3', 'without ends = kept-ends result with one trailing newline removed from each terminated line', reference=4)
    r4 = rep.rule('C16-R4', 'lines are obtained by splitting on exactly the given newline', reference=8)
    r5 = rep.rule('C16-R5', 'the newline is data, never part of a %-format template', reference=1)
    flagged = set()
    cases = [(keep, cnt, E, lf) for keep in (True, False) for cnt, E in (('other', True), ('other', False), ('none', False), ('one-at-end', True))
             for lf in (True, False)]
    for keep, cnt, E, lf in cases:
        if True:
            if True:
                case = 'keep_ends=%s, data %s%s' % (keep, {'other': 'ends with the newline (and holds more than one)' if E else 'holds newlines but does not end with one',
                                                           'none': 'holds no newline', 'one-at-end': 'holds one newline, at its end'}[cnt],
                                                    ', newline == LF' if lf else '')
                ev = Eval(f, keep, E, lf, cnt)
                ev.P = P
                try:
                    ev.run(f.node.body)
                    raise Unsupported('split_lines falls off its end')
                except Stop as st:
                    res = st.value
                for fl in ev.flags:
                    if fl not in flagged:
                        flagged.add(fl)
                        rep.violation(r5, 'newline-in-template', f.loc(), 'split_lines (%s): %s' % (case, fl), path=[f.short])
                if not isinstance(res, SymList):
                    raise Unsupported('split_lines returns %r' % (res,))
                if res.source != 'split':
                    rep.violation(r4, 'not-split-on-newline:%s' % res.source, f.loc(),
                                  'split_lines (%s) takes its lines from data.%s(), which also breaks on other terminators (a bare CR, '
                                  'VT, FF, FS/GS/RS, NEL): lines contain those terminators, the line count differs from the number of '
                                  'newlines, and indentation ends up in the middle of lines' % (case, res.source), path=[f.short])
                    continue
                rep.ok(r4, case)
                if getattr(res, 'wrong_count', None):
                    rep.violation(r2, 'line-count:%s:%s:whole' % (keep, E), f.loc(), 'split_lines (%s): %s' % (case, res.wrong_count), path=[f.short])
                    continue
                want_last = not E
                if res.has_last != want_last:
                    rep.violation(r2, 'line-count:%s:%s' % (keep, E), f.loc(),
                                  'split_lines (%s) returns %s: %s' % (case, res, 'an extra empty last line' if res.has_last else
                                                                        'the unterminated last line is dropped'), path=[f.short])
                else:
                    rep.ok(r2, case, repr(res))
                if keep:
                    ok = res.prefix in ('P+NL', 'ANY') and (not res.has_last or res.last == 'P')
                    if not ok:
                        what = []
                        if res.prefix not in ('P+NL', 'ANY'):
                            what.append('terminated lines have the form %s instead of piece+newline' % res.prefix)
                        if res.has_last and res.last != 'P':
                            what.append('the unterminated last line has the form %s: a newline the data does not contain is '
                                        'fabricated (or bytes are cut off)' % res.last)
                        rep.violation(r1, 'kept-ends-form:%s' % E, f.loc(), 'split_lines (%s): %s; joining the lines no longer gives back '
                                      'the data' % (case, '; '.join(what)), path=[f.short])
                    else:
                        rep.ok(r1, case, repr(res))
                else:
                    ok = res.prefix in ('P', 'ANY') and (not res.has_last or res.last == 'P')
                    if not ok:
                        rep.violation(r3, 'no-ends-form:%s' % E, f.loc(), 'split_lines (%s) returns lines of the form %s / %s instead of the '
                                      'bare pieces' % (case, res.prefix, res.last), path=[f.short])
                    else:
                        rep.ok(r3, case, repr(res))
    if not flagged:
        rep.ok(r5, f.short, 'no template is built from the newline')
    if not rep.violations:
        rep.floor(r2, 8)
