"""C05 - object model written then parsed gives back the same tree (table agreement part)."""
import ast

from sa.model import AnalysisError, ClassInfo, Unfoldable, norm, walk_no_nested
from sa.roles import SPEC_IDS
from sa.interp import Interp
from sa.dom import DomRoles, SECTION_CLASSES, all_objects

CONTAINER = ('DiffX', 'DiffXChangeSection', 'DiffXFileSection')


def typed_options(P, D, cls):
    """option_name -> descriptor class for the OptionProperty descriptors of a section class."""
    out = {}
    for attr, kind, dcls in D.settable_names(cls):
        if kind == 'descriptor' and dcls is not None and D.option_property in dcls.mro():
            out[P.fold_class_attr(dcls, 'option_name')] = (attr, dcls)
    return out


def writer_method_for(P, D, cls, wcls):
    name = P.fold_class_attr(cls, 'section_name')
    if cls.name == 'DiffX':
        return wcls.find_method('__init__'), 'DiffXWriter(...)'
    prefix = 'new_' if cls.name in CONTAINER else 'write_'
    return wcls.find_method('%s%s' % (prefix, name)), '%s%s' % (prefix, name)


def skip_rule(P, D, rep, rid, dw, wcls):
    """Abstractly run the DOM writer's per-section function on each content section class with (a) non-empty
    content of unknown value and (b) each empty value: (a) must call the streaming writer's write_<name> with
    that very content on every path, (b) must not call the streaming writer."""
    from sa.values import ADict, AObj, Unk
    cont = [c for c in SECTION_CLASSES if c not in CONTAINER]
    wfuncs = [m for n, m in wcls.methods.items() if n.startswith(('write_', 'new_'))]
    for cname in cont:
        cls = D.classes[cname]
        sname = P.fold_class_attr(cls, 'section_name')
        getter = None
        for c in cls.repo_mro():
            if 'content' in c.props and c.props['content'].get('get') is not None:
                getter = c.props['content']['get']
                break
        if getter is None:
            raise AnalysisError('content property of %s not found (anchor vanished)' % cname)
        cases = [('non-empty', None)] + [('empty %r' % (v,), v) for v in (None, b'', '', {})]
        for label, const in cases:
            I = Interp(P)
            calls = []
            holder = {}

            def rec(I_, fi_, args, kwargs, node, calls=calls):
                calls.append((fi_.name, list(args), dict(kwargs)))
                return None
            for m in wfuncs:
                I.stubs[m.qualname] = rec
            I.stubs[getter.qualname] = lambda I_, fi_, args, kwargs, node: holder['content']
            npaths = 0

            def thunk():
                del calls[:]
                objs = D.build_tree(I)
                o = objs[cname]
                if const is None:
                    u = Unk('content', taint=['ARG'])
                    u.facts.add('truthy')
                    holder['content'] = u
                else:
                    holder['content'] = ADict({}, name='content') if isinstance(const, dict) else const
                w = I.instantiate(dw, [], {}, None)
                sw = AObj(wcls, 'streaming-writer')
                I.frames = []
                entry = _content_section_writer(dw)
                if entry is None:
                    raise AnalysisError('the DOM writer method that dispatches content sections (getattr(writer, "write_%s" % ...)) was not found (anchor vanished)')
                I.call_function(entry, [w, o, sw], {}, None, self_cls=dw)
                return list(calls)
            for path in I.explore(thunk):
                npaths += 1
                if npaths > 2000:
                    raise AnalysisError('too many paths in the DOM writer for %s' % cname)
                if path.outcome != 'return':
                    continue
                got = path.value
                if const is None:
                    ok = len(got) == 1 and got[0][0] == 'write_%s' % sname and got[0][1][1:2] == [holder['content']]
                    if ok:
                        rep.ok(rid, '%s: non-empty content is passed to write_%s' % (cname, sname))
                    else:
                        rep.violation(rid, 'skip-condition:%s' % cname, dw.module.relpath,
                                      'a %s with non-empty content leads to streaming-writer calls %s (expected exactly one write_%s '
                                      'with the content)' % (cname, [g[0] for g in got], sname), path=[dw.name])
                else:
                    if not got:
                        rep.ok(rid, '%s: %s is skipped' % (cname, label))
                    else:
                        rep.info('%s with %s content is written (calls %s)' % (cname, label, [g[0] for g in got]))


def _content_section_writer(dw):
    """The DOM writer method that writes one content section: the one that looks up ``write_<name>`` on the streaming
    writer (found by that lookup, whatever the method is called)."""
    found = []
    for c in dw.repo_mro():
        for m in c.methods.values():
            for n in ast.walk(m.node):
                if isinstance(n, ast.Constant) and isinstance(n.value, str) and n.value.startswith('write_') and '%' in n.value:
                    if m not in found:
                        found.append(m)
                if isinstance(n, ast.JoinedStr) and n.values and isinstance(n.values[0], ast.Constant) and str(n.values[0].value).startswith('write_'):
                    if m not in found:
                        found.append(m)
    return found[0] if len(found) == 1 else None


def find_remap_table(P, dw):
    """The DOM writer's option rename table, found by its shape wherever it is kept and whatever it is called: a
    class-level (or module-level) constant mapping section names to {option name: streaming-writer keyword}."""
    cands = {}
    holders = [(c, n) for c in dw.repo_mro() for n in c.attrs]
    for c, n in holders:
        try:
            v = P.fold_class_attr(c, n)
        except Exception:
            continue
        if isinstance(v, dict) and v and all(isinstance(k, str) and isinstance(x, dict) and x and
                                             all(isinstance(a, str) and isinstance(b, str) for a, b in x.items()) for k, x in v.items()):
            cands[n] = v
    for n, expr in dw.module.assigns.items():
        try:
            v = P.fold_module_const(dw.module.name, n)
        except Exception:
            continue
        if isinstance(v, dict) and v and all(isinstance(k, str) and isinstance(x, dict) and x and
                                             all(isinstance(a, str) and isinstance(b, str) for a, b in x.items()) for k, x in v.items()):
            cands[n] = v
    if len(cands) > 1:
        raise AnalysisError('several candidate option rename tables in the DOM writer: %s' % sorted(cands))
    return next(iter(cands.values())) if cands else {}


def reemit_rule(P, D, rep, rid, dw, remap):
    """Abstractly run the DOM writer's per-section entry on a tree in which one section stores an unknown value for
    every typed option; the streaming-writer call made for that section (recorded by stubs) must receive each
    stored value, under the renamed keyword, on every path."""
    from sa.values import ADict, AObj, Unk
    wcls = P.cls('pydiffx.writer', 'DiffXWriter')
    entry = dw.find_method('write_stream')
    if entry is None:
        raise AnalysisError('DiffXDOMWriter.write_stream not found (anchor vanished)')
    wfuncs = [m for n, m in wcls.methods.items() if n.startswith(('write_', 'new_')) or n == '__init__']
    getters = set()
    for cname in SECTION_CLASSES:
        for c in D.classes[cname].repo_mro():
            if 'content' in c.props and c.props['content'].get('get') is not None:
                getters.add(c.props['content']['get'])
    for cname in SECTION_CLASSES:
        cls = D.classes[cname]
        sname = P.fold_class_attr(cls, 'section_name') if cname != 'DiffX' else None
        rm = (remap or {}).get(sname, {})
        I = Interp(P)
        topts = sorted(typed_options(P, D, cls))
        dropped = set()
        skipped = set()
        npaths = 0
        calls = []

        def rec(I_, fi_, args, kwargs, node, calls=calls):
            calls.append((fi_.name, list(args), dict(kwargs)))
            return None
        for m in wfuncs:
            I.stubs[m.qualname] = rec

        contents = {}

        def content_stub(I_, fi_, args, kwargs, node, contents=contents):
            key = id(args[0])
            if key not in contents:
                u = Unk('content', taint=['ARG'])
                u.facts.add('truthy')
                contents[key] = u
            return contents[key]
        for g in getters:
            I.stubs[g.qualname] = content_stub
        state_ = {}
        want = '__init__' if cname == 'DiffX' else '%s%s' % ('new_' if cname in CONTAINER else 'write_', sname)

        def thunk():
            del calls[:]
            contents.clear()
            objs = D.build_tree(I)
            o = objs[cname]
            state_['o'] = o
            vals = {k: Unk('stored:%s' % k, taint=['ARG']) for k in topts}
            o.attrs['options'] = ADict(dict(vals), name='options')
            root = objs['DiffX']
            if o is not root:
                # the file's own encoding is unknown too (a section's value may or may not equal it)
                root.attrs['options'] = ADict({'version': '1.0', 'encoding': Unk('stored:main-encoding', taint=['ARG'])}, name='options')
            w = I.instantiate(dw, [], {}, None)
            from sa.values import AStream
            I.frames = []
            I.call_function(entry, [w, root, AStream('out', taint=())], {}, None, self_cls=dw)
            return vals, list(calls)
        for path in I.explore(thunk):
            npaths += 1
            if npaths > 6000:
                raise AnalysisError('too many paths in the DOM writer for %s' % cname)
            if path.outcome != 'return':
                continue
            vals, got = path.value
            mine = [g for g in got if g[0] == want]
            if want.startswith('write_'):
                c_ = contents.get(id(state_['o']))
                mine = [g for g in mine if len(g[1]) > 1 and g[1][1] is c_]
            if not mine:
                # the section holds (non-empty) content / is part of the tree, and on this path nothing is written for it
                skipped.add(', '.join(g[0] for g in got))
                continue
            if len(mine) != 1:
                raise AnalysisError('DOM writer: expected one %s call for a %s, saw %s' % (want, cname, [g[0] for g in got]))
            kw = mine[0][2]
            for k, v in vals.items():
                tk = rm.get(k, k)
                if kw.get(tk) is not v:
                    dropped.add(k)
        if not npaths:
            raise AnalysisError('DOM writer: no path for %s' % cname)
        if skipped:
            rep.violation(rid, 'not-emitted:%s' % cname, entry.loc(),
                          'a %s section of the tree with non-empty content is not written on some path through the DOM writer (no %s '
                          'call for it; calls made: %s): whether it reaches the file depends on a condition on its content or options'
                          % (cname, want, sorted(skipped)[0][:120]), path=[dw.name + '.write_stream'])
        elif dropped:
            rep.violation(rid, 'option-dropped:%s:%s' % (cname, ','.join(sorted(dropped))), entry.loc(),
                          'for %s sections the DOM writer can call %s without the stored option(s) %s, depending on their value (e.g. a '
                          'falsy value such as indent=0, or a value equal to some other section\'s): the streaming writer\'s default / '
                          'inherited value is applied instead and the file differs from the tree' % (cname, want, sorted(dropped)),
                          path=[dw.name + '.write_stream'])
        else:
            rep.ok(rid, cname, {'options': topts, 'paths': npaths})


def run(P, rep, tier):
    rep.explanation = (
        'Tree equality after a write/parse cycle is a runtime statement and is NOT decided. Decided: the tables of the two '
        'layers agree. R1 every typed option of every section class maps (after the DOM writer\'s rename table) to a keyword '
        'parameter of the streaming-writer method selected for that class, and class default options are typed options; R2 '
        'the DOM reader\'s handler table is exhaustive over the 9 section ids (= keys of the transition table); R3 the '
        'dynamic new_<name>/write_<name> dispatch resolves for every section class; R4 section ids computed by the object '
        'model for a constructed tree are legal ids and the content/container split matches CONTENT_SECTIONS; R5 the DOM '
        'reader drops the length option and nothing else; R6 choice sets agree between descriptors, the streaming writer\'s '
        'validation and options.py; R7 encoding scopes of writer and reader agree over all histories (K1).')
    rep.undecided = 'equality of the parsed tree with the original (content, options) on concrete trees'
    rep.trusted_base += ['descriptor / getattr dispatch semantics']
    D = DomRoles(P)
    wcls = P.cls('pydiffx.writer', 'DiffXWriter')
    dw = P.cls('pydiffx.dom.writer', 'DiffXDOMWriter')
    dr = P.cls('pydiffx.dom.reader', 'DiffXDOMReader')
    remap = find_remap_table(P, dw)
    for c in (dw, dr):
        for f in c.methods.values():
            rep.analysed(f)
    r1 = rep.rule('C05-R1', 'typed options map onto keyword parameters of the selected streaming-writer method', reference=13)
    r3 = rep.rule('C05-R3', 'new_<name> / write_<name> dispatch resolves for every section class', reference=5)
    for cname in SECTION_CLASSES:
        cls = D.classes[cname]
        m, mname = writer_method_for(P, D, cls, wcls)
        if m is None:
            rep.violation(r3, 'dispatch:%s' % cname, '%s:%d' % (cls.module.relpath, cls.node.lineno),
                          'the DOM writer dispatches %s sections to DiffXWriter.%s, which does not exist' % (cname, mname))
            continue
        if cname != 'DiffX':
            rep.ok(r3, '%s -> %s' % (cname, mname))
        params = set(m.params()[1:]) | {a.arg for a in m.node.args.kwonlyargs}
        sname = P.fold_class_attr(cls, 'section_name')
        rm = remap.get(sname, {}) if isinstance(remap, dict) else {}
        topts = typed_options(P, D, cls)
        for opt, (attr, dcls) in sorted(topts.items()):
            target = rm.get(opt, opt)
            if target in params or m.has_varkw():
                rep.ok(r1, '%s.%s -> %s(%s=)' % (cname, attr, mname, target))
            else:
                rep.violation(r1, 'option-not-accepted:%s:%s' % (cname, opt), m.loc(),
                              'option %r of %s is passed to %s as keyword %r, which that method does not accept: serialising a tree '
                              'that sets it raises TypeError' % (opt, cname, mname, target), path=[dw.name + '._get_options', mname])
        try:
            defaults = P.fold_class_attr(cls, 'default_options')
        except Unfoldable:
            defaults = {}
        for k in defaults:
            if k in topts:
                rep.ok(r1, '%s default option %s is typed' % (cname, k))
            else:
                rep.violation(r1, 'untyped-default:%s:%s' % (cname, k), '%s:%d' % (cls.module.relpath, cls.node.lineno),
                              'default option %r of %s has no typed attribute' % (k, cname))
    rep.floor(r1, 10)

    # ---- R8 every stored option is re-emitted -------------------------------------------------
    r8 = rep.rule('C05-R8', 'the DOM writer passes on every stored option (whatever its value) to the streaming writer', reference=6)
    reemit_rule(P, D, rep, r8, dw, remap)

    # ---- R2 handler table ---------------------------------------------------------------------
    r2 = rep.rule('C05-R2', 'DOM reader handler table is exhaustive over the 9 section ids', reference=9)
    parse = dr.find_method('parse')
    if parse is None:
        raise AnalysisError('DiffXDOMReader.parse not found (anchor vanished)')
    # the handler table: a dict display keyed by section ids, wherever the class builds it
    # (in parse itself, in a helper method, or as a class attribute)
    tables = []
    holders = [(f, f.node) for c in dr.repo_mro() for f in c.methods.values()]
    for c in dr.repo_mro():
        for an, expr in c.attrs.items():
            holders.append((parse, expr))
    for an, expr in dr.module.assigns.items():
        holders.append((parse, expr))          # a module-level table of handlers / handler names
    for f, root in holders:
        for n in (walk_no_nested(root) if isinstance(root, (ast.FunctionDef, ast.AsyncFunctionDef)) else ast.walk(root)):
            if isinstance(n, ast.Dict) and n.keys and all(k is not None for k in n.keys):
                try:
                    keys = [P.fold(k, f.module, dr) for k in n.keys]
                except Unfoldable:
                    continue
                if any(k in SPEC_IDS for k in keys):
                    tables.append((keys, n.values))
    if len(tables) != 1:
        raise AnalysisError('expected exactly one section handler table in DiffXDOMReader, found %d (idiom not recognised)' % len(tables))
    table = tables[0]
    vss = P.fold_module_const('pydiffx.sections', 'VALID_SECTION_STATES')
    for sid in SPEC_IDS:
        if sid in table[0]:
            v = table[1][table[0].index(sid)]
            hname = v.attr if isinstance(v, ast.Attribute) else (v.value if isinstance(v, ast.Constant) and isinstance(v.value, str) else None)
            ok = hname is not None and dr.find_method(hname) is not None
            if ok:
                rep.ok(r2, '%s -> %s' % (sid, hname))
            else:
                rep.violation(r2, 'handler-unresolved:%s' % sid, parse.loc(v), 'handler of %s does not resolve to a method' % sid)
        else:
            rep.violation(r2, 'handler-missing:%s' % sid, parse.loc(), 'no handler for section id %r: parsing a file containing it raises KeyError' % sid)
    if set(vss) != set(SPEC_IDS):
        rep.violation(r2, 'vss-keys', 'python/pydiffx/sections.py', 'transition table keys %s differ from the 9 legal ids' % sorted(vss))

    # ---- R4 ids of a constructed tree ------------------------------------------------------------
    r4 = rep.rule('C05-R4', 'section ids of a constructed tree are legal; content/container split matches CONTENT_SECTIONS', reference=8)
    content_ids = P.fold_module_const('pydiffx.sections', 'CONTENT_SECTIONS')
    I = Interp(P)
    done = False
    for path in I.explore(lambda: D.build_tree(I)):
        if path.outcome != 'return':
            raise AnalysisError('building a tree raises')
        objs = all_objects(path.value['DiffX'])
        for o in objs:
            sid = o.attrs.get('section_id')
            if o.cls.name == 'DiffX':
                rep.info('the root section_id folds to %r (DiffX sets no section_name); nothing dispatches on it' % (sid,))
                continue
            is_content = o.cls.name not in CONTAINER
            if sid not in SPEC_IDS:
                rep.violation(r4, 'illegal-id:%s:%s' % (o.cls.name, sid), '%s:%d' % (o.cls.module.relpath, o.cls.node.lineno),
                              '%s objects get the section id %r, which is not a legal id' % (o.cls.name, sid))
            elif (sid in content_ids) != is_content:
                rep.violation(r4, 'split:%s' % sid, '%s:%d' % (o.cls.module.relpath, o.cls.node.lineno),
                              'id %r is %sa content id but %s is %sa content section class' % (sid, '' if sid in content_ids else 'not ',
                                                                                          o.cls.name, '' if is_content else 'not '))
            else:
                rep.ok(r4, '%s id %s' % (o.cls.name, sid))
        done = True
        break
    if not done:
        raise AnalysisError('tree construction produced no path')

    # ---- R9 one list per child ---------------------------------------------------------------------------
    r9 = rep.rule('C05-R9', 'in a constructed tree every child section is an element of at most one list of its parent '
                  '(no second, separately stored list that goes stale when the first is edited)', reference=3)
    I9 = Interp(P)
    done9 = False
    for path in I9.explore(lambda: D.build_tree(I9)):
        if path.outcome != 'return':
            raise AnalysisError('building a tree raises')
        from sa.values import AList as _AList, AObj as _AObj
        for o in all_objects(path.value['DiffX']):
            lists = [(k, v) for k, v in o.attrs.items() if isinstance(v, _AList)]
            dup = {}
            for k, v in lists:
                for it in v.items:
                    if isinstance(it, _AObj):
                        dup.setdefault(id(it), (it, []))[1].append(k)
            bad = sorted({tuple(ks) for it, ks in dup.values() if len(ks) > 1})
            if bad:
                rep.violation(r9, 'two-lists:%s:%s' % (o.cls.name, '/'.join(bad[0])), '%s:%d' % (o.cls.module.relpath, o.cls.node.lineno),
                              '%s keeps the same child sections in the separately stored lists %s: editing one of them (sorting, '
                              'removing, inserting) leaves the other stale, so what is written or compared is not the tree the caller sees'
                              % (o.cls.name, list(bad[0])), path=[o.cls.name])
            elif lists:
                rep.ok(r9, o.cls.name, [k for k, _ in lists])
        done9 = True
        break
    if not done9:
        raise AnalysisError('tree construction produced no path')

    # ---- R5 length is the only option dropped -----------------------------------------------------
    r5 = rep.rule('C05-R5', 'the DOM reader drops "length" from stored options and nothing else; only empty content is skipped', reference=2)
    from sa.props.c06 import verbatim_rule
    verbatim_rule(P, rep, r5)
    skip_rule(P, D, rep, r5, dw, wcls)

    # ---- R6 choice sets ------------------------------------------------------------------------------
    r6 = rep.rule('C05-R6', 'choice sets agree: descriptors, streaming-writer validation, options.py', reference=5)
    om = P.module('pydiffx.options')
    sets_by_cls = {c.name: frozenset(P.fold_class_attr(c, 'VALID_VALUES')) for c in om.classes.values() if 'VALID_VALUES' in c.attrs}
    # writer validation: "<param> not in X.VALID_VALUES"
    wsets = {}
    for f in wcls.methods.values():
        for n in walk_no_nested(f.node):
            if isinstance(n, ast.Compare) and isinstance(n.ops[0], ast.NotIn) and isinstance(n.left, ast.Name):
                try:
                    wsets[n.left.id] = frozenset(P.fold(n.comparators[0], f.module, wcls))
                except (Unfoldable, TypeError):
                    pass
    pmap_ = {'type': 'diff_type', 'format': 'meta_format'}
    for c in [k for k in P.all_classes() if D.option_property in k.mro() and k is not D.option_property]:
        ch = P.fold_class_attr(c, 'choices')
        if not ch:
            continue
        on = P.fold_class_attr(c, 'option_name')
        wname = pmap_.get(on, on)
        if wname in wsets:
            if frozenset(ch) == wsets[wname]:
                rep.ok(r6, '%s choices = writer validation of %s' % (c.name, wname))
            else:
                rep.violation(r6, 'choices:%s' % on, '%s:%d' % (c.module.relpath, c.node.lineno),
                              'typed attribute %r allows %s but the streaming writer validates %s against %s' %
                              (on, sorted(ch), wname, sorted(wsets[wname])))
        else:
            rep.info('streaming writer has no membership validation for %s' % wname)
    # ---- R7 scopes -------------------------------------------------------------------------------------
    from sa.props.c04 import reader_scope_rule, writer_scope_rule
    r7a = rep.rule('C05-R7r', 'reader encoding scopes follow the nesting oracle (K1)', reference=286)
    r7b = rep.rule('C05-R7w', 'writer encoding scopes follow the same oracle (K1)', reference=20)
    reader_scope_rule(P, rep, r7a)
    writer_scope_rule(P, rep, r7b)
