"""C08 - reader error contract: any bytes give records or a positioned parse error."""
import ast

from sa.model import AnalysisError, ClassInfo, norm, walk_no_nested
from sa.roles import ReaderRoles, SPEC_IDS
from sa.harness import ReaderHarness, Script
from sa.interp import Interp, Frame, exc_name, exc_ancestors
from sa.values import ADict, AList, AObj, AStream, ExcValue, Unk, concrete, taint_of
from sa.dom import DomReaderHarness, capture_record_shapes, materialise_record, DomRoles
from sa.props.c10 import allowed_var, main_loop
from sa.props.c11 import input_dependent
from sa import summary

_CTX = None

# Reasoned suppressions: (function, construct, exception) -> why it cannot happen, and which check proves it.
SUPPRESS = {
    ('split_lines', 'assert newline', 'AssertionError'):
        'the newline handed to split_lines is the BOM-stripped encoding of LF/CRLF, non-empty by C15-R2 (every BOM row leaves a non-empty newline)',
}


def _collect(paths, R, allowed_fn):
    """(sites that may let a foreign exception escape, proved/handled sinks)."""
    bad = {}
    ok = set()
    for p in paths:
        for ev in p.events:
            if ev.kind == 'mayraise':
                key = (ev.fn, norm(ev.node)[:90], exc_name(ev.data['exc']))
                if ev.data['caught']:
                    ok.add(key)
                    continue
                if not input_dependent(ev.data.get('operands', ())):
                    continue
                if allowed_fn(ev.data['exc']):
                    continue
                if (key[0], key[1], key[2]) in SUPPRESS:
                    ok.add(key)
                    continue
                bad.setdefault(key, (ev.loc, ev.data['why'], ev.callpath()))
        if p.outcome == 'raise':
            e = p.value
            if not allowed_fn(e.exc.exc):
                st = getattr(e, 'origin_stack', None) or ()
                fn = st[-1].short if st else '?'
                loc = '%s:%d' % (st[-1].module.relpath, getattr(e.site, 'lineno', 0)) if st else '?'
                key = (fn, 'explicit raise' if e.explicit else (norm(e.site)[:90] if e.site is not None else '?'), e.exc.exc_name)
                bad.setdefault(key, (loc, e.note or ('explicit raise' if e.explicit else ''), [f.short for f in st]))
    return bad, ok


def ctor_rule(P, rep, rid):
    """DiffXParseError(msg, linenum, column) with a message that echoes input text: constructing the error must not
    itself raise (e.g. by using the message as a %-format string)."""
    pe = P.cls('pydiffx.errors', 'DiffXParseError')
    init = pe.find_method('__init__')
    I = Interp(P)
    st = {}

    def thunk():
        o = AObj(pe)
        msg = Unk('msg', kinds=['str'], taint=['INPUT'])
        ln = Unk('linenum', kinds=['int'], taint=['INPUT'])
        kw = {'linenum': ln}
        c = I.choose(2, 'column')
        if c == 1:
            kw['column'] = Unk('column', kinds=['int'], taint=['INPUT'])
        I.frames = []
        I.call_function(init, [o, msg], kw, None, self_cls=pe)
        return o
    bad = {}
    n = 0
    for path in I.explore(thunk):
        n += 1
        if n > 200:
            raise AnalysisError('too many paths in DiffXParseError.__init__')
        for ev in path.events:
            if ev.kind == 'mayraise' and not ev.data['caught']:
                bad.setdefault((exc_name(ev.data['exc']), norm(ev.node)[:70]), (ev, ev.data['why']))
        if path.outcome == 'raise':
            e = path.value
            bad.setdefault((e.exc.exc_name, norm(e.site)[:70] if e.site is not None else '?'), (None, e.note or 'raise'))
    for (exn, txt), (ev, why) in sorted(bad.items()):
        rep.violation(rid, 'error-ctor-raises:%s:%s' % (exn, txt), ev.loc if ev is not None else init.loc(),
                      'constructing DiffXParseError with a message that echoes input can itself raise %s at [%s] (%s): the caller gets that '
                      'exception instead of the parse error' % (exn, txt, why), path=[init.short])
    if not bad:
        rep.ok(rid, 'DiffXParseError.__init__ cannot raise on (text, int, int|None)', {'paths': n})


def _task(X):
    P, R, table, var, loop, stubs = _CTX[:6]
    # the header path itself is analysed with 0..2 option pairs by C11-R2; here one abstract pair suffices
    H = ReaderHarness(P, R, havoc=True, stub_content=False, unknown_iters=_CTX[6])
    H.extra_stubs = stubs
    from sa.props.reader_rules import history_script
    pre, nh = history_script(table, X)
    paths, exceeded = H.paths(pre + [Script(X, options='unknown')], max_paths=30000, det_prefix=nh)
    from sa.model import Regex as _Regex
    for p_ in paths:
        for e_ in getattr(p_, 'full_events', p_.events):
            if e_.kind == 'regex-apply' and R.header_fn in e_.stack and not isinstance(concrete(e_.data['regex']), _Regex):
                raise AnalysisError('a regular expression applied in the header parser is not a foldable constant (%s)' % norm(e_.node)[:60])
    bad, ok = _collect(paths, R, lambda exc: exc_name(exc) == 'DiffXParseError')
    explicit = set()
    for p in paths:
        for ev in p.events:
            if ev.kind == 'raise' and not ev.data.get('implicit'):
                explicit.add((ev.fn, ev.loc, exc_name(ev.data['exc'])))
    return {'id': X, 'paths': len(paths), 'exceeded': exceeded,
            'bad': {k: v for k, v in bad.items()}, 'ok': sorted(ok), 'explicit': sorted(explicit),
            'yields': sum(1 for p in paths if sum(1 for e in p.events if e.kind == 'yield') > nh)}


_DOMCTX = None


def _dom_task(sid):
    P, R, prefixes = _DOMCTX
    seq = prefixes[sid]
    I = Interp(P)
    H = DomReaderHarness(P, seq, open_options=False)
    it = H.sr.find_method('iter_sections')

    def stub(I_, fi, args, kwargs, node, seq=seq):
        recs = [materialise_record(s_, sh_, open_options=(j == len(seq) - 1), index=j) for j, (s_, sh_) in enumerate(seq)]
        return AList(recs)
    I.stubs[it.qualname] = stub

    def thunk():
        rd = H.new_reader(I)
        tree, st = H.run_parse(I, rd, 'in')
        return tree
    paths = []
    try:
        for path in I.explore(thunk):
            paths.append(path)
            if len(paths) > 30000:
                raise AnalysisError('too many paths loading a %s record' % sid)
    except AnalysisError as e:
        return {'id': sid, 'error': str(e)}
    bad, ok = _collect(paths, R, lambda exc: 'BaseDiffXError' in exc_ancestors(exc) if isinstance(exc, ClassInfo) else False)
    return {'id': sid, 'bad': bad, 'paths': len(paths)}


def run(P, rep, tier):
    rep.explanation = (
        'Exception-escape analysis. R1a: for each of the 9 section ids the reader generator is abstractly executed for one '
        'iteration from the loop state in which that id is allowed (header bytes, option keys/values and content are '
        'INPUT-tainted unknowns; object state havocked; the content function inlined; utils/text.py summarised per call '
        'signature). Every sink-table operation on input-dependent operands that no enclosing handler catches, and every '
        'explicit raise, must be DiffXParseError. R1b: the same for DiffX.from_stream: the DOM handlers are run on abstract '
        'records (open option mappings on the record under test) and only BaseDiffXError subclasses may escape. R2: the '
        'stream handed to the DOM parse is closed on every exit of the parse function itself. R3: DiffXParseError stores '
        'the very linenum/column it formats (+1), and no raise site passes a literal line number.')
    rep.undecided = ('termination (argued: every iteration consumes at least one byte or returns) and that linenum lies within the '
                     'input; resource exhaustion (MemoryError, RecursionError) is outside the claim')
    rep.trusted_base += ['sink table of sa/calls.py and sa/models.py (operations that can raise on input-dependent operands)',
                         'encoding-stack heights proved by C04; read-ahead post-condition proved by C17']
    R = ReaderRoles(P)
    rep.analysed(*R.funcs)
    table = P.fold_module_const('pydiffx.sections', 'VALID_SECTION_STATES')
    var, loop = None, None        # sections are analysed after real histories: no loop-state injection
    stubs = summary.stubs_for(P, summary.text_utils(P))
    global _CTX
    _CTX = (P, R, table, var, loop, stubs, (1,) if tier == 'quick' else (0, 1, 2))
    from sa.par import pmap
    results = pmap(_task, list(SPEC_IDS))
    r1 = rep.rule('C08-R1a', 'streaming reader: only DiffXParseError can escape (per section id, one iteration from any state)', reference=60)
    allbad = {}
    total = 0
    for res in results:
        total += res['paths']
        if res['exceeded']:
            raise AnalysisError('path budget exceeded for section %s' % res['id'])
        if not res['yields']:
            raise AnalysisError('no path yields a record for %s' % res['id'])
        for k, v in res['bad'].items():
            allbad.setdefault(k, (v, res['id']))
        for k in res['ok']:
            rep.ok(r1, '%s: %s handled at %s [%s]' % (res['id'], k[2], k[0], k[1][:50]))
        for fn, loc, exc in res['explicit']:
            if exc == 'DiffXParseError':
                rep.ok(r1, '%s: explicit %s at %s' % (res['id'], exc, loc))
    rep.extra['paths_explored_reader'] = total
    rep.extra['suppressions'] = [{'site': list(k), 'reason': v} for k, v in SUPPRESS.items()]
    for (fn, txt, exc), ((loc, why, cpath), sid) in sorted(allbad.items(), key=str):
        rep.violation(r1, 'escape:%s|%s|%s' % (fn, exc, txt), loc,
                      '%s can escape from iterating the reader (section %s): [%s] in %s - %s' % (exc, sid, txt, fn, why), path=cpath)
    rep.floor(r1, 20)

    D = DomRoles(P)
    # ---- R2 stream closed ---------------------------------------------------------------
    r2 = rep.rule('C08-R2', 'the stream handed to the DOM parse is closed on every exit', reference=2)
    rcls = P.cls('pydiffx.dom.reader', 'DiffXDOMReader')
    parse = rcls.find_method('parse')
    fs = D.diffx.find_method('from_stream')
    fb = D.diffx.find_method('from_bytes')
    if parse is None or fs is None or fb is None:
        raise AnalysisError('from_stream / from_bytes / parse not found (anchor vanished)')
    rep.analysed(parse, fs, fb)
    sp = parse.params()[1]
    problems = _closing_problems(P, parse, sp, rcls)
    if problems:
        rep.violation(r2, 'stream-not-closed', parse.loc(), 'DiffXDOMReader.parse: %s' % '; '.join(problems), path=[fs.short, parse.short])
    else:
        rep.ok(r2, parse.short, 'every use of the stream lies inside "with <stream>:" (or try/finally close) in the parse function itself')
    # from_stream / from_bytes hand the stream over unchanged
    ok_chain = False
    for n in walk_no_nested(fs.node):
        if isinstance(n, ast.Call) and isinstance(n.func, ast.Attribute) and n.func.attr == parse.name:
            if any(isinstance(a, ast.Name) and a.id == fs.params()[1] for a in n.args):
                ok_chain = True
    if ok_chain:
        rep.ok(r2, fs.short, 'passes its stream to parse()')
    else:
        rep.violation(r2, 'from-stream-chain', fs.loc(), 'from_stream does not hand its stream to DiffXDOMReader.parse')

    # ---- R3 error attributes ----------------------------------------------------------------
    r3 = rep.rule('C08-R3', 'DiffXParseError stores the linenum/column it formats; raise sites pass computed line numbers', reference=12)
    pe = P.cls('pydiffx.errors', 'DiffXParseError')
    init = pe.find_method('__init__')
    if init is None:
        raise AnalysisError('DiffXParseError.__init__ not found')
    stores = {}
    for n in walk_no_nested(init.node):
        if isinstance(n, ast.Assign):
            for t in n.targets:
                if isinstance(t, ast.Attribute) and isinstance(t.value, ast.Name) and t.value.id == 'self':
                    stores[t.attr] = n.value
    for attr in ('linenum', 'column'):
        v = stores.get(attr)
        if isinstance(v, ast.Name) and v.id == attr and not _reassigned(init, attr):
            rep.ok(r3, 'self.%s = %s' % (attr, attr))
        else:
            rep.violation(r3, 'attr:%s' % attr, init.loc(), 'DiffXParseError.%s is not the unmodified %s argument (stored: %s): message and attribute disagree'
                          % (attr, attr, norm(v) if v is not None else 'nothing'))
    fmt = [norm(n) for n in walk_no_nested(init.node) if isinstance(n, ast.BinOp) and isinstance(n.op, ast.Add)]
    for n in walk_no_nested(init.node):
        # (x or 0) + 1 and similar: the operand mentions the argument, the addend is 1
        if isinstance(n, ast.BinOp) and isinstance(n.op, ast.Add) and isinstance(n.right, ast.Constant) and n.right.value == 1:
            for x in ast.walk(n.left):
                if isinstance(x, ast.Name) and x.id in ('linenum', 'column'):
                    fmt.append('%s + 1' % x.id)
    # the 1-based rendering may sit in a helper the constructor hands the two numbers to: follow one call level,
    # renaming the helper's parameters back to the constructor's
    for n in walk_no_nested(init.node):
        if not isinstance(n, ast.Call):
            continue
        try:
            r_ = P.resolve_call(init, n, self_cls=pe)
        except Exception:
            r_ = None
        callee = r_[0] if isinstance(r_, list) and r_ else (r_ if hasattr(r_, 'node') and hasattr(r_, 'params') else None)
        if callee is None or callee is init:
            continue
        ps = callee.params()
        if ps and ps[0] in ('self', 'cls') and callee.kind != 'staticmethod':
            ps = ps[1:]
        ren = {}
        for i_, a_ in enumerate(n.args):
            if isinstance(a_, ast.Name) and a_.id in ('linenum', 'column') and i_ < len(ps):
                ren[ps[i_]] = a_.id
        for kw_ in n.keywords:
            if kw_.arg and isinstance(kw_.value, ast.Name) and kw_.value.id in ('linenum', 'column'):
                ren[kw_.arg] = kw_.value.id
        for m_ in walk_no_nested(callee.node):
            if isinstance(m_, ast.BinOp) and isinstance(m_.op, ast.Add) and isinstance(m_.left, ast.Name) and m_.left.id in ren \
                    and isinstance(m_.right, ast.Constant) and m_.right.value == 1 and not _reassigned(callee, m_.left.id):
                fmt.append('%s + 1' % ren[m_.left.id])
    for attr in ('linenum', 'column'):
        if any(x.replace(' ', '') in ('%s+1' % attr,) for x in fmt):
            rep.ok(r3, 'message shows %s + 1' % attr)
        else:
            rep.violation(r3, 'message:%s' % attr, init.loc(), 'the message does not show %s + 1 (1-based) for the stored 0-based %s' % (attr, attr))
    ctor_rule(P, rep, r3)
    n_sites = 0
    for f in R.funcs + [parse]:
        for n in walk_no_nested(f.node):
            if isinstance(n, ast.Raise) and isinstance(n.exc, ast.Call) and norm(n.exc.func).endswith('DiffXParseError'):
                n_sites += 1
                ln = None
                for kw in n.exc.keywords:
                    if kw.arg == 'linenum':
                        ln = kw.value
                if ln is None and len(n.exc.args) > 1:
                    ln = n.exc.args[1]
                if ln is None or isinstance(ln, ast.Constant):
                    rep.violation(r3, 'raise-linenum:%s:%s' % (f.short, norm(n.exc)[:40]), f.loc(n),
                                  'DiffXParseError raised with %s as line number' % (norm(ln) if ln is not None else 'no'))
                else:
                    rep.ok(r3, '%s line %d: linenum=%s' % (f.short, n.lineno, norm(ln)))
    rep.floor(r3, 8)

    # ---- R1b DOM load ----------------------------------------------------------------
    r1b = rep.rule('C08-R1b', 'object-model load: only errors of the library\'s own family can escape', reference=20)
    base_err = P.cls('pydiffx.errors', 'BaseDiffXError')
    shapes = capture_record_shapes(P)
    prefixes = {}
    for i, (sid, sh) in enumerate(shapes):
        if sid not in prefixes:
            prefixes[sid] = shapes[:i + 1]
    dombad = {}
    global _DOMCTX
    _DOMCTX = (P, R, prefixes)
    for sid in SPEC_IDS:
        if sid not in prefixes:
            raise AnalysisError('no record prefix reaching %s' % sid)
    for res in pmap(_dom_task, list(SPEC_IDS)):
        if res.get('error'):
            if rep.violations:
                rep.info('DOM load of %s not analysable (%s); other rules already report violations' % (res['id'], res['error']))
                continue
            raise AnalysisError(res['error'])
        for k, v in res['bad'].items():
            dombad.setdefault(k, (v, res['id']))
        if not res['bad']:
            rep.ok(r1b, 'records ending in %s' % res['id'], {'paths': res['paths']})
    # the streaming reader rejecting the input (before the first record) must surface as what it raised
    Ie = Interp(P)
    He = DomReaderHarness(P, shapes, open_options=False)
    pe_ = P.cls('pydiffx.errors', 'DiffXParseError')
    it_ = He.sr.find_method('iter_sections')

    def raising_reader(I_, fi, args, kwargs, node):
        from sa.interp import AbsRaise
        raise AbsRaise(ExcValue(pe_, (Unk('msg', kinds=['str'], taint=['INPUT']),), {'linenum': Unk('n', kinds=['int'])}, site=node),
                       site=node, explicit=True, note='the streaming reader rejects the input')
    Ie.stubs[it_.qualname] = raising_reader

    def load_rejected():
        rd = He.new_reader(Ie)
        return He.run_parse(Ie, rd, 'in')
    ne = 0
    for path in Ie.explore(load_rejected):
        ne += 1
        if ne > 200:
            break
        if path.outcome == 'raise':
            e = path.value
            anc = exc_ancestors(e.exc.exc) if isinstance(e.exc.exc, ClassInfo) else [e.exc.exc_name]
            if 'BaseDiffXError' not in anc:
                st_ = getattr(e, 'origin_stack', None) or ()
                loc_ = ('%s:%d' % (st_[-1].module.relpath, getattr(e.site, 'lineno', 0))) if st_ else '?'
                why_ = e.note or 'raised while the parse error of the streaming reader propagates'
                key_ = (st_[-1].short if st_ else '?', norm(e.site)[:90] if e.site is not None else '?', e.exc.exc_name)
                dombad.setdefault(key_, ((loc_, why_, [f.short for f in st_]), 'rejected input'))
        elif path.outcome == 'return':
            dombad.setdefault(('DiffXDOMReader.parse', 'return', 'no exception'), (('%s' % He.parse.loc(), 'the parse error of the streaming reader is swallowed', [He.parse.short]), 'rejected input'))
    if ne:
        rep.ok(r1b, 'streaming reader rejects the input before the first record', {'paths': ne}) if not any(v[1] == 'rejected input' for v in dombad.values()) else None
    for (fn, txt, exc), ((loc, why, cpath), sid) in sorted(dombad.items(), key=str):
        rep.violation(r1b, 'dom-escape:%s|%s|%s' % (fn, exc, txt), loc,
                      '%s can escape from DiffX.from_stream/from_bytes while loading a %s section: [%s] in %s - %s'
                      % (exc, sid, txt, fn, why), path=cpath)


def _reassigned(fi, name):
    for n in walk_no_nested(fi.node):
        if isinstance(n, (ast.Assign, ast.AugAssign)):
            tg = n.targets if isinstance(n, ast.Assign) else [n.target]
            for t in tg:
                if isinstance(t, ast.Name) and t.id == name:
                    return True
    return False


def _closing_problems(P, fi, param, cls):
    """Uses of the stream parameter outside a closing construct in fi."""
    probs = []
    body = fi.node.body

    def uses(node):
        return [n for n in ast.walk(node) if isinstance(n, ast.Name) and n.id == param and isinstance(n.ctx, ast.Load)]

    def protected_blocks(stmts):
        out = []
        for s in stmts:
            if isinstance(s, ast.With):
                if any(isinstance(i.context_expr, ast.Name) and i.context_expr.id == param for i in s.items):
                    out.append(s)
            if isinstance(s, ast.Try) and s.finalbody:
                if any(isinstance(n, ast.Call) and isinstance(n.func, ast.Attribute) and n.func.attr == 'close' and
                       isinstance(n.func.value, ast.Name) and n.func.value.id == param for x in s.finalbody for n in ast.walk(x)):
                    out.append(s)
        return out
    prot = protected_blocks(body)
    inside = set()
    for b in prot:
        for n in ast.walk(b):
            inside.add(id(n))
    outside = [u for s in body for u in uses(s) if id(u) not in inside]
    if not prot:
        probs.append('no "with <stream>:" / try-finally close around the parse in this function')
    for u in outside:
        probs.append('the stream is used at line %d outside the closing construct' % u.lineno)
    # passing the stream to a generator defers closing to generator finalisation
    for n in walk_no_nested(fi.node):
        if isinstance(n, ast.Call):
            r = P.resolve_call(fi, n, self_cls=cls)
            if isinstance(r, list) and any(isinstance(a, ast.Name) and a.id == param for a in n.args):
                for g in r:
                    if any(isinstance(x, (ast.Yield, ast.YieldFrom)) for x in ast.walk(g.node)):
                        if not any(id(n) in inside for _ in [0]):
                            probs.append('the stream is handed to the generator %s: it is closed only when that generator is '
                                         'finalised, not when parse() exits with an error' % g.short)
    return probs
