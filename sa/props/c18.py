"""C18 - object-model instances are isolated and observers do not mutate."""
import ast

from sa.model import AnalysisError, norm, walk_no_nested
from sa.interp import Interp, Frame
from sa.values import ADict, AList, AObj, AStream, Unk
from sa.dom import DomRoles, DomReaderHarness, containers, capture_record_shapes, SECTION_CLASSES
from sa.harness import mutated_self_attrs, havoc_value

MUT_EVENTS = ('mutate', 'item-store', 'item-del', 'attr-store')


def shared_mutations(path_events):
    out = []
    for ev in path_events:
        if ev.kind in MUT_EVENTS:
            o = ev.data.get('obj')
            if any(f.name == '<classbody>' for f in ev.stack):
                continue      # construction of the class-level object itself
            if getattr(o, 'shared', None):
                out.append((o.shared, ev))
            if isinstance(o, ADict) and o.name == 'default{}':
                out.append(('mutable default argument', ev))
    return out


def run(P, rep, tier):
    rep.explanation = (
        'Ownership / alias / effect analysis on the abstract heap of the interpreter. Scenarios (constructors, '
        'add_change/add_file, two parses with one DOM reader object, two serialisations with one DOM writer object, '
        '__eq__, __repr__, iteration, generate_stats) are abstractly executed; heap objects carry an ownership tag '
        '(FRESH, or SHARED for module/class-level containers and mutable default arguments). R1: no mutation event has a '
        'SHARED receiver. R2: two trees created in one run share no mutable container, and within a tree no two sections '
        'share one. R3: a second call on a reused DOM reader/writer object never reads instance state left by the first '
        '(instance attributes stored outside __init__ are havocked and any read of a havocked value is reported). R4: '
        'observers (to_bytes, ==, repr, iteration) emit no mutation event whose receiver is reachable from the tree. '
        'R5: no function memoises (lru_cache/cache) a mutable result.')
    rep.undecided = 'value-level snapshots; the analysis shows absence of aliasing and of writes, not equality of bytes'
    rep.trusted_base += ['heap model of sa/values.py (dict/list identity, .copy() shallow, deepcopy deep, ** makes a fresh dict)']
    D = DomRoles(P)
    I = Interp(P)
    from sa import summary
    util_stubs = summary.stubs_for(P, summary.text_utils(P) + [P.func('pydiffx.utils.unified_diffs', 'get_unified_diff_hunks')])
    I.stubs.update(util_stubs)
    shapes = capture_record_shapes(P)
    H = DomReaderHarness(P, shapes, open_options=False)

    def all_options_hook(i, sid, rec):
        # every option name the specification defines is present in every content header, so that code touching an
        # option only "if present" is exercised by the observers
        if sid in ('diffx', '.change', '..file'):
            return
        for v in rec.items.values():
            if isinstance(v, ADict):
                for k_ in ('encoding', 'line_endings', 'indent', 'mimetype', 'format', 'type'):
                    v.items.setdefault(k_, Unk('%s#%d' % (k_, i), kinds=['str'], taint=['INPUT']))
    H.record_hook = all_options_hook
    H.install(I)
    wcls = P.cls('pydiffx.dom.writer', 'DiffXDOMWriter')
    for c in list(D.classes.values()) + [H.rcls, wcls]:
        for k in c.repo_mro():
            for f in list(k.methods.values()) + [g for p in k.props.values() for g in p.values()]:
                rep.analysed(f)

    r1 = rep.rule('C18-R1', 'module/class-level containers and mutable defaults are never the receiver of a mutation', reference=20)
    r2 = rep.rule('C18-R2', 'separately created trees / sections share no mutable container', reference=12)
    r3 = rep.rule('C18-R3', 'a reused DOM reader / writer object carries no state from one call into the next', reference=2)
    r4 = rep.rule('C18-R4', 'observers (to_bytes, ==, repr, iteration, subsections, reads of properties and typed option attributes) do not mutate the tree', reference=8)
    r5 = rep.rule('C18-R5', 'no memoising decorator on a function returning a mutable value', reference=1)
    r6 = rep.rule('C18-R6', 'records yielded by the streaming reader contain only containers of their own (none that is '
                  'module/class-level, kept by the reader, or shared with another record)', reference=9)
    shared_seen = {}

    def scan_shared(path, scenario):
        for name, ev in shared_mutations(path.events):
            key = (name, ev.fn, norm(ev.node)[:60])
            shared_seen.setdefault(key, (ev, scenario))

    # ---- scenario A: constructors ------------------------------------------------
    def build_two():
        t1 = D.build_tree(I)
        t2 = D.build_tree(I)
        return t1, t2
    n = 0
    for path in I.explore(build_two):
        n += 1
        scan_shared(path, 'constructors')
        if path.outcome != 'return':
            raise AnalysisError('building a tree raises %s' % getattr(path.value, 'note', path.value))
        t1, t2 = path.value
        c1 = containers(t1['DiffX'])
        c2 = containers(t2['DiffX'])
        common = set(c1) & set(c2)
        if common:
            for cid in sorted(common)[:3]:
                obj, where = c1[cid]
                rep.violation(r2, 'shared-between-trees:%s' % where.split('[')[0], '%s:%d' % (D.diffx.module.relpath, D.diffx.node.lineno),
                              'two separately constructed trees share the mutable object at %s (and %s): changing one tree changes the other'
                              % (where, c2[cid][1]), path=['DiffX()', 'add_change()', 'add_file()'])
        else:
            rep.ok(r2, 'two constructed trees', {'containers': len(c1)})
        # within one tree: every section's options / content container is its own
        seen_ids = {}
        dup = []
        for cid, (obj, where) in c1.items():
            pass
        secs = [o for o, w in c1.values() if isinstance(o, AObj)]
        owned = {}
        for s_ in secs:
            for k, v in s_.attrs.items():
                if isinstance(v, (ADict, AList)) and k in ('options', D.content_slot()):
                    if id(v) in owned:
                        dup.append((k, s_.cls.name, owned[id(v)]))
                    owned[id(v)] = s_.cls.name
        if dup:
            rep.violation(r2, 'shared-within-tree:%s' % dup[0][0], '%s:%d' % (D.diffx.module.relpath, D.diffx.node.lineno),
                          'sections %s and %s of one tree share their %s container' % (dup[0][1], dup[0][2], dup[0][0]))
        else:
            rep.ok(r2, 'sections within a tree', {'sections': len(secs)})

    # ---- scenario A2: assigning content never stores a module/class-level object ----------------------
    for cname in ('DiffXMetaSection', 'DiffXPreambleSection', 'DiffXFileDiffSection'):
        if cname not in D.classes:
            continue
        for label, mk in (('an empty mapping', lambda: ADict({}, name='caller-dict')), ('an empty string', lambda: ''),
                          ('empty bytes', lambda: b''), ('an unknown value', lambda: Unk('value', taint=['ARG']))):
            st_ = {}

            def assign(cname=cname, mk=mk):
                t = D.build_tree(I)
                o = t[cname]
                I.frames = []
                st_['o'] = o
                I.set_attr(o, 'content', mk(), None)
                return o
            n_ = 0
            for path in I.explore(assign):
                n_ += 1
                if n_ > 400:
                    break
                if path.outcome != 'return':
                    continue
                o = path.value
                for cid, (obj, where) in containers(o).items():
                    sh = getattr(obj, 'shared', None)
                    if sh and isinstance(obj, (ADict, AList)):
                        rep.violation(r2, 'shared-default-stored:%s' % cname, '%s:%d' % (o.cls.module.relpath, o.cls.node.lineno),
                                      'assigning %s to %s.content stores the class-level object %s in the section (%s): every section given '
                                      'empty content shares it, and filling one in changes all of them and every later tree'
                                      % (label, cname, sh, where), path=['%s.content' % cname])
        rep.ok(r2, '%s.content assignment stores no class-level container' % cname) if not any(
            v['key'].endswith('shared-default-stored:%s' % cname) for v in rep.violations) else None

    # ---- scenario B: two parses with one reader object (+ havoc of per-call state) ----
    stored_outside = {}
    for cls in (H.rcls, wcls):
        stored_outside[cls.name] = sorted(mutated_self_attrs(P, cls))

    def parse_twice():
        rd = H.new_reader(I)
        t1, s1 = H.run_parse(I, rd, 'in1')
        mark = len(I.events)
        t2, s2 = H.run_parse(I, rd, 'in2')
        return t1, t2, mark, rd
    npaths = 0
    for path in I.explore(parse_twice):
        npaths += 1
        if npaths > 4000:
            raise AnalysisError('too many paths parsing twice')
        scan_shared(path, 'parse')
        if path.outcome != 'return':
            continue
        t1, t2, mark, rd = path.value
        if not isinstance(t1, AObj) or not isinstance(t2, AObj):
            raise AnalysisError('parse does not return a tree object')
        c1, c2 = containers(t1), containers(t2)
        common = set(c1) & set(c2)
        if common:
            cid = sorted(common)[0]
            rep.violation(r2, 'shared-between-parses', '%s:%d' % (H.rcls.module.relpath, H.parse.node.lineno),
                          'two trees parsed with one DiffXDOMReader share the mutable object at %s' % c1[cid][1],
                          path=['DiffXDOMReader.parse', 'DiffXDOMReader.parse'])
        else:
            rep.ok(r2, 'two parses with one reader object', {'containers': len(c1)})
        # anything written to the first tree during the second parse?
        for ev in path.events[mark:]:
            if ev.kind in MUT_EVENTS and id(ev.data.get('obj')) in c1:
                rep.violation(r2, 'second-parse-writes-first-tree', ev.loc,
                              'the second parse with the same reader object writes into the tree returned by the first (%s)'
                              % norm(ev.node)[:60], path=['DiffXDOMReader.parse', ev.fn])
        # reader object state after a parse must not reference the tree
        for k, v in rd.attrs.items():
            if id(v) in c1 or id(v) in c2:
                rep.violation(r3, 'reader-keeps:%s' % k, '%s:%d' % (H.rcls.module.relpath, H.rcls.node.lineno),
                              'after parse() the reader object keeps a reference to the parsed tree in self.%s; the next '
                              'parse starts from that stale state' % k, path=['DiffXDOMReader.parse'])
        break
    for cname, names in stored_outside.items():
        cls = H.rcls if cname == H.rcls.name else wcls
        if not names:
            rep.ok(r3, cname, 'no instance attribute is stored outside __init__')
        else:
            # reads of such attributes before they are re-assigned in the same call?
            bad = _stale_reads(P, I, H, cls, names)
            for nm, ev in bad:
                rep.violation(r3, 'stale-read:%s.%s' % (cname, nm), ev.loc,
                              '%s reads self.%s, which an earlier call on the same object left behind (stored outside '
                              '__init__ and not reset at the start of the call)' % (ev.fn, nm), path=[cname, ev.fn])
            if not bad:
                rep.ok(r3, cname, 'attributes %s are re-assigned before being read in each call' % names)

    # ---- scenario C: observers -----------------------------------------------------------
    sw = P.cls('pydiffx.writer', 'DiffXWriter')
    writer_calls = []

    def sw_stub(I_, fi, args, kwargs, node):
        writer_calls.append((fi.name, args[1:], kwargs))
        I_.emit('streaming-writer-call', node, {'method': fi.name, 'args': args[1:], 'kwargs': kwargs})
        return None
    sw_stubs = {}
    for nm in ('__init__', 'new_change', 'new_file', 'write_preamble', 'write_meta', 'write_diff'):
        m = sw.find_method(nm)
        if m is None:
            raise AnalysisError('DiffXWriter.%s not found (anchor vanished)' % nm)
        sw_stubs[m.qualname] = sw_stub

    def observers():
        I.deterministic = True
        try:
            rd = H.new_reader(I)
            tree, s = H.run_parse(I, rd, 'in')
        finally:
            I.deterministic = False
        saved = dict(I.stubs)
        I.stubs.update(sw_stubs)
        try:
            mark = len(I.events)
            out = {}
            tb = tree.cls.find_method('to_bytes')
            I.frames = []
            I.call_function(tb, [tree], {}, None, self_cls=tree.cls)
            out['to_bytes'] = (mark, len(I.events))
            m2 = len(I.events)
            I.call_function(tb, [tree], {}, None, self_cls=tree.cls)
            out['to_bytes#2'] = (m2, len(I.events))
        finally:
            I.stubs.clear()
            I.stubs.update(saved)
        m3 = len(I.events)
        eq = tree.cls.find_method('__eq__')
        I.call_function(eq, [tree, tree], {}, None, self_cls=tree.cls)
        out['__eq__'] = (m3, len(I.events))
        m4 = len(I.events)
        for o in [x for x, w in containers(tree).values() if isinstance(x, AObj)]:
            rp = o.cls.find_method('__repr__')
            if rp is not None:
                I.frames = []
                I.call_function(rp, [o], {}, None, self_cls=o.cls)
            it = o.cls.find_method('__iter__')
            if it is not None:
                I.frames = []
                I.call_function(it, [o], {}, None, self_cls=o.cls)
        out['__repr__/__iter__'] = (m4, len(I.events))
        # reading the public attributes of every section: properties and descriptor-backed (typed option) attributes
        m5 = len(I.events)
        from sa import models as M_
        from sa.interp import AbsRaise as AbsRaise_
        nreads = 0
        for o in [x for x, w in containers(tree).values() if isinstance(x, AObj)]:
            names = []
            for c_ in o.cls.repo_mro():
                for nm_ in list(c_.props) + list(c_.attrs):
                    if nm_ not in names and not nm_.startswith('__'):
                        names.append(nm_)
            for nm_ in names:
                if nm_ in o.attrs:
                    continue
                I.frames = []
                try:
                    M_.get_attr(I, o, nm_, o.cls.node)
                    nreads += 1
                except AbsRaise_:
                    pass
        if not nreads:
            raise AnalysisError('observer scenario: no property / descriptor attribute of the tree could be read')
        out['attribute reads'] = (m5, len(I.events))
        return tree, out
    npaths = 0
    obs_bad = {}
    obs_ok = set()
    I.deterministic = False
    for path in I.explore(observers):
        npaths += 1
        if npaths > 3000:
            break
        scan_shared(path, 'observers')
        if path.outcome == 'return':
            tree, spans = path.value
        else:
            continue
        cs = containers(tree)
        for name, (a, b) in spans.items():
            for ev in path.events[a:b]:
                if ev.kind in MUT_EVENTS and id(ev.data.get('obj')) in cs:
                    obs_bad.setdefault((name.split('#')[0], ev.fn, norm(ev.node)[:60]), (ev, cs[id(ev.data.get('obj'))][1]))
            obs_ok.add(name.split('#')[0])
    for (name, fn, txt), (ev, where) in sorted(obs_bad.items(), key=str):
        rep.violation(r4, 'observer-mutates:%s:%s' % (name, txt), ev.loc,
                      '%s mutates the tree it only observes: %s in %s changes %s' % (name, txt, fn, where), path=[name, fn])
    for name in sorted(obs_ok):
        if not any(k[0] == name for k in obs_bad):
            rep.ok(r4, name, 'no mutation event with a receiver reachable from the tree')
    if not obs_ok:
        raise AnalysisError('observer scenario produced no completed path')

    # generate_stats mutates only meta content (allowed); scan it for shared receivers
    def stats():
        t = D.build_tree(I)
        d = t['DiffX']
        gs = d.cls.find_method('generate_stats')
        for o in (t['DiffXFileSection'],):
            o.attrs['diff_section'].attrs[D.content_slot()] = Unk('diff', kinds=['bytes'], taint=['ARG'])
        I.frames = []
        I.call_function(gs, [d], {}, None, self_cls=d.cls)
        return d
    np_ = 0
    for path in I.explore(stats):
        np_ += 1
        if np_ > 3000:
            break
        scan_shared(path, 'generate_stats')

    # scenario: the streaming reader itself, over a real history to every section id (the runs of the shared reader rules)
    from sa.props import reader_rules as rr
    R_, res_ = rr.analyse(P, tier)
    import collections as _c
    _Ev = _c.namedtuple('_Ev', 'loc')
    for X in sorted(res_):
        for (name, loc_, fn, txt) in sorted(res_[X].get('shared_mut', ())):
            shared_seen.setdefault((name, fn, txt), (_Ev(loc_), 'streaming reader, %s section' % X))

    for (name, fn, txt), (ev, scenario) in sorted(shared_seen.items(), key=str):
        rep.violation(r1, 'shared-mutated:%s:%s' % (name, txt), ev.loc,
                      'shared object %s is mutated by %s in %s (scenario %s): every instance / later call sees the change'
                      % (name, txt, fn, scenario), path=[scenario, fn])
    # obligations: one per shared container that exists
    shared_names = _shared_containers(P)
    for nm in shared_names:
        if not any(k[0] == nm for k in shared_seen):
            rep.ok(r1, nm, 'never the receiver of a mutation in any scenario')
    rep.floor(r1, 8)

    # ---- R5 memoising decorators --------------------------------------------------------
    found = False
    for m in P.modules.values():
        for n in ast.walk(m.tree):
            if isinstance(n, ast.FunctionDef):
                for d in n.decorator_list:
                    txt = norm(d)
                    if 'lru_cache' in txt or txt.split('(')[0].endswith('cache') or 'memoiz' in txt.lower():
                        found = True
                        mutable = _may_return_mutable(n)
                        if mutable:
                            rep.violation(r5, 'memoised-mutable:%s' % n.name, '%s:%d' % (m.relpath, n.lineno),
                                          'function %s is memoised (%s) and returns %s: every caller receives the same mutable '
                                          'object, so sections / parses share state' % (n.name, txt, mutable))
                        else:
                            rep.ok(r5, '%s.%s' % (m.name, n.name), 'memoised, returns an immutable value')
    if not found:
        rep.ok(r5, 'package', 'no memoising decorator anywhere in the package')

    # ---- R6 streaming-reader records -------------------------------------------------------------------------
    for X in sorted(res_):
        sh = res_[X]['record_sharing']
        if sh:
            rep.violation(r6, 'record-sharing:%s' % X, R_.header_fn.loc(), 'the record yielded for a %s header is not the consumer\'s own: %s; '
                          'a consumer that edits it changes other records / later parses' % (X, '; '.join(sh)), path=[R_.entry.short])
        else:
            rep.ok(r6, X)


_IMMUTABLE_RESULT = {'encode', 'decode', 'format', 'join', 'strip', 'lstrip', 'rstrip', 'lower', 'upper', 'replace', 'compile',
                     'str', 'bytes', 'int', 'float', 'bool', 'tuple', 'frozenset', 'len', 'lookup', 'getincrementaldecoder'}
_ITERATOR_RESULT = {'finditer', 'iter', 'get_tokens', 'get_tokens_unprocessed', 'map', 'filter', 'zip', 'reversed', 'enumerate',
                    'iteritems', 'itervalues', 'iterkeys', 'iter_sections', 'iter_lines', 'scandir', 'walk'}


def _may_return_mutable(fn):
    """What a memoised function hands to all its callers: None when every return is an immutable value."""
    if any(isinstance(n, (ast.Yield, ast.YieldFrom)) for n in ast.walk(fn)):
        return 'a generator, which is exhausted by its first consumer'
    for n in ast.walk(fn):
        if isinstance(n, ast.Return) and n.value is not None:
            v = n.value
            if isinstance(v, (ast.Dict, ast.List, ast.Set, ast.DictComp, ast.ListComp, ast.SetComp)):
                return 'a new container'
            if isinstance(v, ast.GeneratorExp):
                return 'a generator, which is exhausted by its first consumer'
            if isinstance(v, ast.Call):
                t = norm(v.func)
                last = t.split('.')[-1]
                if t in ('json.loads', 'dict', 'list', 'set', 'deepcopy', 'copy.deepcopy') or t.endswith('.copy'):
                    return 'the result of %s(...)' % t
                if last in _ITERATOR_RESULT:
                    return 'the iterator returned by %s(...), which is exhausted by its first consumer' % t
                if last not in _IMMUTABLE_RESULT:
                    raise AnalysisError('memoised function %s returns the result of %s(...), whose mutability is not known' % (fn.name, t))
            if isinstance(v, (ast.Name, ast.Attribute, ast.Subscript)):
                return 'a value of unknown mutability (%s)' % norm(v)
    return None


def _shared_containers(P):
    names = []
    for m in P.modules.values():
        for name, expr in m.assigns.items():
            if isinstance(expr, (ast.Dict, ast.Set, ast.List)) or (isinstance(expr, ast.BinOp)):
                names.append('%s.%s' % (m.name.split('.')[-1], name))
        for c in m.classes.values():
            for name, expr in c.attrs.items():
                if isinstance(expr, (ast.Dict, ast.Set, ast.List)) and name != '__slots__':
                    names.append('%s.%s' % (c.name, name))
    return names


def _stale_reads(P, I, H, cls, names):
    """Run the class's public entry on an object whose attributes stored outside
    __init__ hold arbitrary leftovers; report reads of those leftovers."""
    bad = []
    if cls is H.rcls:
        def thunk():
            rd = H.new_reader(I)
            for nm in names:
                rd.attrs[nm] = havoc_value(rd.attrs.get(nm), nm)
                rd.attrs[nm].havoc = True
            H.run_parse(I, rd, 'in')
            return rd
    else:
        ws = cls.find_method('write_stream')

        def thunk():
            D = H.D
            t = D.build_tree(I)
            w = I.instantiate(cls, [], {}, None)
            for nm in names:
                w.attrs[nm] = havoc_value(w.attrs.get(nm), nm)
                w.attrs[nm].havoc = True
            I.frames = []
            I.call_function(ws, [w, t['DiffX'], AStream('out', taint=())], {}, None, self_cls=cls)
            return w
    n = 0
    seen = set()
    for path in I.explore(thunk):
        n += 1
        if n > 2000:
            break
        for ev in path.events:
            if ev.kind == 'attr-read' and ev.data['name'] in names and getattr(ev.data.get('value'), 'havoc', False):
                if ev.data['name'] not in seen:
                    seen.add(ev.data['name'])
                    bad.append((ev.data['name'], ev))
    return bad
