"""C07 - length frames content: truncated / damaged files never yield altered sections."""
import ast

from sa.model import AnalysisError, norm, walk_no_nested
from sa.props import reader_rules as rr
from sa.props import c17


def run(P, rep, tier):
    rep.explanation = (
        'Framing is a matter of how the declared length reaches the stream: R1 (sanitiser-before-sink) on every path '
        'that yields a content section the value handed to read() is the unmodified "length" option and carries the facts '
        'int, lower bound and upper bound established by a guard whose failing branch raises DiffXParseError; R2 '
        '(check-after-read) the number of bytes obtained is compared with the number requested before the content is used; '
        'R3 exactly one read per content section and no other stream operation between header and yield (content may look '
        'like anything: no delimiter scanning); R4 the read-ahead helper signals EOF only on an empty read, a non-EOF result '
        'ends with the delimiter, and an unterminated last header ends the iteration (rules of C17 instantiated here); R6 every yielded content section passed the trailing-newline check '
        '(the only detector of a cut inside a section\'s last line); R7 the line splitting between read() and that check is lossless '
        '(rules of C16 instantiated here).')
    rep.undecided = ('prefix property of the record sequence for every cut position as such; decided are the necessary conditions '
                     'above.')
    rep.trusted_base += ['stream.read(n) returns at most n bytes', 'sink/guard facts of sa/models.py']
    # ---- R5 first (cheap): an unterminated last line never becomes a record ---------------
    from sa.roles import ReaderRoles
    from sa.harness import ReaderHarness
    R0 = ReaderRoles(P)
    r5 = rep.rule('C07-R5', 'at end of file (also with an unterminated last line) the iteration ends; no record is yielded', reference=1)
    H0 = ReaderHarness(P, R0, havoc=True)
    H0.eof_tail = 'unknown'      # leftover bytes of an unterminated last line
    npaths = 0
    bad5 = None
    for I_, path in H0.run([]):
        npaths += 1
        ys = [e for e in path.events if e.kind == 'yield']
        if ys:
            bad5 = ys[0]
            break
        if path.outcome == 'raise' and path.value.exc.exc_name != 'DiffXParseError':
            pass
        if npaths > 3000:
            raise AnalysisError('too many paths at end of file')
    if bad5 is not None:
        rep.violation(r5, 'record-from-unterminated-line', R0.header_fn.loc(),
                      'when the read-ahead helper reports end of file with leftover bytes (a last line without newline), the header '
                      'function still parses them and a record is yielded: a file cut inside its last header yields a section with '
                      'altered options', path=[R0.entry.short, R0.header_fn.short])
        rep.info('remaining C07 rules not evaluated on this tree')
        return
    rep.ok(r5, R0.header_fn.short, {'paths': npaths})
    R, res = rr.analyse(P, tier)
    rep.analysed(*R.funcs)
    r1 = rep.rule('C07-R1', 'read(n): n is the unmodified length option, proven int with lower and upper bound', reference=6)
    r3 = rep.rule('C07-R3', 'one read per content section; no other stream operation; no delimiter scanning', reference=6)
    for X in rr.CONTENT_IDS:
        r = res[X]
        probs = []
        if r['read_n'] != ['length']:
            probs.append('read size is %s, not the unmodified length option' % r['read_n'])
        for kinds, lo, hi in r['read_facts']:
            if kinds is None or not set(kinds) <= {'int', 'bool'}:
                probs.append('length reaches read() without a type guard (kinds %s): a non-integer length raises TypeError' % kinds)
            if not lo:
                probs.append('length reaches read() without a lower bound: a negative length reads the rest of the file as this section')
            if not hi:
                probs.append('length reaches read() without an upper bound: a huge length raises OverflowError')
        probs = sorted(set(probs))
        if probs:
            rep.violation(r1, 'length-unsanitised:%s' % X, R.entry.loc(), 'section %s: %s' % (X, '; '.join(probs)),
                          path=[R.entry.short, R.content_fn.short])
        else:
            rep.ok(r1, X, {'yield_paths': r['yield_paths']})
        p3 = []
        if r['reads'] != [1]:
            p3.append('%s stream reads per section' % r['reads'])
        if r['problems']:
            p3 += list(r['problems'].values())
        if p3:
            rep.violation(r3, 'consumers:%s' % X, R.content_fn.loc(), 'section %s: %s' % (X, '; '.join(p3)), path=[R.content_fn.short])
        else:
            rep.ok(r3, X)
    rep.floor(r1, 6)
    # delimiter scanning inside the content function
    cf = R.content_fn
    scans = [norm(n)[:50] for n in walk_no_nested(cf.node) if isinstance(n, ast.Call) and isinstance(n.func, ast.Attribute)
             and n.func.attr in ('readline', 'readlines', 'peek') ]
    if scans:
        rep.violation(r3, 'delimiter-scan', cf.loc(), 'the content function reads by delimiter (%s): content is no longer framed by length' % scans)

    # ---- R2 check-after-read -------------------------------------------------------
    r2 = rep.rule('C07-R2', 'bytes obtained are compared with bytes requested before the content is used', reference=1)
    found = None
    read_vars = set()
    for n in walk_no_nested(cf.node):
        if isinstance(n, ast.Assign) and isinstance(n.value, ast.Call) and isinstance(n.value.func, ast.Attribute) \
                and n.value.func.attr == 'read':
            for t in n.targets:
                if isinstance(t, ast.Name):
                    read_vars.add(t.id)
    for n in walk_no_nested(cf.node):
        if isinstance(n, ast.Compare):
            txt = norm(n)
            if any('len(%s)' % v in txt for v in read_vars) and any(p in txt for p in cf.params()[1:2]):
                found = n
    if found is not None:
        rep.ok(r2, norm(found))
    else:
        rep.violation(r2, 'no-short-read-check', cf.loc(),
                      '%s never compares len(<bytes read>) with the requested length: a file cut inside a section whose remaining '
                      'bytes happen to end with a newline yields that section with shortened content' % cf.short, path=[cf.short])

    # ---- R6: the trailing-newline check is the only detector of a cut inside the last line --------
    r6 = rep.rule('C07-R6', 'every yielded content section passed the check that its bytes end with the section newline', reference=6)
    for X in rr.CONTENT_IDS:
        if res[X]['newline_checked'] == [True]:
            rep.ok(r6, X)
        else:
            rep.violation(r6, 'newline-check:%s' % X, cf.loc(), 'section %s can be yielded on a path without the check that its content ends '
                          'with the declared/detected newline: a file cut in the middle of the last line of that section (or a length '
                          'ending there) yields shortened content instead of a parse error' % X, path=[R.entry.short, cf.short])
    # ---- R7: the lines rebuilt between read and that check are exactly the bytes read ------------------
    r7 = rep.rule('C07-R7', 'the line splitting applied between read() and the newline check neither fabricates nor drops bytes '
                  '(the rules of C16 hold for split_lines)', reference=1)
    for X in rr.CONTENT_IDS:
        ske = res[X]['split_keep_ends']
        if ske and ske != ['True']:
            rep.violation(r7, 'rebuilt-without-ends:%s' % X, cf.loc(), 'section %s: the content is split with keep_ends=%s and put together again by '
                          'the reader itself: a final line without newline gets one it never had, so the trailing-newline check cannot see a '
                          'cut inside the last line' % (X, '/'.join(ske)), path=[cf.short])
    from sa.report import Report
    from sa.props import c16
    sub = Report('C16', tier, P)
    c16.run(P, sub, tier)
    if sub.violations:
        v0 = sub.violations[0]
        rep.violation(r7, 'split-lossy:%s' % v0['key'][:60], v0['loc'],
                      'split_lines is not lossless (%d C16 rule instance(s) fail, first: %s): content rebuilt from its lines can pass '
                      'the trailing-newline check although the bytes read do not end with a newline' % (len(sub.violations), v0['msg'][:200]),
                      path=[cf.short, 'split_lines'])
    else:
        rep.ok(r7, 'split_lines', {'c16_obligations': sum(r_['instances'] for r_ in sub.rules.values())})

    # ---- R4: EOF / unterminated header (rules of C17 under this property) ----------------
    c17._run(P, rep, tier, 'C07-R4')
