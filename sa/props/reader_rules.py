"""Shared analysis of the streaming reader's per-section paths (used by C01, C03, C07, C12)."""
import ast

from sa.model import AnalysisError, norm, walk_no_nested
from sa.roles import ReaderRoles, SPEC_IDS, stream_ops
from sa.harness import ReaderHarness, Script, history_to
from sa.interp import exc_name
from sa.values import ADict, AList, Unk, concrete, is_concrete, taint_of
from sa.props.c10 import allowed_var, main_loop
from sa import summary

CONTENT_IDS = ('.preamble', '..preamble', '.meta', '..meta', '...meta', '...diff')
KNOWN_OPTION_KEYS = {'encoding', 'length', 'indent', 'line_endings', 'format', 'version'}
_CTX = None


def src_chain(v, depth=0):
    """Flattened list of src nodes reachable from a value (for shape queries)."""
    out = []
    seen = set()
    todo = [v]
    while todo and len(out) < 200:
        x = todo.pop()
        if not isinstance(x, Unk) or id(x) in seen:
            continue
        seen.add(id(x))
        out.append(x)
        s = x.src
        if not s:
            continue
        for part in s[1:]:
            if isinstance(part, Unk):
                todo.append(part)
            elif isinstance(part, (list, tuple)):
                for y in part:
                    if isinstance(y, Unk):
                        todo.append(y)
                    elif isinstance(y, (list, tuple)):
                        todo.extend([z for z in y if isinstance(z, Unk)])
        j = getattr(x, 'joined', None)
        if j is not None:
            todo.extend([z for z in j[2] if isinstance(z, Unk)])
    return out


def option_origin(v):
    """Name of the header option a value comes from ('length' for options['length'] ...)."""
    for x in src_chain(v):
        if x.src and x.src[0] == 'item' and isinstance(x.src[1], ADict) and is_concrete(x.src[2]):
            return concrete(x.src[2])
    return None


def history_script(table, X):
    """(scripts of the shortest legal history before X, their count)."""
    hist = history_to(table, X)
    if hist is None:
        raise AnalysisError('no legal history leads to %s' % X)
    pre = [Script(s_, options='unknown' if (s_ in CONTENT_IDS or s_ == 'diffx') else 'none') for s_ in hist]
    return pre, len(hist)


_CROLE_CACHE = {}


def content_param(cf, role):
    """The parameter of the content function that plays ``role`` (encoding, length, line_endings, indent, keep_bytes):
    the parameter of that name when there is one, else the parameter used in that role in the function's body (the
    argument of .decode() / of an ``encoding=`` keyword; of .read(); the first argument of get_newline_for_type; the
    operand of a bytes %-format / re.compile; the flag tested around the decode), else None."""
    key = (id(cf), role)
    if key in _CROLE_CACHE:
        return _CROLE_CACHE[key]
    import ast as _ast
    a_ = cf.node.args
    params = [x.arg for x in a_.posonlyargs + a_.args + a_.kwonlyargs if x.arg not in ('self', 'cls')]
    res = role if role in params else None
    if res is None:
        cands = []

        def names(n):
            return [x.id for x in _ast.walk(n) if isinstance(x, _ast.Name) and x.id in params]
        for n in _ast.walk(cf.node):
            if not isinstance(n, _ast.Call):
                continue
            fn = n.func.attr if isinstance(n.func, _ast.Attribute) else n.func.id if isinstance(n.func, _ast.Name) else None
            if role == 'encoding':
                if fn == 'decode' and n.args:
                    cands += names(n.args[0])
                cands += [x for kw in n.keywords if kw.arg == 'encoding' for x in names(kw.value)]
            elif role == 'length' and fn == 'read' and n.args:
                cands += names(n.args[0])
            elif role == 'line_endings' and fn == 'get_newline_for_type':
                cands += names(n.args[0]) if n.args else [x for kw in n.keywords if kw.arg == 'line_endings' for x in names(kw.value)]
            elif role == 'indent' and fn == 'compile' and n.args:
                cands += names(n.args[0])
        if role == 'keep_bytes':
            enc = content_param(cf, 'encoding')
            for n in _ast.walk(cf.node):
                if isinstance(n, _ast.If) and any(isinstance(c, _ast.Call) and isinstance(c.func, _ast.Attribute) and c.func.attr == 'decode'
                                                  for b in n.body for c in _ast.walk(b)):
                    cands += [x for x in names(n.test) if x != enc]
        uniq = sorted(set(cands))
        res = uniq[0] if len(uniq) == 1 else None
    _CROLE_CACHE[key] = res
    return res


def _record_sharing(R, evs, yields, out):
    """Containers handed to the consumer must be the consumer's own: not module/class-level objects,
    not objects the reader keeps, not objects already handed out in an earlier record."""
    from sa.dom import containers as _containers
    self_obj = None
    for e in evs:
        if e.kind == 'enter' and e.data['callee'] is R.entry:
            self_obj = e.data['locals'].get(R.entry.params()[0])
            break
    kept = {}
    if self_obj is not None:
        for k_, v_ in self_obj.attrs.items():
            for oid, (o_, w_) in _containers(v_).items():
                kept[oid] = 'self.%s' % k_
    seen_rec = {}
    # the reader reads nothing from a record after handing it out (the consumer may have edited it by then)
    handed = {}
    for e in evs:
        if e.kind == 'yield':
            for oid, (o_, w_) in _containers(e.data['value']).items():
                if isinstance(o_, (ADict, AList)):
                    handed.setdefault(oid, w_)
            continue
        if not handed:
            continue
        o_ = None
        if e.kind == 'container-read':
            o_ = e.data['obj']
        elif e.kind in ('dict-get', 'dict-truth'):
            o_ = e.data['dict']
        elif e.kind == 'compare' and e.data['op'] in ('In', 'NotIn'):
            o_ = e.data['r']
        elif e.kind == 'loop':
            o_ = e.data.get('of')
        if o_ is not None and id(o_) in handed:
            out['record_sharing'].add('%s is read again by the reader after the record was handed to the consumer (%s in %s)'
                                      % (handed[id(o_)].replace('tree', 'record'), norm(e.node)[:50], e.fn))
    for yi, y in enumerate(yields):
        for oid, (o_, w_) in _containers(y.data['value']).items():
            if not isinstance(o_, (ADict, AList)):
                continue
            sh = getattr(o_, 'shared', None)
            if sh:
                out['record_sharing'].add('%s is the module/class-level object %s' % (w_.replace('tree', 'record'), sh))
            elif oid in kept:
                out['record_sharing'].add('%s is also kept by the reader as %s' % (w_.replace('tree', 'record'), kept[oid]))
            elif oid in seen_rec and seen_rec[oid] != yi:
                out['record_sharing'].add('%s was already part of an earlier record' % w_.replace('tree', 'record'))
            seen_rec.setdefault(oid, yi)


def _task(X):
    P, R, table, var, loop, stubs = _CTX[:6]
    H = ReaderHarness(P, R, havoc=True, stub_content=False, unknown_iters=_CTX[6] if len(_CTX) > 6 else (1,))
    H.extra_stubs = stubs
    H.record_compares = True
    H.record_reads = True
    # the section is analysed after a real, legal history (the shortest one), frozen once a feasible way through it
    # has been found: every loop-carried variable then holds a value the code itself produced
    hist = history_to(table, X)
    if hist is None:
        raise AnalysisError('no legal history leads to %s' % X)
    pre = [Script(s_, options='unknown' if (s_ in CONTENT_IDS or s_ == 'diffx') else 'none') for s_ in hist]
    paths, exceeded = H.paths(pre + [Script(X, options='unknown')], max_paths=30000, det_prefix=len(hist))
    if exceeded:
        raise AnalysisError('path budget exceeded for %s' % X)
    from sa.model import Regex as _Regex
    for p_ in paths:
        for e_ in getattr(p_, 'full_events', p_.events):
            if e_.kind == 'regex-apply' and R.header_fn in e_.stack and not isinstance(concrete(e_.data['regex']), _Regex):
                raise AnalysisError('a regular expression applied in the header parser is not a foldable constant (%s)' % norm(e_.node)[:60])
    for p_ in paths:
        # events of the frozen history are not events of the section under analysis
        cut = [i_ for i_, e_ in enumerate(p_.events) if e_.kind == 'k1-header' and e_.data['index'] == len(hist)]
        p_.full_events = p_.events
        p_.events = p_.events[cut[0]:] if cut else p_.events
        if cut:
            ent = [e_ for e_ in p_.full_events[:cut[0]] if e_.kind == 'enter' and e_.data['callee'] is R.entry]
            p_.events = ent[:1] + p_.events
    cf = R.content_fn
    out = {'id': X, 'paths': len(paths), 'yield_paths': 0, 'reads': set(), 'read_n': set(), 'read_facts': [],
           'content_params': set(), 'problems': {}, 'raise_sites': set(), 'caught': set(), 'dict_reads': set(),
           'dict_other': set(), 'stores_per_pair': set(), 'key_compared': set(), 'sub_data': set(), 'sub_flags': set(),
           'order': set(), 'returned': set(), 'newline_checked': set(), 'version': set(), 'format': set(),
           'yields_per_path': set(), 'le_values': set(), 'decode_enc': set(), 'util_encoding': set(), 'record_sharing': set(), 'decode_unit': set(), 'split_keep_ends': set()}
    paths0, _ex0 = H.paths(pre + [Script(X, options='none')], max_paths=30000, det_prefix=len(hist))
    for p in paths0:
        ys0 = [e for e in p.events if e.kind == 'yield']
        if len(ys0) > len(hist):
            _record_sharing(R, p.events, ys0, out)
    out['shared_mut'] = set()
    for p in list(paths) + list(paths0):
        for e in getattr(p, 'full_events', p.events):
            if e.kind in ('mutate', 'item-store', 'item-del') and getattr(e.data.get('obj'), 'shared', None) \
                    and not any(f.name == '<classbody>' for f in e.stack):
                out['shared_mut'].add((e.data['obj'].shared, e.loc, e.fn, norm(e.node)[:60]))
    for p in paths:
        evs = p.events
        yields = [e for e in evs if e.kind == 'yield']
        for e in evs:
            if e.kind == 'raise' and not e.data.get('implicit'):
                out['raise_sites'].add((e.fn, norm(e.node)[:70], exc_name(e.data['exc'])))
            if e.kind == 'caught':
                out['caught'].add((e.fn, exc_name(e.data['exc']), str(getattr(e.data['raise'], 'note', '') or ('raised in %s' % getattr(e.data['raise'], 'origin_fn', None)))[:80]))
        if not yields:
            continue
        fe_ = getattr(p, 'full_events', evs)
        _record_sharing(R, fe_, [e_ for e_ in fe_ if e_.kind == 'yield'], out)
        out['yield_paths'] += 1
        out['yields_per_path'].add(len(yields))
        rec = yields[0].data['value']
        opts = None
        if isinstance(rec, ADict):
            for k, v in rec.items.items():
                if isinstance(v, ADict):
                    opts = v
        hdr = [i for i, e in enumerate(evs) if e.kind == 'k1-header']
        # option pairs parsed in the header and stores into the options dict
        pairs = [e for e in evs if e.kind == 'unpack' and len(e.data['items']) == 2]
        stores = [e for e in evs if e.kind == 'item-store' and e.data['obj'] is opts]
        out['stores_per_pair'].add((len(pairs), len(stores)))
        for e in pairs:
            k = e.data['items'][0]
            keys = [x for x in src_chain(k)]
            for s_ in stores:
                kk = s_.data['key']
                if isinstance(kk, Unk) and k in src_chain(kk):
                    if kk.in_sets or kk.neq or kk.has_const or kk.notin_sets:
                        out['key_compared'].add(norm(s_.node)[:60])
        # reads of the options dict after the header function returned
        def after_header(e_):
            # an event of the section-interpreting code: not inside the header parser (which fills the mapping)
            return R.header_fn not in e_.stack
        for e in evs:
            if after_header(e) and e.kind == 'dict-get' and e.data['dict'] is opts:
                k = e.data['key']
                out['dict_reads'].add(concrete(k) if is_concrete(k) else '<unknown key>')
            if after_header(e) and e.kind == 'dict-truth' and e.data['dict'] is opts:
                out['dict_other'].add('truth test at %s' % e.loc)
            if after_header(e) and e.kind == 'loop' and e.data.get('of') is opts:
                out['dict_other'].add('iteration at %s' % e.loc)
            if after_header(e) and e.kind in ('open-splat', 'open-splat-named') and ({'OPTKEY', 'INPUT'} & set(getattr(e.data['mapping'], 'taint', ()))):
                out['dict_other'].add('the option mapping is splatted into %s(), whose parameters %s an option name can bind'
                                      % (e.data['callee'].short, sorted(e.data['params'])[:4]))
            if after_header(e) and e.kind == 'compare':
                for side in (e.data['l'], e.data['r']):
                    if isinstance(side, Unk) and 'OPTVAL' in side.taint and option_origin(side) is None and 'OPTKEY' not in side.taint - {'OPTKEY'} \
                            and not (side.src and side.src[0] == 'cond'):
                        out['dict_other'].add('the value of an option the reader does not know is tested at %s' % e.loc)
            if after_header(e) and e.kind == 'mayraise' and e.data['why'].startswith('key ') and e.data['operands'] and e.data['operands'][0] is opts:
                out['dict_reads'].add(e.data['why'].split("'")[1] if "'" in e.data['why'] else '?')
        if X == 'diffx':
            v = opts.items.get('version') if opts is not None else None
            if isinstance(v, Unk):
                out['version'].add(tuple(sorted(map(lambda s_: tuple(sorted(map(str, s_))), v.in_sets))) or ('UNCHECKED',))
            else:
                out['version'].add(('const', v))
        if X not in CONTENT_IDS:
            continue
        # ---- content sections -------------------------------------------------------
        reads = [e for e in evs if e.kind == 'stream-read' and hdr and evs.index(e) > hdr[0]]
        out['reads'].add(len(reads))
        others = [e.kind for e in evs if e.kind.startswith('stream-') and e.kind not in ('stream-read',) and hdr and evs.index(e) > hdr[0]]
        if others:
            out['problems']['stream-op'] = 'content handling performs %s on the stream' % sorted(set(others))
        for r in reads:
            n = r.data.get('n')
            org = option_origin(n)
            direct = isinstance(n, Unk) and n.src and n.src[0] == 'item' and is_concrete(n.src[2]) and concrete(n.src[2]) == 'length'
            out['read_n'].add('length' if direct else ('derived-from-%s' % org if org else norm(r.node)[:50]))
            if isinstance(n, Unk):
                facts = {str(f) for f in n.facts if isinstance(f, str)}
                out['read_facts'].append((sorted(n.kinds) if n.kinds is not None else None,
                                          any(f.startswith(('>=', '>')) for f in facts), any(f.startswith('<') for f in facts)))
        enters = [e for e in evs if e.kind == 'enter' and e.data['callee'] is cf]
        for e in enters:
            loc = e.data['locals']
            desc = []
            back = {content_param(cf, r_): r_ for r_ in ('encoding', 'length', 'line_endings', 'indent', 'keep_bytes')}
            for k, v in sorted(loc.items()):
                if k == 'self':
                    continue
                k = back.get(k, k)       # parameters are reported under the role they play, whatever they are called
                if is_concrete(v):
                    desc.append((k, 'const', concrete(v)))
                else:
                    desc.append((k, 'option', option_origin(v)))
            out['content_params'].add(tuple(sorted(desc, key=repr)))
        # encoding handed to the newline helpers: must be the very encoding the content function was given
        for e in enters:
            enc_local = e.data['locals'].get(content_param(cf, 'encoding'))
            for e2 in evs:
                if e2.kind == 'summary-call' and 'encoding' in e2.data['args'] and cf in e2.stack:
                    a_ = e2.data['args']['encoding']
                    same = a_ is enc_local or (is_concrete(a_) and is_concrete(enc_local) and concrete(a_) == concrete(enc_local))
                    out['util_encoding'].add((e2.data['callee'].name, 'same' if same else
                                              'other:%s' % (concrete(a_) if is_concrete(a_) else getattr(a_, 'name', '?'),)))
        # how the content is split into lines when it is rebuilt (indentation): only the keep-ends mode re-joins to the data
        rebuilt = False
        for k_, v_ in rec.items.items():
            if isinstance(v_, Unk) and any(x.src and x.src[0] in ('summary', 'summary-elem') and 'split_lines' in str(x.src[1]) for x in src_chain(v_)):
                rebuilt = True
        for e2 in evs:
            if rebuilt and e2.kind == 'summary-call' and e2.data['callee'].name == 'split_lines' and cf in e2.stack:
                ke = e2.data['args'].get('keep_ends')
                out['split_keep_ends'].add(repr(concrete(ke)) if is_concrete(ke) else 'unknown')
        # indentation stripping: regex sub events inside the content function
        subs = [e for e in evs if e.kind == 'regex-apply' and e.data['mode'] == 'sub' and cf in e.stack]
        decs = [e for e in evs if e.kind == 'decode' and cf in e.stack]
        for e in subs:
            d = e.data['data']
            # does the data derive from the lines of the newline split?
            role = 'other'
            for x in src_chain(d):
                if x.src and x.src[0] == 'elem':
                    role = 'line'
                if x.src and x.src[0] == 'read':
                    if role != 'line':
                        role = 'whole-content'
                    break
            if isinstance(d, Unk) and d.src and d.src[0] == 'read':
                role = 'whole-content'
            out['sub_data'].add(role)
            rx_ = e.data['regex']
            flags = 0
            if isinstance(rx_, Unk) and rx_.src and rx_.src[0] == 'call' and len(rx_.src[2]) > 1 and is_concrete(rx_.src[2][1]):
                flags = int(concrete(rx_.src[2][1]))
            out['sub_flags'].add(flags)
            for dd in decs:
                out['order'].add('strip-before-decode' if evs.index(e) < evs.index(dd) else 'decode-before-strip')
        for dd in decs:
            rv_ = dd.data.get('recv')
            if isinstance(rv_, Unk):
                whole = bool(getattr(rv_, 'joined', None)) or not any(x.src and x.src[0] in ('elem', 'summary-elem') for x in src_chain(rv_))
                out['decode_unit'].add('whole content' if whole else 'one line at a time')
        for dd in decs:
            enc_ = dd.data['encoding']
            params_ = [e_.data['locals'].get(content_param(cf, 'encoding')) for e_ in enters]
            if any(enc_ is p_ or (is_concrete(enc_) and is_concrete(p_) and concrete(enc_) == concrete(p_)) for p_ in params_):
                out['decode_enc'].add('encoding')           # the very encoding the content function was given
            elif is_concrete(enc_):
                out['decode_enc'].add(str(concrete(enc_)))
            else:
                out['decode_enc'].add('other:%s' % (option_origin(enc_) or getattr(enc_, 'name', '?')))
        # returned content: the value stored into the record under the content key
        for k, v in rec.items.items():
            if k in ('text', 'metadata', 'diff') or (isinstance(v, Unk) and v is not opts and k not in ('level', 'line', 'section', 'type')):
                if isinstance(v, Unk):
                    shape = []
                    for x in src_chain(v):
                        if x.src and x.src[0] == 'method' and x.src[2] in ('strip', 'rstrip', 'lstrip', 'replace', 'splitlines'):
                            shape.append(x.src[2])
                        if x.src and x.src[0] == 'slice' and any(y.src and y.src[0] == 'read' for y in src_chain(x) if y is not x) and not any(
                                y.src and y.src[0] == 'elem' for y in src_chain(x)):
                            shape.append('slice-of-content')
                    out['returned'].add((k, tuple(sorted(set(shape)))))
                    # newline check: an endswith guard that succeeded on the final content
                    ok = False
                    for x in src_chain(v)[:6] + [v]:
                        if any(isinstance(f, tuple) and f[0] == 'endswith' and f[2] is True for f in x.facts):
                            ok = True
                    if k == 'metadata':
                        # metadata is parsed from the checked text
                        for x in src_chain(v):
                            if any(isinstance(f, tuple) and f[0] == 'endswith' and f[2] is True for f in x.facts):
                                ok = True
                    out['newline_checked'].add(ok)
        if X.endswith('meta'):
            fmt = opts.items.get('format') if opts is not None else None
            if fmt is None:
                out['format'].add('absent')
            elif isinstance(fmt, Unk):
                out['format'].add(repr(fmt.const) if fmt.has_const else 'UNCHECKED')
            else:
                out['format'].add(repr(fmt))
    # plain data only
    for k, v in list(out.items()):
        if isinstance(v, set):
            out[k] = sorted(v, key=repr)
    return out


_ANALYSE_CACHE = {}


def analyse(P, tier='quick'):
    key = (getattr(P, 'digest', id(P)), tier)
    if key not in _ANALYSE_CACHE:
        _ANALYSE_CACHE[key] = _analyse(P, tier)
    return _ANALYSE_CACHE[key]


def _analyse(P, tier='quick'):
    R = ReaderRoles(P)
    table = P.fold_module_const('pydiffx.sections', 'VALID_SECTION_STATES')
    var, loop = None, None        # (histories are real: no loop-state injection)
    if R.content_fn is None:
        raise AnalysisError('content-reading function not identified')
    global _CTX
    _CTX = (P, R, table, var, loop, summary.stubs_for(P, summary.text_utils(P)), (1,) if tier == 'quick' else (0, 1, 2))
    from sa.par import pmap
    ids = list(SPEC_IDS)
    res = dict(zip(ids, pmap(_task, ids)))
    for X, r in res.items():
        if not r['yield_paths']:
            raise AnalysisError('no path yields a record for %s' % X)
    return R, res


# ---- line accounting (C03-R7) -------------------------------------------------------------------------------------------
def _self_attr_target(t, first):
    return t.attr if isinstance(t, ast.Attribute) and isinstance(t.value, ast.Name) and t.value.id == first else None


def _bindings(fn_node):
    """local name -> list of (stmt, value-or-None); value is the bound expression for a plain ``name = value``."""
    out = {}
    for n in walk_no_nested(fn_node):
        if isinstance(n, ast.Assign):
            for t in n.targets:
                if isinstance(t, ast.Name):
                    out.setdefault(t.id, []).append((n, n.value))
                else:
                    for x in ast.walk(t):
                        if isinstance(x, ast.Name):
                            out.setdefault(x.id, []).append((n, None))
        elif isinstance(n, (ast.AugAssign, ast.AnnAssign)) and isinstance(n.target, ast.Name):
            out.setdefault(n.target.id, []).append((n, None))
        elif isinstance(n, (ast.For, ast.comprehension)):
            for x in ast.walk(n.target):
                if isinstance(x, ast.Name):
                    out.setdefault(x.id, []).append((n, None))
        elif isinstance(n, ast.NamedExpr) and isinstance(n.target, ast.Name):
            out.setdefault(n.target.id, []).append((n, n.value))
        elif isinstance(n, ast.withitem) and n.optional_vars is not None:
            for x in ast.walk(n.optional_vars):
                if isinstance(x, ast.Name):
                    out.setdefault(x.id, []).append((n, None))
    return out


def _through_copies(expr, binds, depth=0):
    """Follow single-assignment local copies: a Name bound exactly once by ``name = value`` stands for that value."""
    while isinstance(expr, ast.Name) and depth < 6:
        b = binds.get(expr.id, [])
        if len(b) != 1 or b[0][1] is None:
            break
        expr = b[0][1]
        depth += 1
    return expr


def _counter_writes(f, first):
    """(stmt, attr, increment-expr-or-None, assigned-expr-or-None) for stores to attributes of self in ``f``."""
    out = []
    for n in walk_no_nested(f.node):
        if isinstance(n, ast.AugAssign):
            a = _self_attr_target(n.target, first)
            if a is not None:
                out.append((n, a, n.value if isinstance(n.op, ast.Add) else None, None))
        elif isinstance(n, ast.Assign):
            for t in n.targets:
                a = _self_attr_target(t, first)
                if a is None:
                    continue
                inc = None
                v = n.value
                if isinstance(v, ast.BinOp) and isinstance(v.op, ast.Add):
                    if _self_attr_target(v.left, first) == a:
                        inc = v.right
                    elif _self_attr_target(v.right, first) == a:
                        inc = v.left
                out.append((n, a, inc, None if inc is not None else v))
    return out


def line_accounting_rule(P, rep, rid, R):
    """The 'line' of a record is the reader's line counter at the section header, and the counter advances by exactly one per
    header and by the number of lines of the raw content split on the section newline per content block.  Decided on the
    syntax of the three functions that touch the counter (constructor, header function, content function), with callees
    resolved through the imports and locals followed through single-assignment copies."""
    hf, cf = R.header_fn, R.content_fn
    if cf is None:
        raise AnalysisError('no single content-reading function reachable from %s' % R.entry.short)
    init = R.cls.find_method('__init__')
    funcs = list(R.funcs) + ([init] if init is not None and init not in R.funcs else [])
    writes = {}
    for f in funcs:
        ps = f.params()
        if not ps or f.cls is None:
            continue
        for w in _counter_writes(f, ps[0]):
            writes.setdefault(w[1], []).append((f,) + w)
    cands = [a for a, ws in writes.items() if any(f is hf and inc is not None for f, _, _, inc, _ in ws)
             and any(f is cf and inc is not None for f, _, _, inc, _ in ws)]
    if len(cands) != 1:
        # the counter the two functions share: an attribute both of them advance
        cands2 = [a for a, ws in writes.items() if any(inc is not None for _, _, _, inc, _ in ws)]
        raise AnalysisError('expected exactly one reader attribute advanced by both %s and %s (the line counter), found %s '
                            '(attributes advanced anywhere: %s)' % (hf.short, cf.short, cands, sorted(cands2)))
    ctr = cands[0]
    rep.info('line counter: self.%s' % ctr)

    def is_ctr(e, f):
        return _self_attr_target(e, f.params()[0]) == ctr

    # -- (a) who writes the counter
    for f, stmt, a, inc, val in writes[ctr]:
        if f is init:
            if inc is None and isinstance(val, ast.Constant) and val.value == 0 and type(val.value) is int:
                rep.ok(rid, 'counter starts at 0 in %s' % f.short)
            else:
                rep.violation(rid, 'counter-init', f.loc(stmt), 'the line counter self.%s is initialised with %s, not 0: every line '
                              'number reported afterwards is shifted' % (ctr, norm(stmt)[:60]), path=[f.short])
        elif f is not hf and f is not cf:
            rep.violation(rid, 'counter-writer:%s' % f.short, f.loc(stmt), 'the line counter self.%s is also changed in %s (%s): the '
                          'logical line of later sections no longer counts one per header plus the lines of each content block'
                          % (ctr, f.short, norm(stmt)[:60]), path=[R.entry.short, f.short])
    if init is None or not any(f is init for f, *_ in writes[ctr]):
        raise AnalysisError('the line counter self.%s is not initialised in the constructor' % ctr)

    def top_level_index(f, stmt):
        for i, s in enumerate(f.node.body):
            if s is stmt:
                return i
        return None

    # -- (b) header: +1 exactly once on the way to a record; 'line' is the counter value from before the increment
    hw = [(stmt, inc) for f, stmt, a, inc, val in writes[ctr] if f is hf]
    binds = _bindings(hf.node)
    if len(hw) != 1 or hw[0][1] is None:
        rep.violation(rid, 'header-advance-count', hf.loc(), '%s changes the line counter %d times (%s): a header is one logical line'
                      % (hf.short, len(hw), [norm(s)[:40] for s, _ in hw]), path=[hf.short])
    else:
        stmt, inc = hw[0]
        inc_v = _through_copies(inc, binds)
        idx = top_level_index(hf, stmt)
        if not (isinstance(inc_v, ast.Constant) and inc_v.value == 1 and type(inc_v.value) is int):
            rep.violation(rid, 'header-advance-amount', hf.loc(stmt), '%s advances the line counter by %s per header, not by 1'
                          % (hf.short, norm(inc)[:50]), path=[hf.short])
        elif idx is None:
            rep.violation(rid, 'header-advance-conditional', hf.loc(stmt), '%s advances the line counter inside a conditional or loop '
                          '(%s): not exactly once per header' % (hf.short, norm(stmt)[:50]), path=[hf.short])
        else:
            rep.ok(rid, 'header advances the counter by exactly 1 (%s)' % norm(stmt))
            # records returned
            recs = 0
            for n in walk_no_nested(hf.node):
                if not isinstance(n, ast.Return) or n.value is None:
                    continue
                v = _through_copies(n.value, binds)
                if isinstance(v, ast.Constant) and v.value is None:
                    continue
                if isinstance(v, ast.Call) and isinstance(v.func, ast.Name) and v.func.id == 'dict' and not v.args \
                        and P.resolve_name(hf.module, 'dict') is None and all(kw.arg for kw in v.keywords):
                    lines = [kw.value for kw in v.keywords if kw.arg == 'line']
                elif isinstance(v, ast.Dict):
                    lines = [val for k, val in zip(v.keys, v.values) if isinstance(k, ast.Constant) and k.value == 'line']
                else:
                    raise AnalysisError('%s returns %s: not a record literal' % (hf.short, norm(n.value)[:50]))
                if len(lines) != 1:
                    raise AnalysisError('the record returned by %s has no single "line" entry' % hf.short)
                recs += 1
                lv = lines[0]
                src = _through_copies(lv, binds)
                ret_idx = top_level_index(hf, n)
                if is_ctr(src, hf):
                    # value of the counter: read where?  a local copy is read at its assignment, a direct read at the return
                    if isinstance(lv, ast.Name):
                        b = binds[lv.id][0][0]
                        bi = top_level_index(hf, b)
                        if bi is not None and bi < idx:
                            rep.ok(rid, 'record line = counter before the header is counted (%s)' % norm(b))
                        else:
                            rep.violation(rid, 'record-line-late', hf.loc(b), 'the "line" of a record is read from the counter after '
                                          '(or conditionally around) its increment (%s): records name the line after their header'
                                          % norm(b)[:50], path=[hf.short])
                    elif ret_idx is not None and ret_idx < idx:
                        rep.ok(rid, 'record line = counter before the header is counted')
                    else:
                        rep.violation(rid, 'record-line-late', hf.loc(n), 'the "line" of a record is the counter after its increment: '
                                      'records name the line after their header', path=[hf.short])
                elif isinstance(src, ast.BinOp) and isinstance(src.op, ast.Sub) and is_ctr(src.left, hf) \
                        and isinstance(src.right, ast.Constant) and src.right.value == 1 and (ret_idx is None or ret_idx > idx):
                    rep.ok(rid, 'record line = counter - 1 after the increment')
                else:
                    rep.violation(rid, 'record-line-source', hf.loc(n), 'the "line" of a record is %s, not the reader\'s line counter '
                                  'at the header' % norm(lv)[:50], path=[hf.short])
            if recs == 0:
                raise AnalysisError('%s returns no record' % hf.short)

    # -- (c) content: + number of lines of the raw content on the section newline
    cw = [(stmt, inc) for f, stmt, a, inc, val in writes[ctr] if f is cf]
    binds = _bindings(cf.node)
    split_fn = P.func('pydiffx.utils.text', 'split_lines')
    if len(cw) != 1 or cw[0][1] is None:
        rep.violation(rid, 'content-advance-count', cf.loc(), '%s changes the line counter %d times (%s)'
                      % (cf.short, len(cw), [norm(s)[:40] for s, _ in cw]), path=[cf.short])
        return
    stmt, inc = cw[0]
    if top_level_index(cf, stmt) is None:
        rep.violation(rid, 'content-advance-conditional', cf.loc(stmt), '%s advances the line counter inside a conditional or loop (%s): '
                      'some content blocks are not counted' % (cf.short, norm(stmt)[:50]), path=[cf.short])
        return
    v = _through_copies(inc, binds)
    arg = None
    if isinstance(v, ast.Call) and isinstance(v.func, ast.Name) and v.func.id == 'len' and len(v.args) == 1 and not v.keywords \
            and P.resolve_name(cf.module, 'len') is None:
        arg = _through_copies(v.args[0], binds)
    call = None
    if isinstance(arg, ast.Call):
        r = P.resolve_call(cf, arg)
        if isinstance(r, list) and r == [split_fn]:
            call = arg
    if call is None:
        rep.violation(rid, 'content-advance-amount', cf.loc(stmt), '%s advances the line counter by %s, which is not the number of lines '
                      'split_lines() cuts the raw content into on the section newline: where the two differ (decoded text, multi-byte '
                      'newlines, a final unterminated line) the "line" of every later section and parse error is off'
                      % (cf.short, norm(inc)[:60]), path=[cf.short])
        return
    ps = split_fn.params()
    actual = {}
    for i, a in enumerate(call.args):
        if isinstance(a, ast.Starred) or i >= len(ps):
            raise AnalysisError('split_lines call with unrecognised arguments: %s' % norm(call)[:60])
        actual[ps[i]] = a
    for kw in call.keywords:
        if kw.arg is None:
            raise AnalysisError('split_lines call with unrecognised arguments: %s' % norm(call)[:60])
        actual[kw.arg] = kw.value
    if len(ps) < 2 or ps[0] not in actual or ps[1] not in actual:
        raise AnalysisError('split_lines call without data/newline arguments: %s' % norm(call)[:60])
    data, nl = actual[ps[0]], actual[ps[1]]
    stream = R.stream

    def prior(name):
        return [(s, val) for s, val in binds.get(name, []) if s.lineno < call.lineno]

    def is_stream_read(e):
        if not (isinstance(e, ast.Call) and isinstance(e.func, ast.Attribute) and e.func.attr == 'read'):
            return False
        recv = _through_copies(e.func.value, binds)
        return _self_attr_target(recv, cf.params()[0]) == stream
    ok_data = isinstance(data, ast.Name) and prior(data.id) and all(val is not None and is_stream_read(val) for _, val in prior(data.id))
    if ok_data:
        rep.ok(rid, 'content lines counted on the raw bytes read from the stream (%s)' % norm(call)[:70])
    else:
        rep.violation(rid, 'content-count-data', cf.loc(call), 'the lines counted for a content block are those of %s, which is not the '
                      'raw content as read from the stream (stripped / decoded content has a different number of newline occurrences)'
                      % norm(data)[:40], path=[cf.short])
    def recoded(e):
        # a newline that went through decode()/encode() in this function, or a literal: not the bytes utils.text computed
        e = _through_copies(e, binds) if e is not None else None
        return isinstance(e, ast.Constant) or (isinstance(e, ast.Call) and isinstance(e.func, ast.Attribute)
                                               and e.func.attr in ('decode', 'encode'))
    pr = prior(nl.id) if isinstance(nl, ast.Name) else []
    ok_nl = bool(pr) and not any(recoded(val if val is not None else getattr(s, 'value', None)) for s, val in pr)
    if ok_nl:
        rep.ok(rid, 'content lines counted on the section newline as computed for the raw bytes (%s)' % norm(nl))
    else:
        rep.violation(rid, 'content-count-newline', cf.loc(call), 'the lines counted for a content block are split on %s, which is not '
                      'the declared / detected newline as computed for the raw bytes (it is a literal, or was decoded / encoded before the split)' % norm(nl)[:40], path=[cf.short])
