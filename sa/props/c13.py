"""C13 - generated statistics: key agreement, non-destructive merge, skip-before-store, no feedback."""
import ast

from sa.model import AnalysisError, norm, walk_no_nested
from sa.interp import Interp, Frame
from sa.values import ADict, AList, AObj, Unk, concrete, is_concrete, taint_of
from sa.dom import DomRoles
from sa import summary

LEVELS = (('DiffXFileSection', 'file'), ('DiffXChangeSection', 'change'), ('DiffX', 'top'))


CONTENT_SLOT = ['_content']     # set by run() from the content property's getter


def meta_dicts(obj):
    ms = obj.attrs.get('meta_section')
    return ms.attrs.get(CONTENT_SLOT[0]) if isinstance(ms, AObj) else None


def run(P, rep, tier):
    rep.explanation = (
        'Exactness of the counts is arithmetic over runtime diffs (delegated to the hunk parser, C14) and is not decided. '
        'Decided, by abstract execution of generate_stats at the three levels on a tree whose metadata dictionaries are '
        'open (arbitrary existing keys, including an existing "stats"): R1 the keys a level reads from its children are '
        'keys the child level writes; R2 the only mutations of a section\'s metadata are: storing "stats" when it is '
        'absent, or update() on the existing "stats" mapping (custom keys and other metadata survive); R3 paths that do '
        'not analyse a diff (binary, empty/absent, parse error) reach no store; R4 no stored value depends on the '
        'section\'s previous "stats" (idempotence); R5 "lines changed" is the sum of the two stored counts and container '
        'totals are taken from what the children\'s metadata report; R6 diff bytes declared to be in encoding E are not '
        'handed to the ASCII-literal hunk parser undecoded.')
    rep.undecided = ('count exactness (+/- lines inside hunks) for arbitrary diffs: the totals are those of the hunk parser, whose rules (C14, incl. the '
                     'bounded comparison with a reference semantics, C14-R7) are imported here as C13-I14; hunks longer than that bound are not machine-checked')
    rep.trusted_base += ['dict update/get/in semantics as modelled', 'summaries of utils/text.py and the hunk parser']
    D = DomRoles(P)
    CONTENT_SLOT[0] = D.content_slot()
    I = Interp(P)
    hp = P.func('pydiffx.utils.unified_diffs', 'get_unified_diff_hunks')
    I.stubs.update(summary.stubs_for(P, summary.text_utils(P)))
    r1 = rep.rule('C13-R1', 'keys read from children are keys the children write', reference=7)
    r2 = rep.rule('C13-R2', 'metadata is only extended: store "stats" if absent, else update() it', reference=3)
    r3 = rep.rule('C13-R3', 'diffs that are not analysed (binary / empty / unparsable) reach no store', reference=3)
    r4 = rep.rule('C13-R4', 'stored values never depend on the section\'s previous stats (idempotent)', reference=3)
    r5 = rep.rule('C13-R5', '"lines changed" is the sum of the stored counts; totals come from the children\'s reported metadata', reference=3)
    r6 = rep.rule('C13-R6', 'diff bytes in a declared encoding are decoded/transcoded before ASCII-literal hunk matching', reference=1)
    written = {}
    read_from_child = {}
    for cname, level in LEVELS:
        cls = D.classes[cname]
        gs = cls.find_method('generate_stats')
        if gs is None:
            raise AnalysisError('%s.generate_stats not found (anchor vanished)' % cname)
        rep.analysed(gs)
        child_gs = {'change': D.classes['DiffXFileSection'].find_method('generate_stats'),
                    'top': D.classes['DiffXChangeSection'].find_method('generate_stats')}.get(level)
        state = {}

        def hunk_stub(I_, fi, args, kwargs, node):
            I_.emit('hunk-parse', node, {'lines': args[0] if args else kwargs.get('lines'), 'kwargs': kwargs})
            I_.may_raise(node, [P.cls('pydiffx.errors', 'MalformedHunkError')], 'malformed hunk', ())
            d = ADict({}, name='hunks_info')
            for k in ('hunks', 'num_processed_lines'):
                d.items[k] = Unk(k)
            for k in ('total_deletes', 'total_inserts'):
                d.items[k] = Unk(k, kinds=['int'], taint=['COUNT'], src=('count', k))
            return d

        def child_stub(I_, fi, args, kwargs, node):
            I_.emit('child-stats', node, {'child': args[0]})
            return Unk('child-generate_stats-result', taint=['CHILDRET'])
        stubs = {hp.qualname: hunk_stub}
        if child_gs is not None:
            stubs[child_gs.qualname] = child_stub

        def thunk():
            saved = dict(I.stubs)
            I.stubs.update(stubs)
            try:
                t = D.build_tree(I)
                obj = t[cname]
                # open metadata everywhere; own previous stats labelled
                for o in t.values():
                    ms = o.attrs.get('meta_section')
                    if isinstance(ms, AObj):
                        own = o is obj
                        md = ADict({}, open_=True, taint=['OLDMETA'] + (['OWNOLD'] if own else ['CHILDMETA']), name='meta(%s)' % o.cls.name)
                        md.valkinds = None
                        ms.attrs[CONTENT_SLOT[0]] = md
                if cname == 'DiffXFileSection':
                    ds = obj.attrs['diff_section']
                    ds.attrs[CONTENT_SLOT[0]] = Unk('diff', kinds=['bytes', 'NoneType'], taint=['ARG'], src=('diff',))
                    ds.attrs['options'] = ADict({}, open_=True, taint=['OPT'], name='diffopts')
                    ds.attrs['options'].valkinds = frozenset(['str'])
                mark = len(I.events)
                I.frames = []
                I.call_function(gs, [obj], {}, None, self_cls=cls)
                return obj, t, mark
            finally:
                I.stubs.clear()
                I.stubs.update(saved)
        npaths = 0
        keys_written = set()
        reads = set()
        bad_merge = {}
        ok_merge = 0
        skip_bad = {}
        skip_ok = 0
        feedback = {}
        sum_ok = sum_bad = 0
        child_src_bad = {}
        key_mix = {}
        enc_bad = None
        lines_bad = None
        lines_ok = 0
        for path in I.explore(thunk):
            npaths += 1
            if npaths > 20000:
                raise AnalysisError('too many paths in %s.generate_stats' % cname)
            if path.outcome != 'return':
                continue      # exceptions are not part of this property's statement
            obj, t, mark = path.value
            own_meta = meta_dicts(obj)
            evs = path.events[mark:]
            analysed = any(e.kind == 'hunk-parse' for e in evs) and not any(e.kind == 'caught' for e in evs)
            stores = []
            for ev in evs:
                if ev.kind == 'item-store' and ev.data['obj'] is own_meta:
                    stores.append(ev)
                    k = concrete(ev.data['key'])
                    if k != 'stats':
                        bad_merge.setdefault('other-key', (ev, 'metadata key %r is overwritten' % (k,)))
                    elif not ev.data.get('was_absent') and isinstance(ev.data['value'], ADict) and ev.data['value'].open \
                            and 'OWNOLD' in ev.data['value'].taint:
                        ok_merge += 1      # a new mapping built from the previous one (its keys are carried over)
                    elif not ev.data.get('was_absent'):
                        bad_merge.setdefault('overwrite', (ev, 'an existing "stats" mapping (with custom keys) is replaced, not merged'))
                    else:
                        ok_merge += 1
                    val = ev.data['value']
                    if isinstance(val, ADict):
                        keys_written |= set(val.items)
                        _check_values(val, feedback, ev)
                        s_ok = _sum_shape(val)
                        if s_ok is True:
                            sum_ok += 1
                        elif s_ok is False:
                            sum_bad += 1
                elif ev.kind == 'mutate' and ev.data.get('op') == 'dict.update':
                    tgt = ev.data['obj']
                    if isinstance(tgt, Unk) and tgt.src and tgt.src[0] == 'item' and tgt.src[1] is own_meta:
                        stores.append(ev)
                        ok_merge += 1
                        val = ev.data.get('arg')
                        if isinstance(val, ADict):
                            keys_written |= set(val.items)
                            _check_values(val, feedback, ev)
                            s_ok = _sum_shape(val)
                            if s_ok is True:
                                sum_ok += 1
                            elif s_ok is False:
                                sum_bad += 1
                    elif tgt is own_meta:
                        bad_merge.setdefault('update-meta', (ev, 'update() is applied to the metadata itself, not to its "stats" entry'))
                elif ev.kind == 'mutate' and ev.data['obj'] is own_meta:
                    bad_merge.setdefault('mutate:%s' % ev.data.get('op'), (ev, 'the metadata mapping is mutated by %s' % ev.data.get('op')))
                elif ev.kind == 'dict-get' or ev.kind == 'membership':
                    pass
            if cname == 'DiffXFileSection':
                if not analysed:
                    if stores:
                        skip_bad.setdefault(norm(stores[0].node)[:60], stores[0])
                    else:
                        skip_ok += 1
                # R6: what reaches the hunk parser
                for ev in evs:
                    if ev.kind == 'hunk-parse':
                        lines = ev.data['lines']
                        decoded = any(e.kind == 'decode' for e in evs)
                        enc_used = [e for e in evs if e.kind == 'summary-call' and
                                    any(isinstance(v, Unk) and 'OPT' in v.taint for k, v in e.data['args'].items() if k == 'encoding')]
                        if enc_used and not decoded:
                            enc_bad = ev
                        # R8: the parser sees the lines of the diff bytes on the section newline
                        from sa.props.reader_rules import src_chain
                        sp = [e for e in evs if e.kind == 'summary-call' and e.data['callee'].name == 'split_lines']
                        from_split = isinstance(lines, (Unk, AList)) and any(
                            x.src and x.src[0] in ('summary', 'summary-elem') and 'split_lines' in str(x.src[1])
                            for x in (src_chain(lines) if isinstance(lines, Unk) else src_chain(lines.elem) if lines.elem is not None else []))
                        data_ok = any(isinstance(e.data['args'].get('data'), Unk) and any(x.src == ('diff',) for x in src_chain(e.data['args']['data'])) for e in sp)
                        if not (sp and from_split and data_ok):
                            lines_bad = ev
                        else:
                            lines_ok += 1
            # child reads (change/top): which keys of which dict
            for ev in evs:
                if ev.kind == 'dict-get' and is_concrete(ev.data['key']):
                    d = ev.data['dict']
                    if _child_stats_dict(d, obj, t):
                        reads.add(concrete(ev.data['key']))
            if child_gs is not None:
                # accumulated values must come from the children's metadata
                for ev in stores:
                    val = ev.data.get('value') if ev.kind == 'item-store' else ev.data.get('arg')
                    if isinstance(val, ADict):
                        from sa.props.reader_rules import src_chain
                        for k, v in val.items.items():
                            if 'CHILDRET' in taint_of(v):
                                child_src_bad.setdefault(k, ev)
                            # key-wise: the total stored under k adds up what the children report under the same k
                            leaf_keys = set()
                            for x in src_chain(v):
                                if x.src and x.src[0] == 'item' and len(x.src) > 2 and is_concrete(x.src[2]) and 'CHILDMETA' in taint_of(x):
                                    leaf_keys.add(concrete(x.src[2]))
                            leaf_keys.discard('stats')
                            if leaf_keys and leaf_keys != {k}:
                                key_mix.setdefault(k, (ev, sorted(leaf_keys)))
        written[level] = keys_written
        read_from_child[level] = _const_reads(gs)
        inst = '%s.generate_stats' % cname
        if bad_merge:
            for key, (ev, msg) in sorted(bad_merge.items()):
                rep.violation(r2, '%s:%s' % (level, key), ev.loc if ev is not None else gs.loc(), '%s: %s' % (inst, msg), path=[inst])
        elif ok_merge:
            rep.ok(r2, inst, {'paths': npaths, 'stores': ok_merge})
        else:
            raise AnalysisError('%s never stores statistics (idiom not recognised)' % inst)
        if feedback:
            for k, ev in sorted(feedback.items()):
                rep.violation(r4, '%s:feedback:%s' % (level, k), ev.loc,
                              '%s: the stored %r depends on the section\'s previous statistics: generating twice differs from once' % (inst, k), path=[inst])
        else:
            rep.ok(r4, inst)
        if cname == 'DiffXFileSection':
            if skip_bad:
                for txt, ev in skip_bad.items():
                    rep.violation(r3, 'store-without-analysis', ev.loc, '%s stores statistics on a path where the diff was not '
                                  'analysed (binary, empty, absent or unparsable diff): existing figures are clobbered' % inst, path=[inst])
            elif skip_ok:
                rep.ok(r3, inst, {'skipping_paths': skip_ok})
            else:
                raise AnalysisError('no skipping path observed in %s' % inst)
            if enc_bad is not None:
                rep.violation(r6, 'encoded-diff-reaches-ascii-parser', enc_bad.loc,
                              '%s splits the diff with a newline computed in the declared diff encoding but hands the undecoded '
                              'lines to the hunk parser, which matches ASCII literals (b"@@", b"+", b"-"): a UTF-16/32 diff '
                              'counts zero lines' % inst, path=[inst, hp.short])
            else:
                rep.ok(r6, inst)
            r8 = rep.rule('C13-R8', 'the hunk parser is given the lines of split_lines(<diff bytes>, <section newline>), nothing re-split '
                          'or re-encoded', reference=1)
            if lines_bad is not None:
                rep.violation(r8, 'parser-input-not-split-lines', lines_bad.loc,
                              '%s hands the hunk parser lines that are not split_lines(diff, newline) of the diff bytes (e.g. str.splitlines() '
                              'of a decoded copy, which also breaks at FF, VT, NEL, U+2028 and bare CR): hunks are cut in the wrong places '
                              'and the counts are lost or wrong' % inst, path=[inst, hp.short])
            elif lines_ok:
                rep.ok(r8, inst, {'paths': lines_ok})
            else:
                raise AnalysisError('%s: no call of the hunk parser observed' % inst)
        if sum_bad and cname == 'DiffXFileSection':
            rep.violation(r5, '%s:sum-shape' % level, gs.loc(), '%s: "lines changed" is not the sum of the stored insertions and deletions' % inst, path=[inst])
        elif sum_ok and cname == 'DiffXFileSection':
            rep.ok(r5, inst + ' sum shape')
        if child_src_bad:
            k = sorted(child_src_bad)[0]
            rep.violation(r5, '%s:totals-not-from-metadata' % level, child_src_bad[k].loc,
                          '%s: the total %r is computed from the children\'s generate_stats() return values, not from the '
                          'figures their metadata reports: children that were not analysed but carry statistics count as 0' % (inst, k),
                          path=[inst])
        elif child_gs is not None:
            rep.ok(r5, inst + ' totals from child metadata')
        if key_mix:
            k = sorted(key_mix)[0]
            rep.violation(r5, '%s:total-from-other-keys:%s' % (level, k), key_mix[k][0].loc,
                          '%s: the total %r is computed from the children\'s %s instead of from what they report under %r: a child whose '
                          'figures are not related that way (kept statistics of a file that was not analysed) makes the total differ from '
                          'the sum of what the children report' % (inst, k, key_mix[k][1], k), path=[inst])
        elif child_gs is not None:
            rep.ok(r5, inst + ' totals are key-wise sums')
    r7 = rep.rule('C13-R7', 'undeclared line endings are detected from the first line only (shared rule)', reference=1)
    from sa.props.common import first_line_detection
    first_line_detection(P, rep, r7)
    # ---- R1 key agreement ------------------------------------------------------------
    for parent, child in (('change', 'file'), ('top', 'change')):
        for k in sorted(read_from_child[parent]):
            if k in written[child]:
                rep.ok(r1, '%s reads %r from %s' % (parent, k, child))
            else:
                rep.violation(r1, 'key:%s:%s' % (parent, k), D.diffx.module.relpath,
                              'the %s level reads statistics key %r which the %s level never writes (writes %s)'
                              % (parent, k, child, sorted(written[child])))
    for lvl in ('file', 'change', 'top'):
        if 'lines changed' not in written[lvl] or not {'insertions', 'deletions'} <= written[lvl]:
            rep.violation(r1, 'keys:%s' % lvl, D.diffx.module.relpath, 'the %s level writes %s; insertions/deletions/lines changed expected' % (lvl, sorted(written[lvl])))
        else:
            rep.ok(r1, '%s writes %s' % (lvl, sorted(written[lvl])))
    rep.floor(r1, 6)


def _was_absent(evs, store_ev, meta):
    """Was the store reached through the branch where 'stats' was tested absent?"""
    return 'stats' in meta.absent


def _check_values(val, feedback, ev):
    for k, v in val.items.items():
        if 'OWNOLD' in taint_of(v):
            feedback.setdefault(k, ev)


def _sum_shape(val):
    lc = val.items.get('lines changed')
    a, b = val.items.get('insertions'), val.items.get('deletions')
    if lc is None or a is None or b is None:
        return None
    if isinstance(lc, Unk) and lc.src and lc.src[0] == 'binop' and lc.src[1] == 'Add':
        ops = {id(lc.src[2]), id(lc.src[3])}
        if ops == {id(a), id(b)}:
            return True
        return False
    return None


def _child_stats_dict(d, obj, t):
    return False


def _is_child_stats_expr(e, self_name):
    """x.meta['stats'] / x.meta.get('stats', ...) for an x that is not the method's own object."""
    if isinstance(e, ast.Subscript) and isinstance(e.slice, ast.Constant) and e.slice.value == 'stats':
        base = e.value
    elif isinstance(e, ast.Call) and isinstance(e.func, ast.Attribute) and e.func.attr == 'get' and e.args \
            and isinstance(e.args[0], ast.Constant) and e.args[0].value == 'stats':
        base = e.func.value
    else:
        return False
    root = base
    while isinstance(root, (ast.Attribute, ast.Subscript, ast.Call)):
        root = root.value if not isinstance(root, ast.Call) else root.func
    return not (isinstance(root, ast.Name) and root.id == self_name)


def _const_reads(gs):
    """Constant keys read (via [...] or .get) from a child's statistics mapping: from a local bound to
    ``child.meta['stats']`` / ``child.meta.get('stats', ...)`` (whatever the local is called) or from such an
    expression directly."""
    self_name = gs.params()[0] if gs.params() else 'self'
    holders = set()
    for n in walk_no_nested(gs.node):
        if isinstance(n, ast.Assign) and len(n.targets) == 1 and isinstance(n.targets[0], ast.Name) \
                and _is_child_stats_expr(n.value, self_name):
            holders.add(n.targets[0].id)
        if isinstance(n, ast.NamedExpr) and isinstance(n.target, ast.Name) and _is_child_stats_expr(n.value, self_name):
            holders.add(n.target.id)

    def from_child(v):
        return (isinstance(v, ast.Name) and v.id in holders) or _is_child_stats_expr(v, self_name) \
            or (isinstance(v, ast.NamedExpr) and _is_child_stats_expr(v.value, self_name))
    out = set()
    for n in walk_no_nested(gs.node):
        if isinstance(n, ast.Subscript) and from_child(n.value) and isinstance(n.slice, ast.Constant) and isinstance(n.ctx, ast.Load):
            out.add(n.slice.value)
        if isinstance(n, ast.Call) and isinstance(n.func, ast.Attribute) and n.func.attr == 'get' \
                and from_child(n.func.value) and n.args and isinstance(n.args[0], ast.Constant):
            out.add(n.args[0].value)
    return out
