"""C14 geometry: the hunk parser against a reference semantics, over abstract line contents.

Hunk headers are concrete constants chosen by the harness (start lines / counts are what geometry is
about); every body line is an unknown byte string, so each abstract path corresponds to one sequence of
line *classes* ('-', '+', ' ', marker, other, '@@'-other).  For every such sequence (all of them, up to
the stated bounds) the parser's result - hunk entries, totals, consumed lines, or the MalformedHunkError
with its line number - is compared with a reference computed from the class sequence by the semantics
written down in this file from the property statement and the function's documentation."""
import ast
import itertools

from sa.model import AnalysisError, norm
from sa.interp import Interp
from sa.values import ADict, AList, Unk, concrete, is_concrete


class _EmptyOrNone(object):
    """Expected context of a header that ends in '@@ ' with nothing after the space."""
    def __eq__(self, other):
        return other is None or other == b''

    def __ne__(self, other):
        return not self.__eq__(other)

    def __repr__(self):
        return "b'' (or None)"


def header(os_, on, ms, mn, ctx=None, counts=True, trail=False):
    if counts:
        t = b'@@ -%d,%d +%d,%d @@' % (os_, on, ms, mn)
    else:
        t = b'@@ -%d +%d @@' % (os_, ms)
        on = mn = 1
    if ctx:
        t += b' ' + ctx
    elif trail:
        t += b' '
        ctx = _EmptyOrNone()
    return ('H', os_, on, ms, mn, ctx, t)


class Malformed(Exception):
    def __init__(self, idx):
        self.idx = idx


def reference(desc, ignore_garbage):
    hunks = []
    cur = None
    tot_i = tot_d = 0
    processed = None
    n = 0
    for idx, d in enumerate(desc, 1):
        n = idx
        garbage = False
        if d[0] == 'H':
            if cur is not None:
                raise Malformed(idx)
            _, os_, on, ms, mn, ctx, _t = d
            cur = {'context': ctx,
                   'orig': {'first_changed_line': None, 'last_changed_line': None, 'num_lines': on, 'num_lines_changed': 0, 'start_line': os_ - 1},
                   'modified': {'first_changed_line': None, 'last_changed_line': None, 'num_lines': mn, 'num_lines_changed': 0, 'start_line': ms - 1}}
            oi = mi = 0
        elif d[0] == '@':
            garbage = True
        elif cur is not None:
            if d[0] in '-+':
                side = cur['orig'] if d[0] == '-' else cur['modified']
                i = oi if d[0] == '-' else mi
                if side['first_changed_line'] is None:
                    side['first_changed_line'] = side['start_line'] + i
                side['num_lines_changed'] += 1
                side['last_changed_line'] = side['start_line'] + i
                if d[0] == '-':
                    tot_d += 1
                    oi += 1
                else:
                    tot_i += 1
                    mi += 1
            elif d[0] == ' ':
                oi += 1
                mi += 1
            elif d[0] == 'M':
                pass
            else:
                garbage = True
        else:
            garbage = True
        if garbage:
            if cur is not None:
                raise Malformed(idx)
            if not ignore_garbage:
                processed = idx - 1
                break
        if cur is not None and oi >= cur['orig']['num_lines'] and mi >= cur['modified']['num_lines']:
            pre, post = [], []
            for side in (cur['orig'], cur['modified']):
                if side['first_changed_line'] is not None:
                    pre.append(side['first_changed_line'] - side['start_line'])
                if side['last_changed_line'] is not None:
                    post.append(side['num_lines'] - (side['last_changed_line'] - side['start_line'] + 1))
            cur['lines_of_context_pre'] = min(pre or [0])
            cur['lines_of_context_post'] = min(post or [0])
            hunks.append(cur)
            cur = None
    else:
        if cur is not None:
            raise Malformed(n)
    if processed is None:
        processed = n
    return {'hunks': hunks, 'num_processed_lines': processed, 'total_deletes': tot_d, 'total_inserts': tot_i}


def plain(v):
    """Abstract result value -> plain python data (None if not fully concrete)."""
    if isinstance(v, ADict):
        out = {}
        for k, x in v.items.items():
            out[k] = plain(x)
        return out
    if isinstance(v, AList):
        if v.unknown:
            return '<unknown list>'
        return [plain(x) for x in v.items]
    if is_concrete(v):
        return concrete(v)
    return '<unknown:%s>' % getattr(v, 'name', v)


CLASSES = {'-': b'-', '+': b'+', ' ': b' '}


def classify(line, pins, marker):
    """Class of an abstract body line from the facts the path established about it."""
    pf = {f[1] for f in line.facts if isinstance(f, tuple) and f[0] == 'startswith-const' and isinstance(f[1], bytes)}
    # the class of a line is what it starts with, however long the prefix the code happened to test
    if any(x.startswith(b'@@') for x in pf):
        return '@'
    for c, b in CLASSES.items():
        if any(x.startswith(b) for x in pf):
            return c
    for u, v, eq in pins:
        if eq and v == marker and isinstance(u, Unk) and u.src and u.src[0] == 'method' and u.src[1] is line and u.src[2] == 'strip':
            return 'M'
    return 'G'


def scripts(tier):
    kmax = 3 if tier == 'quick' else 4
    heads = [(5, 1, 7, 1), (5, 2, 7, 1), (5, 1, 7, 2), (1, 0, 1, 1), (3, 1, 2, 0), (1, 2, 1, 2), (9, 3, 9, 1),
             (0, 0, 1, 1), (1, 1, 0, 0)]      # created / deleted file: the empty side starts at line 0
    out = []
    for (os_, on, ms, mn) in heads:
        for k in range(0, min(on + mn + 1, kmax) + 1):
            out.append([header(os_, on, ms, mn)] + [('B',)] * k)
    out.append([header(4, 1, 4, 1, counts=False), ('B',), ('B',)])
    out.append([header(4, 1, 4, 1, ctx=b'def f():'), ('B',), ('B',)])
    out.append([header(4, 1, 4, 1, trail=True), ('B',), ('B',)])
    out.append([header(4, 1, 4, 1, ctx=b' '), ('B',), ('B',)])
    # garbage before / between / after hunks, second hunks
    out.append([('B',), header(2, 1, 2, 1), ('B',), ('B',)])
    out.append([header(2, 1, 2, 1), ('B',), ('B',), ('B',)])
    out.append([header(2, 1, 2, 1), ('B',), ('B',), header(8, 1, 9, 1), ('B',), ('B',)][:2 + kmax + 1])
    out.append([header(2, 1, 2, 0), ('B',), header(8, 0, 9, 1), ('B',), ('B',)])
    out.append([header(2, 2, 2, 2), ('B',), header(8, 1, 9, 1)])
    out.append([('B',), ('B',)])
    out.append([])
    return out


def geometry_rule(P, rep, rid, tier):
    f = P.func('pydiffx.utils.unified_diffs', 'get_unified_diff_hunks')
    mhe = P.cls('pydiffx.errors', 'MalformedHunkError')
    marker = P.fold_module_const('pydiffx.utils.unified_diffs', 'NO_NEWLINE_MARKER')
    total_paths = 0
    mismatches = {}
    n_seq = 0
    for script in scripts(tier):
        for ig in (False, True):
            I = Interp(P)
            I.fold_regex_on_constants = True
            I.pin_log = []
            # abstract body lines are, by construction of the scripts, not hunk headers
            I.regex_oracle = lambda I_, rx_, mode, data, node: None if isinstance(data, Unk) else 'unknown'
            state = {}

            def thunk():
                del I.pin_log[:]
                lines = []
                for d in script:
                    if d[0] == 'H':
                        lines.append(d[6])
                    else:
                        u = Unk('line%d' % len(lines), kinds=['bytes'], taint=['ARG'])
                        lines.append(u)
                state['lines'] = lines
                return I.call_function(f, [AList(list(lines))], {'ignore_garbage': ig}, None)
            for path in I.explore(thunk):
                total_paths += 1
                if total_paths > 400000:
                    raise AnalysisError('geometry exploration exceeds its path budget')
                lines = state['lines']
                desc = []
                for d, l in zip(script, lines):
                    if d[0] == 'H':
                        desc.append(d)
                    else:
                        desc.append((classify(l, I.pin_log, marker),))
                n_seq += 1
                key_seq = ' '.join(x[0] if x[0] != 'H' else 'H(-%d,%d +%d,%d)' % (x[1], x[2], x[3], x[4]) for x in desc)
                try:
                    exp = reference(desc, ig)
                    exp_err = None
                except Malformed as m:
                    exp, exp_err = None, m.idx
                if path.outcome == 'raise':
                    e = path.value
                    got_err = None
                    if e.exc.exc is mhe:
                        ln = e.exc.kwargs.get('line_num', e.exc.args[1] if len(e.exc.args) > 1 else None)
                        got_err = concrete(ln) if is_concrete(ln) else '?'
                        got = 'MalformedHunkError(line %s)' % got_err
                    else:
                        got = e.exc.exc_name
                    if exp_err is None or got_err != exp_err:
                        mismatches.setdefault(('error', norm(e.site)[:50] if e.site is not None else '?'),
                                              (key_seq, ig, got, 'MalformedHunkError(line %s)' % exp_err if exp_err else _short(exp)))
                    continue
                if path.outcome != 'return':
                    continue
                got = plain(path.value)
                if exp_err is not None:
                    mismatches.setdefault(('missing-error',), (key_seq, ig, _short(got), 'MalformedHunkError(line %s)' % exp_err))
                    continue
                diff = first_difference(got, exp)
                if diff:
                    mismatches.setdefault(('result', diff[0]), (key_seq, ig, diff[1], diff[2]))
    rep.extra['geometry'] = {'class_sequences_checked': n_seq, 'paths': total_paths, 'scripts': len(scripts(tier)) * 2}
    if mismatches:
        for key, (seq, ig, got, exp) in sorted(mismatches.items(), key=str):
            rep.violation(rid, 'geometry:%s' % ':'.join(map(str, key)), f.loc(),
                          'for the line sequence [%s] (ignore_garbage=%s) the parser gives %s where the reference semantics gives %s'
                          % (seq, ig, got, exp), path=[f.short], witness=seq)
    else:
        rep.ok(rid, 'all class sequences up to the bound', {'sequences': n_seq})
    if n_seq < 200:
        raise AnalysisError('geometry exploration covered only %d sequences' % n_seq)


def _short(v):
    s = repr(v)
    return s if len(s) < 160 else s[:157] + '...'


def first_difference(got, exp, path='result'):
    if isinstance(exp, dict):
        if not isinstance(got, dict):
            return (path, _short(got), _short(exp))
        for k in exp:
            if k not in got:
                return ('%s[%r]' % (path, k), 'missing', _short(exp[k]))
            d = first_difference(got[k], exp[k], '%s[%r]' % (path, k))
            if d:
                return d
        return None
    if isinstance(exp, list):
        if not isinstance(got, list) or len(got) != len(exp):
            return (path, '%s entries' % (len(got) if isinstance(got, list) else got), '%d entries' % len(exp))
        for i, (g, e) in enumerate(zip(got, exp)):
            d = first_difference(g, e, '%s[%d]' % (path, i))
            if d:
                return d
        return None
    if exp != got:
        return (path, repr(got), repr(exp))
    return None
