"""C15 - newline and BOM handling depends on the codec, not on how its name is spelled."""
import ast
import codecs
import encodings
import encodings.aliases
import pkgutil

from sa.model import AnalysisError, norm, walk_no_nested
from sa.interp import Interp, Frame
from sa.values import ADict, AList, Unk, concrete, is_concrete
from sa.roles import closure


def platform_codecs():
    """Canonical codec names of the running platform (stdlib only, never pydiffx)
    and those that emit a BOM when encoding a newline."""
    names = set(m.name for m in pkgutil.iter_modules(encodings.__path__))
    names |= set(encodings.aliases.aliases.values())
    canon = set()
    for n in sorted(names):
        try:
            canon.add(codecs.lookup(n).name)
        except Exception:
            continue
    bom = {}
    for c in sorted(canon):
        try:
            a = '\n'.encode(c)
            aa = '\n\n'.encode(c)
            back = a.decode(c)
        except Exception:
            continue
        if back != '\n':
            continue
        n_u = len(aa) - len(a)
        if n_u <= 0 or n_u >= len(a):
            continue
        u = aa[-n_u:]
        if a.endswith(u) and aa == a + u and u != a:
            bom[c] = a[:-n_u]     # emitted once per encode call, before the text: a BOM
    return canon, bom


def run(P, rep, tier):
    rep.explanation = (
        'R1: in the BOM-stripping function the key used to index the BOM table is, on every path, the canonical codec '
        'name obtained from the codec registry (value fact canon-codec from codecs.lookup(x).name), so every spelling of '
        'a codec reaches the same table row. R2: the folded BOM table covers every codec of the platform registry that '
        'emits a BOM when encoding a newline (computed at check time from the standard library alone), its keys are '
        'canonical names, the BOM tuples of a key have equal length (the strip uses len(boms[0])), contain the BOM the '
        'codec emits, and leave a non-empty newline. R3: every .encode(E) applied to a newline constant is routed '
        'through the stripping function with the same E before any other use, in utils/text.py and in the writer.')
    rep.undecided = 'behaviour of individual exotic codecs on arbitrary text; stateful / non-text codecs are outside the property'
    rep.trusted_base += ['codecs.lookup name canonicalisation and the stdlib codec registry (platform facts computed at check time)',
                         'machine byte order as seen by the utf-16/utf-32 codecs']
    tm = P.module('pydiffx.utils.text')
    strip = P.func('pydiffx.utils.text', 'strip_bom')
    boms = P.fold_module_const('pydiffx.utils.text', 'BOMS')
    nlf = P.fold_module_const('pydiffx.utils.text', 'NEWLINE_FORMATS')
    newline_consts = set(nlf.values()) | {'\n', '\r\n'}
    rep.analysed(strip)

    # ---- R1 ------------------------------------------------------------------
    r1 = rep.rule('C15-R1', 'BOM table is indexed by the canonical codec name on every path', reference=1)
    I = Interp(P)

    def thunk():
        data = Unk('data', kinds=['bytes'], taint=['ARG'])
        enc = Unk('encoding', kinds=['str', 'NoneType'], taint=['ARG'], src=('param', 'encoding'))
        return I.call_function(strip, [data, enc], {}, None)
    lookups = 0
    bad = []
    for path in I.explore(thunk):
        caught_lookup = any(ev.kind == 'caught' for ev in path.events)
        for ev in path.events:
            if ev.kind == 'dict-get' and getattr(ev.data['dict'], 'shared', '') .endswith('BOMS'):
                lookups += 1
                key = ev.data['key']
                if is_concrete(key) and concrete(key) is None:
                    continue
                ok = isinstance(key, Unk) and 'canon-codec' in key.facts
                if not ok and not caught_lookup:
                    bad.append((ev, key))
            elif ev.kind == 'membership' and getattr(ev.data['right'], 'shared', '').endswith('BOMS'):
                lookups += 1
                key = ev.data['left']
                if not (isinstance(key, Unk) and 'canon-codec' in key.facts) and not caught_lookup:
                    bad.append((ev, key))
    # subscript access BOMS[key]
    if lookups == 0:
        raise AnalysisError('no lookup in the BOM table observed in strip_bom (idiom not recognised)')
    if bad:
        ev, key = bad[0]
        rep.violation(r1, 'raw-key', ev.loc,
                      'the BOM table is indexed with %s, which is not the canonical codec name: spellings such as "UTF-16", '
                      '"utf_16", "u16" or "utf--16" keep the byte order mark in the newline' % getattr(key, 'name', key),
                      path=[strip.short], construct=norm(ev.node))
    else:
        rep.ok(r1, strip.short, {'lookups_observed': lookups})

    # ---- R2 ------------------------------------------------------------------
    r2 = rep.rule('C15-R2', 'BOM table covers every BOM-emitting codec of the platform; rows are well-formed', reference=11)
    canon, emit = platform_codecs()
    rep.extra['platform'] = {'canonical_codecs': len(canon), 'bom_emitting': {k: repr(v) for k, v in emit.items()}}
    if not isinstance(boms, dict):
        raise AnalysisError('BOMS does not fold to a dict')
    loc = tm.relpath
    for c, b in sorted(emit.items()):
        if c not in boms:
            rep.violation(r2, 'missing-codec:%s' % c, loc, 'codec %r emits the BOM %r when encoding a newline but has no row in '
                          'the BOM table: its newline keeps the BOM' % (c, b))
        elif b not in boms[c]:
            rep.violation(r2, 'bom-not-listed:%s' % c, loc, 'row %r of the BOM table lacks the BOM %r the codec emits here' % (c, b))
        else:
            rep.ok(r2, 'covers %s' % c)
    for k, tup in boms.items():
        try:
            cn = codecs.lookup(k).name
        except (LookupError, TypeError):
            cn = None
        if cn != k:
            rep.violation(r2, 'non-canonical-key:%s' % k, loc, 'BOM table key %r is not a canonical codec name (canonical: %r); after '
                          'canonicalisation the row can never be selected' % (k, cn))
            continue
        if not isinstance(tup, tuple) or not tup or len({len(x) for x in tup}) != 1:
            rep.violation(r2, 'unequal-bom-lengths:%s' % k, loc, 'BOM tuple of %r has members of different length; the strip removes '
                          'len(boms[0]) bytes whichever member matched' % k)
            continue
        try:
            nl = '\n'.encode(k)
        except Exception:
            nl = None
        if nl is not None and any(nl.startswith(b) and len(nl) == len(b) for b in tup):
            rep.violation(r2, 'empty-newline:%s' % k, loc, 'stripping the BOM of %r leaves an empty newline' % k)
        else:
            rep.ok(r2, 'row %s' % k, {'boms': [repr(x) for x in tup]})
    rep.floor(r2, 5)

    # ---- R3 routing ---------------------------------------------------------------
    r3 = rep.rule('C15-R3', 'every encoded newline constant is routed through the BOM strip with the same encoding', reference=5)
    funcs = [f for f in tm.funcs.values() if f is not strip]
    wcls = P.cls('pydiffx.writer', 'DiffXWriter')
    # the writer function that encodes newlines: found through the call graph from the public write methods
    for name in ('write_preamble', 'write_diff', 'write_meta'):
        m = wcls.find_method(name)
        if m is None:
            raise AnalysisError('DiffXWriter.%s not found' % name)
        for f in closure(P, m, wcls):
            if f.cls is wcls and f not in funcs and _encodes_newline(f, newline_consts):
                funcs.append(f)
    # any other function of the package that encodes a newline constant itself
    for f in P.all_functions():
        if f in funcs or f is strip or f.module.name.endswith('pygments_lexer'):
            continue
        txt = [norm(n) for n in walk_no_nested(f.node) if isinstance(n, ast.Call) and isinstance(n.func, ast.Attribute) and n.func.attr == 'encode']
        if any('NEWLINE_FORMATS' in t or t.startswith(("'\\n'", "'\\r\\n'", '"\\n"')) for t in txt):
            funcs.append(f)
    route_rule(P, rep, r3, funcs, strip, newline_consts)
    rep.floor(r3, 1)
    # ---- R4: the reader asks for a section's newline with that section's effective encoding ----------------
    r4 = rep.rule('C15-R4', 'the reader derives the newline of a content section (declared or detected) with the very encoding the '
                  'section is decoded with, on every path', reference=6)
    from sa.props import reader_rules as rr
    R, res = rr.analyse(P, tier)
    for X in rr.CONTENT_IDS:
        ue = res[X]['util_encoding']
        bad = [u for u in ue if u[1] != 'same']
        if not ue:
            raise AnalysisError('no newline helper call observed for %s (idiom not recognised)' % X)
        if bad:
            rep.violation(r4, 'newline-encoding:%s:%s' % (X, ','.join(sorted(u[0] for u in bad))), R.content_fn.loc(),
                          'section %s: %s is called with an encoding (%s) that is not the section\'s effective encoding on some path: the '
                          'newline searched for is not the newline of that codec (wide, BOM-emitting or non-ASCII-compatible codecs)'
                          % (X, ', '.join(sorted(u[0] for u in bad)), ', '.join(sorted(u[1] for u in bad))), path=[R.content_fn.short])
        else:
            rep.ok(r4, X, sorted(u[0] for u in ue))
        du = res[X]['decode_unit']
        if du not in (['whole content'], []):
            rep.violation(r4, 'decode-unit:%s' % X, R.content_fn.loc(), 'section %s is decoded %s: the byte order mark of BOM-emitting codecs is '
                          'honoured / consumed for the first piece only and wide characters can be cut at a piece boundary'
                          % (X, ' / '.join(du)), path=[R.content_fn.short])


_BOM_CODECS = set(platform_codecs()[1])


def _canon(name):
    try:
        return codecs.lookup(name).name
    except Exception:
        return name


def _same(a, b):
    return a is b or (is_concrete(a) and is_concrete(b) and concrete(a) == concrete(b))


def route_rule(P, rep, rid, funcs, strip, newline_consts):
    """Every function of ``funcs`` that encodes a newline constant: the encoded value goes through the BOM strip
    with the same encoding before use; when a function only hands the encoded newline back, its callers are checked."""
    n_sites = 0
    todo = [(f, 0) for f in funcs if _encodes_newline(f, newline_consts)]
    done = set()
    while todo:
        f, depth = todo.pop(0)
        if f in done:
            continue
        done.add(f)
        rep.analysed(f)
        res = _route_check(P, f, strip, newline_consts)
        for site, ok, msg, deferred in res:
            n_sites += 1
            if deferred:
                cs = _callers(P, f)
                if not cs or depth >= 3:
                    rep.violation(rid, 'unrouted:%s:%s' % (f.short, site), f.loc(), '%s: %s (the encoded newline is returned and no caller '
                                  'could be analysed)' % (f.short, msg), path=[f.short])
                else:
                    rep.info('%s returns the newline encoded by %s; checked in its callers %s' % (f.short, site, [c.short for c in cs]))
                    todo += [(c, depth + 1) for c in cs]
            elif ok:
                rep.ok(rid, '%s: %s' % (f.short, site))
            else:
                rep.violation(rid, 'unrouted:%s:%s' % (f.short, site), f.loc(), '%s: %s' % (f.short, msg), path=[f.short])
    return n_sites


def _callers(P, g):
    out = []
    for f in P.all_functions():
        if f is g:
            continue
        for n in walk_no_nested(f.node):
            if isinstance(n, ast.Call):
                try:
                    r = P.resolve_call(f, n, self_cls=f.cls)
                except Exception:
                    r = None
                if (isinstance(r, list) and g in r) or r is g:
                    if f not in out:
                        out.append(f)
    return out


def _encodes_newline(f, consts):
    for n in walk_no_nested(f.node):
        if isinstance(n, ast.Call) and isinstance(n.func, ast.Attribute) and n.func.attr == 'encode':
            return True
    return False


def _route_check(P, f, strip, consts):
    """For every path of f: each .encode(E) on a newline value must be handed
    to strip_bom together with the same E, and must not be used otherwise."""
    I = Interp(P)
    from sa import summary
    I.stubs.update(summary.stubs_for(P, [P.func('pydiffx.utils.text', 'split_lines'),
                                        P.func('pydiffx.utils.unified_diffs', 'get_unified_diff_hunks')]))
    params = f.params()
    out = {}
    deferred = set()

    def thunk():
        args = []
        for p in params:
            if p == 'self':
                from sa.values import AObj
                dom = None
                if f.module.name == 'pydiffx.dom.objects':
                    from sa.dom import DomRoles
                    D_ = DomRoles(P)
                    objs = D_.build_tree(I)
                    dom = objs.get(f.cls.name)
                    if dom is not None:
                        for o_ in objs.values():
                            if 'options' in o_.attrs:
                                o_.attrs['options'] = ADict({}, open_=True, taint=['ARG'], name='options')
                                o_.attrs['options'].valkinds = frozenset(['str'])
                            cs_ = D_.content_slot()
                            if cs_ in o_.attrs and o_.cls.name == 'DiffXFileDiffSection':
                                o_.attrs[cs_] = Unk('diff', kinds=['bytes'], taint=['ARG'])
                                o_.attrs[cs_].facts.add('truthy')
                        I.frames = []
                        args.append(dom)
                        continue
                # the object the method runs on: built by the class's own constructor with an unknown current encoding
                # (whatever private state the constructor sets up), falling back to a bare object
                o = None
                try:
                    from sa.values import AStream
                    init_ = f.cls.find_method('__init__')
                    if init_ is not None and 'encoding' in init_.params():
                        saved_ = I.frames
                        I.frames = [Frame(init_)]
                        try:
                            o = I.instantiate(f.cls, [AStream('out', taint=())], {'encoding': Unk('cur', kinds=['str'], taint=['ARG'])}, None)
                        finally:
                            I.frames = saved_
                except AnalysisError:
                    o = None
                if o is None:
                    o = AObj(f.cls)
                args.append(o)
            elif p in ('encoding',):
                args.append(Unk(p, kinds=['str', 'NoneType'], taint=['ARG'], src=('param', p)))
            elif p in ('line_endings',):
                args.append(Unk(p, kinds=['str', 'NoneType'], taint=['ARG'], src=('param', p)))
            elif p in ('text', 'content', 'data'):
                args.append(Unk(p, kinds=['bytes', 'str'], taint=['ARG'], src=('param', p)))
            else:
                d = f.param_defaults()
                if p in d:
                    args.append(I.eval_default(f, d[p]))
                else:
                    args.append(Unk(p, taint=['ARG'], src=('param', p)))
        return I.call_function(f, args, {}, None, self_cls=f.cls)
    npaths = 0
    for path in I.explore(thunk):
        npaths += 1
        if npaths > 6000:
            raise AnalysisError('too many paths in %s' % f.short)
        from sa.props.common import encoded_piecewise
        for a_ in (path.events[0].data['locals'].values() if path.events and path.events[0].kind == 'enter' else ()):
            if isinstance(a_, Unk) and a_.src and a_.src[0] == 'param' and a_.src[1] in ('text', 'content', 'data'):
                pw = encoded_piecewise(path.events, a_)
                if pw is not None:
                    out['piecewise:' + norm(pw.node)[:50]] = (False, 'the text is encoded piece by piece (%s): every piece of a BOM-emitting codec '
                                                              'carries its own byte order mark' % norm(pw.node)[:50])
        encs = []
        for ev in path.events:
            if ev.kind == 'encode' and f in ev.stack:
                recv = ev.data['recv']
                isnl = (is_concrete(recv) and concrete(recv) in consts) or \
                    (isinstance(recv, Unk) and any(s_ and s_ <= frozenset(consts) for s_ in recv.in_sets)) or \
                    (isinstance(recv, Unk) and getattr(recv, 'one_of', None) and all(x in consts for x in recv.one_of))
                if isnl:
                    encs.append(ev)
        # results of those encodes: find the Unk produced (src method recv encode)
        for ev in encs:
            site = norm(ev.node)[:60]
            enc = ev.data['encoding']
            recv = ev.data['recv']
            routed = False
            if is_concrete(enc) and concrete(enc) not in _BOM_CODECS and _canon(concrete(enc)) not in _BOM_CODECS:
                routed = True       # a codec that emits no BOM needs no stripping
            for e2 in path.events:
                if e2.kind == 'enter' and e2.data['callee'] is strip:
                    loc = e2.data['locals']
                    d, e = loc.get('data'), loc.get('encoding')
                    same_enc = e is enc or (is_concrete(e) and is_concrete(enc) and concrete(e) == concrete(enc))
                    if isinstance(d, Unk) and d.src and d.src[0] == 'method' and d.src[2] == 'encode' and \
                            _same(d.src[1], recv) and _same(d.src[3][0], enc) and same_enc:
                        routed = True
                    if is_concrete(d) and is_concrete(recv) and is_concrete(enc) and same_enc:
                        try:
                            if concrete(d) == concrete(recv).encode(concrete(enc)):
                                routed = True
                        except Exception:
                            pass
            # a path that raises before using the newline needs no routing
            if path.outcome == 'raise':
                routed = True
            if not routed and path.outcome == 'return' and _returns_encoded(path.value, recv, enc):
                # the encoded newline is handed back to the caller unused: the obligation moves to the callers
                deferred.add(site)
                routed = True
            cur = out.get(site)
            if cur is None or (cur[0] and not routed):
                out[site] = (routed, 'the newline encoded by %s reaches its use without passing through %s with the same '
                             'encoding on some path: for BOM-emitting codecs the newline keeps its BOM' % (site, strip.short))
    return [(s_, ok, msg, s_ in deferred) for s_, (ok, msg) in sorted(out.items())]


def _returns_encoded(val, recv, enc, depth=0):
    if isinstance(val, Unk) and val.src and val.src[0] == 'method' and val.src[2] == 'encode' and _same(val.src[1], recv):
        return True
    if isinstance(val, (tuple, list)) and depth < 3:
        return any(_returns_encoded(x, recv, enc, depth + 1) for x in val)
    if isinstance(val, AList) and depth < 3:
        return any(_returns_encoded(x, recv, enc, depth + 1) for x in val.items)
    return False
