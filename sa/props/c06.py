"""C06 - parse then re-serialise (pass-through closure and default agreement)."""
import ast

from sa.model import AnalysisError, Unfoldable, norm, walk_no_nested
from sa.interp import Interp, Frame
from sa.values import ADict, AList, AObj, AStream, Unk, concrete as cv, is_concrete as is_c
from sa.dom import DomRoles, DomReaderHarness, capture_record_shapes, SECTION_CLASSES
from sa.props.c05 import typed_options, writer_method_for
from sa import sinks


def verbatim_rule(P, rep, rid):
    """Abstractly load a full tree whose content-section headers carry: length, an encoding marker, an unknown
    option marker (and no format on metadata).  The options mapping of the section built from each record must
    hold exactly the header's pairs minus "length": same value objects, no key the header did not have."""
    from sa.dom import all_objects
    shapes = capture_record_shapes(P)
    problems = {}
    counts = {'ok': 0, 'paths': 0, 'sections': 0}
    for full in (False, True):
        _verbatim_pass(P, shapes, full, problems, counts)
    if not counts['paths'] or (not counts['ok'] and not problems):
        raise AnalysisError('loading the marked tree produced no completed path')
    dr = P.cls('pydiffx.dom.reader', 'DiffXDOMReader')
    for (key, sid), msg in sorted(problems.items()):
        rep.violation(rid, 'verbatim:%s:%s' % (sid, key), dr.module.relpath, msg, path=['DiffXDOMReader.parse'])
    if not problems:
        rep.ok(rid, 'content sections of a loaded tree hold header options minus length', {'sections': counts['sections'], 'paths': counts['paths']})


KNOWN_OPTION_NAMES = ('encoding', 'line_endings', 'indent', 'mimetype', 'format', 'type')


def _verbatim_pass(P, shapes, full, problems, counts):
    from sa.dom import all_objects
    H = DomReaderHarness(P, shapes, open_options=False)
    marks = {}

    def hook(i, sid, rec):
        opts = None
        for v in rec.items.values():
            if isinstance(v, ADict):
                opts = v
        if opts is None:
            raise AnalysisError('record without an options mapping')
        if sid in ('diffx', '.change', '..file'):
            return
        mk = Unk('marker#%d' % i, kinds=['str'], taint=['INPUT'])
        keep = {'x-unknown': mk}
        # unknown option names that are fragments of a known one (a membership test written against a
        # string instead of a tuple would swallow them)
        for k_ in ('len', 'n', 'gth', 'enc', 'form'):
            keep[k_] = Unk('%s#%d' % (k_, i), kinds=['str'], taint=['INPUT'])
        for k_ in list(opts.items):
            if k_ != 'length':
                del opts.items[k_]
        if full:
            # every option name the specification defines, each with its own unknown value
            for k_ in KNOWN_OPTION_NAMES:
                keep[k_] = Unk('%s#%d' % (k_, i), kinds=['str'], taint=['INPUT'])
        opts.items.update(keep)
        marks[i] = (sid, mk, dict(opts.items))
    H.record_hook = hook
    I = Interp(P, unknown_iters=(1,))
    H.install(I)

    def thunk():
        marks.clear()
        rd = H.new_reader(I)
        tree, s = H.run_parse(I, rd, 'in')
        return tree
    npaths = 0
    okc = 0
    for path in I.explore(thunk):
        npaths += 1
        if npaths > 3000:
            raise AnalysisError('too many paths while loading the marked tree')
        if path.outcome != 'return':
            continue
        objs = all_objects(path.value)
        for i, (sid, mk, header) in sorted(marks.items()):
            owner = [o for o in objs if isinstance(o.attrs.get('options'), ADict) and any(v is mk for v in o.attrs['options'].items.values())]
            if len(owner) != 1:
                problems.setdefault(('unknown-option-lost', sid), 'the unknown option of a %s header is not found in the options of exactly one '
                                    'section of the loaded tree (found in %d)' % (sid, len(owner)))
                continue
            got = owner[0].attrs['options'].items
            want = {k: v for k, v in header.items() if k != 'length'}
            extra = sorted(set(got) - set(want))
            missing = sorted(set(want) - set(got))
            changed = sorted(k for k in set(want) & set(got) if got[k] is not want[k] and not (is_c(got[k]) and is_c(want[k]) and cv(got[k]) == cv(want[k])))
            if 'length' in got:
                problems.setdefault(('length-kept', sid), 'the derived option "length" of a %s header is kept in the object model' % sid)
                extra = [k for k in extra if k != 'length']
            if extra:
                problems.setdefault(('extra:%s' % ','.join(extra), sid), 'a %s section loaded from a header without %s has %s in its options '
                                    '(class defaults are not cleared): re-serialising adds options the file did not have' % (sid, extra, extra))
            if missing:
                problems.setdefault(('dropped:%s' % ','.join(missing), sid), 'the option(s) %s of a %s header are not stored in the object model' % (missing, sid))
            if changed:
                problems.setdefault(('changed:%s' % ','.join(changed), sid), 'the option(s) %s of a %s header are stored with a different value' % (changed, sid))
            if not (extra or missing or changed or 'length' in got):
                okc += 1
    counts['ok'] += okc
    counts['paths'] += npaths
    counts['sections'] += len(marks)


def run(P, rep, tier):
    rep.explanation = (
        'Byte identity / fixed-point behaviour on concrete files is NOT decided. Decided: R1 (pass-through closure) the '
        'object model is loaded from abstract records whose option mappings are open (any header key except length), then '
        'serialised; wherever such a mapping is splatted (**) into a streaming-writer call with a closed signature, its '
        'keys must have been filtered to that signature; R2 (default agreement) a streaming-writer keyword parameter that '
        'is rendered into the header and has a non-None default must be passed explicitly by the DOM writer, otherwise a '
        'library-written file without that option comes back with it; R3 the DOM reader stores header options verbatim '
        '(drops only length) and the DOM writer re-emits every stored option (table rules shared with C05); R4 serialising '
        'does not change the tree (shared with C18-R4).')
    rep.undecided = 'byte identity on library-produced files and idempotence on foreign files as such'
    rep.trusted_base += ['** argument binding semantics as modelled in sa/interp.py:bind_params']
    D = DomRoles(P)
    I = Interp(P, unknown_iters=(1,))
    I.no_open_fork = True
    shapes = capture_record_shapes(P)
    H = DomReaderHarness(P, shapes, open_options=True)
    H.open_ids = {'diffx', '.preamble', '.meta', '..preamble', '..meta', '...meta', '...diff'}
    H.install(I)
    sw = P.cls('pydiffx.writer', 'DiffXWriter')
    dw = P.cls('pydiffx.dom.writer', 'DiffXDOMWriter')
    for f in dw.methods.values():
        rep.analysed(f)
    splats = {}

    def sw_stub(I_, fi, args, kwargs, node):
        fr = Frame(fi, sw)
        I_.bind_params(fr, fi, args, kwargs, node)     # emits 'open-splat' when an open mapping meets a closed signature
        return None
    stubs = {}
    for nm in ('__init__', 'new_change', 'new_file', 'write_preamble', 'write_meta', 'write_diff'):
        m = sw.find_method(nm)
        if m is None:
            raise AnalysisError('DiffXWriter.%s not found (anchor vanished)' % nm)
        stubs[m.qualname] = sw_stub

    def thunk():
        I.deterministic = True
        try:
            rd = H.new_reader(I)
            tree, s = H.run_parse(I, rd, 'in')
        finally:
            I.deterministic = False
        # every section of the parsed tree holds the header options verbatim: open mappings
        from sa.dom import containers
        for o, w in containers(tree).values():
            if isinstance(o, AObj) and isinstance(o.attrs.get('options'), ADict) and o.cls.name not in ('DiffXChangeSection', 'DiffXFileSection'):
                o.attrs['options'].open = True
                o.attrs['options'].taint = frozenset(['INPUT', 'OPTKEY'])
            for k in (D.content_slot(),):
                if isinstance(o, AObj) and isinstance(o.attrs.get(k), Unk):
                    o.attrs[k].facts.add('truthy')
        saved = dict(I.stubs)
        I.stubs.update(stubs)
        try:
            mark = len(I.events)
            tb = tree.cls.find_method('to_bytes')
            I.frames = []
            I.call_function(tb, [tree], {}, None, self_cls=tree.cls)
            return mark
        finally:
            I.stubs.clear()
            I.stubs.update(saved)
    n = 0
    calls_seen = set()
    for path in I.explore(thunk):
        n += 1
        if n > 5000:
            break
        mark = path.value if path.outcome == 'return' else 0
        for ev in path.events:
            if ev.kind == 'open-splat':
                cal = ev.data['callee']
                splats.setdefault((cal.short, ev.fn, norm(ev.node)[:70]), ev)
            if ev.kind == 'enter' and ev.data['callee'].cls is sw:
                calls_seen.add(ev.data['callee'].short)
    r1 = rep.rule('C06-R1', 'header options kept by the object model are filtered to the signature they are splatted into', reference=6)
    if not n:
        raise AnalysisError('no path through parse + to_bytes')
    for (callee, fn, txt), ev in sorted(splats.items()):
        rep.violation(r1, 'open-splat:%s' % callee, ev.loc,
                      'options read from a header (any key the file contains) are passed as **keywords to %s, whose signature is '
                      'closed: DiffX.from_bytes accepts a file with an unknown option there and to_bytes() then raises TypeError'
                      % callee, path=[fn, callee], construct=txt)
    for nm in ('DiffXWriter.__init__', 'DiffXWriter.new_change', 'DiffXWriter.new_file', 'DiffXWriter.write_preamble',
               'DiffXWriter.write_meta', 'DiffXWriter.write_diff'):
        if not any(k[0] == nm for k in splats):
            rep.ok(r1, nm, 'receives only keys of its own signature')
    rep.extra['paths_explored'] = n

    # ---- R2 default agreement --------------------------------------------------------------------
    r2 = rep.rule('C06-R2', 'writer defaults that are rendered into headers are passed explicitly by the DOM writer', reference=6)
    rendered = {'encoding', 'indent', 'line_endings', 'mimetype', 'format', 'type', 'version', 'length'}
    from sa.props.c05 import find_remap_table
    remap = find_remap_table(P, dw)
    inv = {}
    for sec, mp in (remap or {}).items():
        for k, v in mp.items():
            inv[(sec, v)] = k
    for cname in SECTION_CLASSES:
        cls = D.classes[cname]
        m, mname = writer_method_for(P, D, cls, sw)
        if m is None:
            continue
        sname = P.fold_class_attr(cls, 'section_name')
        try:
            dom_defaults = P.fold_class_attr(cls, 'default_options')
        except Unfoldable:
            dom_defaults = {}
        for pname, dexpr in m.param_defaults().items():
            try:
                dv = P.fold(dexpr, m.module, sw)
            except Unfoldable:
                continue
            opt = inv.get((sname, pname), pname)
            if dv is None or opt not in rendered:
                continue
            if cname == 'DiffX':
                # write_stream passes version / encoding explicitly
                ws = dw.find_method('write_stream')
                explicit = any(isinstance(n, ast.keyword) and n.arg == pname for n in ast.walk(ws.node))
            else:
                explicit = opt in dom_defaults and dom_defaults[opt] == dv
            if explicit:
                rep.ok(r2, '%s(%s=%r) is passed explicitly / recorded as a default option of %s' % (mname, pname, dv, cname))
            else:
                rep.violation(r2, 'default-not-overridden:%s:%s' % (mname, pname), m.loc(),
                              '%s(%s=%r): the DOM writer passes only the stored options, so a %s section parsed from a header '
                              'without %r is re-serialised with %s=%r: the bytes differ from the file that was read'
                              % (mname, pname, dv, sname, opt, opt, dv), path=[dw.name + '._write_content_section', mname])
    # ---- R3 verbatim storage / re-emission (table rules) -----------------------------------------------
    r3 = rep.rule('C06-R3', 'the DOM reader stores options verbatim (drops only length)', reference=1)
    verbatim_rule(P, rep, r3)
    r3b = rep.rule('C06-R3b', 'the DOM writer re-emits every stored option whatever its value (shared with C05-R8)', reference=5)
    from sa.props.c05 import reemit_rule
    reemit_rule(P, D, rep, r3b, dw, remap)
    r3c = rep.rule('C06-R3c', 'metadata is dumped canonically: indent=4, sort_keys, default separators and ASCII escapes', reference=1)
    wm = sw.find_method('write_meta')
    found = False
    for n in walk_no_nested(wm.node):
        if isinstance(n, ast.Call) and norm(n.func) == 'json.dumps':
            found = True
            kws = {k.arg: k.value for k in n.keywords}
            bad = []
            for key, want in (('indent', 4), ('sort_keys', True)):
                v = kws.get(key)
                if not (isinstance(v, ast.Constant) and v.value == want):
                    bad.append('%s=%s' % (key, norm(v) if v is not None else 'absent'))
            ea = kws.get('ensure_ascii')
            if ea is not None and not (isinstance(ea, ast.Constant) and ea.value is True):
                bad.append('ensure_ascii=%s' % norm(ea))
            if bad:
                rep.violation(r3c, 'json-dumps-args', wm.loc(n), 'write_meta calls json.dumps with %s: a library-written file is not '
                              're-serialised to the same bytes (and non-ASCII metadata can fail to encode)' % ', '.join(bad))
            else:
                rep.ok(r3c, norm(n)[:70])
    if not found:
        rep.violation(r3c, 'no-json-dumps', wm.loc(), 'write_meta no longer serialises with json.dumps')
    # ---- R4 serialising does not change the tree (fixed point needs it) --------------------------------
    r4 = rep.rule('C06-R4', 'to_bytes() leaves the tree unchanged (second serialisation sees the same options)', reference=1)
    from sa.dom import containers
    bad = {}

    def all_options_hook(i, sid, rec):
        # every option name the specification defines is present in every content header (with an unknown value):
        # code that touches an option only "if present" is exercised
        if sid in ('diffx', '.change', '..file'):
            return
        for v in rec.items.values():
            if isinstance(v, ADict):
                for k_ in KNOWN_OPTION_NAMES:
                    v.items.setdefault(k_, Unk('%s#%d' % (k_, i), kinds=['str'], taint=['INPUT']))

    def thunk2():
        H2 = DomReaderHarness(P, shapes, open_options=False)
        H2.record_hook = all_options_hook
        H2.install(I)
        I.deterministic = True
        try:
            rd = H2.new_reader(I)
            tree, s = H2.run_parse(I, rd, 'in')
        finally:
            I.deterministic = False
        saved = dict(I.stubs)
        I.stubs.update({k: (lambda I_, fi, a, kw, node: None) for k in stubs})
        try:
            mark = len(I.events)
            I.frames = []
            I.call_function(tree.cls.find_method('to_bytes'), [tree], {}, None, self_cls=tree.cls)
            return tree, mark
        finally:
            I.stubs.clear()
            I.stubs.update(saved)
    m = 0
    for path in I.explore(thunk2):
        m += 1
        if m > 2000:
            break
        if path.outcome != 'return':
            continue
        tree, mark = path.value
        cs = containers(tree)
        for ev in path.events[mark:]:
            if ev.kind in ('mutate', 'item-store', 'item-del', 'attr-store') and id(ev.data.get('obj')) in cs:
                bad.setdefault(norm(ev.node)[:60], ev)
    if bad:
        for txt, ev in bad.items():
            rep.violation(r4, 'to-bytes-mutates:%s' % txt, ev.loc, 'to_bytes() changes the tree (%s in %s): serialising again gives '
                          'different bytes' % (txt, ev.fn), path=['to_bytes', ev.fn])
    else:
        rep.ok(r4, 'to_bytes', {'paths': m})

    # ---- R5 encoding scopes of both layers (shared with C04) -----------------------------------------
    from sa.props.c04 import reader_scope_rule, writer_scope_rule
    r5a = rep.rule('C06-R5r', 'reader encoding scopes follow the nesting oracle (K1): parsing decodes with the declared encodings', reference=286)
    r5b = rep.rule('C06-R5w', 'writer encoding scopes follow the same oracle (K1): re-serialising encodes with the same ones', reference=20)
    reader_scope_rule(P, rep, r5a)
    writer_scope_rule(P, rep, r5b)
