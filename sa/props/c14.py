"""C14 - unified-diff hunk parser: positioned errors, no other exception, consumed-line count."""
import ast

from sa.model import AnalysisError, norm, walk_no_nested
from sa.interp import Interp, exc_name
from sa.values import ADict, AList, Unk, concrete, is_concrete


def run(P, rep, tier):
    rep.explanation = (
        'The hunk parser is abstractly executed on every list shape the loop bound distinguishes (empty list, 1..3 '
        'abstract byte lines; ignore_garbage true/false; header regex match/no match; each line class). R1 definite '
        'assignment: no local is read unbound on any path, including the empty list. R2 the set of exceptions that can '
        'leave the function is {MalformedHunkError} (explicit raises exact; sink table for int(), group(), indexing). '
        'R3 every MalformedHunkError carries the loop\'s current line and line number. R4 the "\\\\ No newline" marker '
        'branch changes no counter. R5 None-sentinels that may hold the index 0 are tested with "is (not) None", never by '
        'truthiness. R6 the reported number of processed lines equals the number of loop iterations started (minus the '
        'one garbage line that ends parsing).')
    rep.undecided = ('hunk geometry for line sequences longer than the enumerated bound (R7 compares every sequence of line classes up to the bound with a '
                     'reference semantics; beyond it the argument is the uniformity of the per-line update, not machine-checked)')
    rep.trusted_base += ['sink table rows for int(), Match.group, list/dict indexing; enumerate/len semantics']
    f = P.func('pydiffx.utils.unified_diffs', 'get_unified_diff_hunks')
    mhe = P.cls('pydiffx.errors', 'MalformedHunkError')
    rep.analysed(f)
    I = Interp(P, unknown_iters=(0, 1, 2, 3) if tier == 'thorough' else (0, 1, 2))
    I.truth_sites = {}

    def thunk():
        lines = AList([], elem=Unk('line', kinds=['bytes'], taint=['ARG'], src=('param', 'lines')))
        c = I.choose(3, 'ignore_garbage')
        ig = [False, True, Unk('ignore_garbage', kinds=['bool'], taint=['ARG'])][c]
        return I.call_function(f, [lines], {'ignore_garbage': ig}, None)
    r1 = rep.rule('C14-R1', 'every local is bound before it is read on every path (including the empty list)', reference=1)
    r2 = rep.rule('C14-R2', 'only MalformedHunkError can leave the parser', reference=10)
    r3 = rep.rule('C14-R3', 'every MalformedHunkError raise names the current line and its number', reference=3)
    r6 = rep.rule('C14-R6', 'num_processed_lines equals the number of lines examined (minus a terminating garbage line)', reference=1)
    unbound = {}
    escapes = {}
    safe_sinks = set()
    raises = {}
    count_bad = {}
    count_ok = 0
    npaths = 0
    for path in I.explore(thunk):
        npaths += 1
        if npaths > 60000:
            raise AnalysisError('too many paths in the hunk parser')
        iters = [e for e in path.events if e.kind == 'for-iter' and e.fi is f and _is_top_loop(f, e.node)]
        breaks = [e for e in path.events if e.kind == 'for-break' and e.fi is f and _is_top_loop(f, e.node)]
        cur_line = None
        cur_num = 0
        for ev in path.events:
            if ev.kind == 'unbound':
                unbound.setdefault((ev.data['name'], norm(ev.node)), ev)
            elif ev.kind == 'mayraise' and not ev.data['caught']:
                escapes.setdefault((exc_name(ev.data['exc']), norm(ev.node)[:70], ev.data['why']), ev)
            elif ev.kind == 'raise' and not ev.data.get('implicit'):
                v = ev.data['value']
                if v.exc is mhe:
                    n_started = len([e for e in iters if path.events.index(e) < path.events.index(ev)])
                    line = v.kwargs.get('line', v.args[0] if v.args else None)
                    num = v.kwargs.get('line_num', v.args[1] if len(v.args) > 1 else None)
                    okline = isinstance(line, Unk) and line.src and line.src[0] == 'elem'
                    oknum = is_concrete(num) and concrete(num) == n_started
                    raises.setdefault(norm(ev.node)[:80], [ev, True, True])
                    if not okline:
                        raises[norm(ev.node)[:80]][1] = False
                    if not oknum:
                        raises[norm(ev.node)[:80]][2] = False
        if path.outcome == 'raise':
            e = path.value
            if e.exc.exc is not mhe and e.exc.exc_name != 'MalformedHunkError':
                escapes.setdefault((e.exc.exc_name, norm(e.site)[:70] if e.site is not None else '?', e.note), None)
        elif path.outcome == 'return':
            res = path.value
            if isinstance(res, ADict):
                cand = [k for k in res.items if 'processed' in str(k)]
                if len(cand) == 1:
                    val = res.items[cand[0]]
                    expect = len(iters) - (1 if breaks else 0)
                    if is_concrete(val) and concrete(val) == expect:
                        count_ok += 1
                    else:
                        count_bad.setdefault(str(concrete(val) if is_concrete(val) else val), (len(iters), bool(breaks), expect))
    rep.extra['paths_explored'] = npaths
    if unbound:
        for (name, txt), ev in sorted(unbound.items()):
            rep.violation(r1, 'unbound:%s' % name, ev.loc,
                          'local %r can be read before assignment at [%s] (e.g. for an empty list of lines): UnboundLocalError '
                          'escapes instead of a result or MalformedHunkError' % (name, txt), path=[f.short])
    else:
        rep.ok(r1, f.short, {'paths': npaths})
    for (exc, txt, why), ev in sorted(escapes.items(), key=str):
        if exc == 'UnboundLocalError':
            continue
        loc = ev.loc if ev is not None else f.loc()
        rep.violation(r2, 'escape:%s:%s' % (exc, txt), loc, '%s can escape from the hunk parser at [%s]: %s' % (exc, txt, why), path=[f.short])
    # proved-safe sinks: group() / indexing / int sites seen without escape
    sink_sites = set()
    for n in walk_no_nested(f.node):
        if isinstance(n, ast.Call) and isinstance(n.func, ast.Name) and n.func.id == 'int':
            sink_sites.add(norm(n)[:70])
        elif isinstance(n, ast.Subscript) and isinstance(n.ctx, ast.Load):
            sink_sites.add(norm(n)[:70])
        elif isinstance(n, ast.Call) and isinstance(n.func, ast.Attribute) and n.func.attr in ('group', 'match', 'startswith', 'strip', 'update', 'append'):
            sink_sites.add(norm(n)[:70])
    for s_ in sorted(sink_sites):
        if not any(k[1] == s_ for k in escapes):
            rep.ok(r2, 'safe: %s' % s_)
    rep.floor(r2, 6)
    for txt, (ev, okline, oknum) in sorted(raises.items()):
        if okline and oknum:
            rep.ok(r3, txt)
        else:
            rep.violation(r3, 'raise-args:%s' % txt, ev.loc,
                          'MalformedHunkError raised at [%s] does not carry %s of the line being examined'
                          % (txt, ' and '.join(([] if okline else ['the content']) + ([] if oknum else ['the 1-based number']))),
                          path=[f.short])
    # the error object must expose exactly what the raise site handed over
    init = mhe.find_method('__init__')
    if init is None:
        raise AnalysisError('MalformedHunkError.__init__ not found (anchor vanished)')
    from sa.values import AObj
    I2 = Interp(P)
    st = {}

    def ctor():
        line = Unk('line', kinds=['bytes'], taint=['ARG'])
        num = Unk('line_num', kinds=['int'], taint=['ARG'])
        st['args'] = (line, num)
        o = AObj(mhe)
        I2.frames = []
        kw = {} if I2.choose(2, 'msg') == 0 else {'msg': Unk('msg', kinds=['str'], taint=['ARG'])}
        I2.call_function(init, [o, line, num], kw, None, self_cls=mhe)
        return o
    nctor = 0
    for path in I2.explore(ctor):
        nctor += 1
        if nctor > 200:
            raise AnalysisError('too many paths in MalformedHunkError.__init__')
        if path.outcome != 'return':
            if path.outcome == 'raise' and 'msg' in str(getattr(path.value, 'note', '') or ''):
                continue
            continue
        o = path.value
        line, num = st['args']
        bad = [n_ for n_, a_ in (('line', line), ('line_num', num)) if o.attrs.get(n_) is not a_]
        if bad:
            rep.violation(r3, 'error-attrs:%s' % ','.join(bad), init.loc(),
                          'MalformedHunkError.__init__ does not store its %s argument unchanged in the attribute of the same name: '
                          'the error no longer names the offending line / number' % ' and '.join(bad), path=[init.short])
        else:
            rep.ok(r3, 'MalformedHunkError stores line and line_num unchanged (%s)' % ('default message' if nctor == 1 else 'custom message'))
    rep.floor(r3, 2)
    if count_bad:
        val, (n, broke, expect) = sorted(count_bad.items())[0]
        rep.violation(r6, 'processed-count', f.loc(),
                      'num_processed_lines is %s on a path that examined %d lines%s (expected %d): callers resume parsing at '
                      'the wrong line' % (val, n, ' and stopped at a garbage line' if broke else '', expect), path=[f.short])
    elif count_ok:
        rep.ok(r6, f.short, {'returning_paths': count_ok})
    else:
        raise AnalysisError('result key for the processed-line count not identified')

    r7 = rep.rule('C14-R7', 'hunk geometry, totals, consumed lines and error positions equal the reference semantics for every '
                  'sequence of line classes up to the bound (headers concrete, line contents abstract)', reference=1)
    from sa.props.c14geo import geometry_rule
    geometry_rule(P, rep, r7, tier)

    # ---- R4 marker branch --------------------------------------------------------
    r4 = rep.rule('C14-R4', 'the "\\\\ No newline at end of file" marker branch touches no counter', reference=1)
    marker_tests = []
    for n in walk_no_nested(f.node):
        if isinstance(n, ast.If) and isinstance(n.test, ast.Compare) and 'NO_NEWLINE_MARKER' in norm(n.test):
            marker_tests.append(n)
    if not marker_tests:
        raise AnalysisError('marker test not found in the hunk parser')
    for n in marker_tests:
        op = n.test.ops[0]
        marker_body = n.orelse if isinstance(op, ast.NotEq) else n.body
        touched = [norm(x) for s_ in marker_body for x in ast.walk(s_) if isinstance(x, (ast.AugAssign,))]
        if touched:
            rep.violation(r4, 'marker-counts', f.loc(n), 'the marker branch changes a counter: %s' % touched[:2], path=[f.short])
        else:
            rep.ok(r4, norm(n.test))

    # ---- R5 None-sentinel truthiness ---------------------------------------------------
    r5 = rep.rule('C14-R5', 'values that are None or an index that may be 0 are never tested by truthiness', reference=10)
    for (q, nid), (node, kinds, fi) in sorted(I.truth_sites.items(), key=lambda x: (x[1][0].lineno, x[0][1])):
        if fi is not f:
            continue
        if 'NoneType' in kinds and 'int-maybe-0' in kinds:
            rep.violation(r5, 'sentinel-truthiness:%s' % norm(node)[:50], f.loc(node),
                          'the test [%s] uses truthiness on a value that is None on some paths and an integer that can be 0 on '
                          'others: a change on the first line (index 0) is treated as "no change"' % norm(node)[:60], path=[f.short])
        else:
            rep.ok(r5, norm(node)[:60], sorted(kinds))
    rep.floor(r5, 5)


def _is_top_loop(f, node):
    return node in f.node.body
