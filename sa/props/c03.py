"""C03 - the reader yields what the specification says a well-formed file contains."""
import ast

from sa.model import AnalysisError, norm, walk_no_nested
from sa.roles import SPEC_IDS
from sa.props import reader_rules as rr
from sa.props.common import first_line_detection
from sa.props import c11


def run(P, rep, tier):
    rep.explanation = (
        'Value-level agreement with an independent reading of the specification is not decidable statically. Decided on '
        'the abstract paths of one reader iteration per section id: R1 the rejection catalogue - each of the six spec '
        'violations has a guard whose accepted value set equals the specification\'s (version in {1.0} and present; length '
        'present; content ends with its newline; format absent or json; JSON errors converted; line_endings in {dos, unix}) '
        'and whose failing branch raises DiffXParseError; R2 the per-kind interpretation table (which options each content '
        'kind consumes, diffs returned as bytes and never inheriting an encoding, indent only for preambles); R3 '
        'transformation order and granularity (indentation stripped per line of the declared/detected newline split, '
        'before decoding; nothing trimmed afterwards); R4 line endings detected from the first line only; R5 header '
        'tolerance idioms (blank lines skipped, integer conversion covers -?[0-9]+); R7 line accounting (the "line" of a '
        'record is the reader\'s counter at its header; the counter starts at 0, advances by exactly 1 per header and by '
        'len(split_lines(raw content, section newline)) per content block, and nothing else writes it).')
    rep.undecided = 'equality of yielded content/options with the specification\'s reading on concrete files'
    rep.trusted_base += ['folded option choice sets of options.py', 'summaries of utils/text.py']
    R, res = rr.analyse(P, tier)
    rep.analysed(*R.funcs)
    r1 = rep.rule('C03-R1', 'rejection catalogue: accepted value sets equal the specification\'s; failures raise DiffXParseError', reference=12)
    valid_versions = P.fold_class_attr(P.cls('pydiffx.options', 'SpecVersion'), 'VALID_VALUES')
    le_valid = P.fold_class_attr(P.cls('pydiffx.options', 'LineEndings'), 'VALID_VALUES')
    nlf = P.fold_module_const('pydiffx.utils.text', 'NEWLINE_FORMATS')
    # (a) version
    want = (tuple(sorted(map(str, valid_versions))),)
    vs = res['diffx']['version']
    if all(tuple(v) == want for v in vs) and vs:
        rep.ok(r1, 'version', 'every yielded main section has version in %s' % sorted(valid_versions))
    else:
        rep.violation(r1, 'version-guard', R.entry.loc(), 'a main section is yielded whose version was not tested against %s '
                      '(seen: %s): a missing or unsupported version is accepted' % (sorted(valid_versions), vs), path=[R.entry.short])
    if frozenset(valid_versions) != frozenset(['1.0']):
        rep.violation(r1, 'version-set', 'python/pydiffx/options.py', 'SpecVersion.VALID_VALUES is %s, the specification defines 1.0 only' % sorted(valid_versions))
    # (b) length present, (c) newline check, (e) json errors, (f) line endings
    for X in rr.CONTENT_IDS:
        r = res[X]
        caught = {c[1] for c in r['caught'] if c[1] == 'KeyError' and "key 'length'" in c[2]}
        if 'KeyError' in caught and r['read_n'] == ['length']:
            rep.ok(r1, '%s length required' % X)
        else:
            rep.violation(r1, 'length-guard:%s' % X, R.entry.loc(), 'section %s: a missing length option is not converted into DiffXParseError '
                          '(handlers seen: %s)' % (X, sorted(caught)), path=[R.entry.short])
        if r['newline_checked'] == [True]:
            rep.ok(r1, '%s ends with its newline' % X)
        else:
            rep.violation(r1, 'newline-check:%s' % X, R.content_fn.loc(), 'section %s can be yielded without the check that its content ends '
                          'with the declared/detected newline' % X, path=[R.content_fn.short])
        cc = {c[1] for c in r['caught'] if c[2].startswith('raised in pydiffx.utils.text:')}
        if 'ValueError' in cc:
            rep.ok(r1, '%s unknown line_endings rejected' % X)
        else:
            rep.violation(r1, 'line-endings-guard:%s' % X, R.content_fn.loc(), 'section %s: an unknown line_endings value is not converted into '
                          'DiffXParseError' % X, path=[R.content_fn.short])
    if frozenset(nlf) != frozenset(le_valid) or frozenset(le_valid) != frozenset(['dos', 'unix']):
        rep.violation(r1, 'line-endings-set', 'python/pydiffx/utils/text.py', 'accepted line_endings %s differ from the specification\'s {dos, unix}' % sorted(nlf))
    else:
        rep.ok(r1, 'line_endings set = {dos, unix}')
    for X in ('.meta', '..meta', '...meta'):
        r = res[X]
        if set(r['format']) <= {"'json'", 'absent'} and r['format']:
            rep.ok(r1, '%s format in {absent, json}' % X)
        else:
            rep.violation(r1, 'format-guard:%s' % X, R.entry.loc(), 'section %s is yielded with format %s: only an absent format or "json" '
                          'is allowed' % (X, r['format']), path=[R.entry.short])
        caught = {c[1] for c in r['caught'] if 'json.loads' in c[2]}
        if 'ValueError' in caught:
            rep.ok(r1, '%s invalid JSON rejected' % X)
        else:
            rep.violation(r1, 'json-guard:%s' % X, R.entry.loc(), 'section %s: a JSON decoding error is not converted into DiffXParseError' % X)
    rep.floor(r1, 20)

    # ---- R2 per-kind table -----------------------------------------------------------------
    r2 = rep.rule('C03-R2', 'per-kind interpretation: options consumed, bytes vs text, encoding inheritance, indent', reference=6)
    for X in rr.CONTENT_IDS:
        r = res[X]
        kind = X.lstrip('.')
        probs = []
        for params in r['content_params']:
            d = {k: (t, v) for k, t, v in params}
            kb = d.get('keep_bytes', ('const', False))
            if kind == 'diff':
                if kb != ('const', True):
                    probs.append('diff content is not kept as bytes')
                enc = d.get('encoding')
                if enc and enc[0] == 'option' and enc[1] not in ('encoding', None):
                    probs.append('diff encoding comes from %s' % enc[1])
                if enc and enc[0] == 'option' and enc[1] is None:
                    probs.append('a diff section inherits an encoding from an enclosing section')
            else:
                if kb != ('const', False):
                    probs.append('%s content is kept as bytes' % kind)
            ind = d.get('indent')
            if kind != 'preamble' and ind and ind != ('const', None):
                probs.append('indent is applied to a %s section' % kind)
            if kind == 'preamble' and ind and ind[0] == 'option' and ind[1] != 'indent':
                probs.append('indent comes from option %s' % ind[1])
            le = d.get('line_endings')
            if le and le[0] == 'option' and le[1] != 'line_endings':
                probs.append('line_endings comes from option %s' % le[1])
        if kind == 'preamble' and not any(('indent', 'option', 'indent') in params for params in r['content_params']):
            probs.append('the indent option is never applied to preambles')
        if not any(('line_endings', 'option', 'line_endings') in params for params in r['content_params']):
            probs.append('the line_endings option is never consumed')
        probs = sorted(set(probs))
        if probs:
            rep.violation(r2, 'kind-table:%s' % X, R.entry.loc(), 'section %s: %s' % (X, '; '.join(probs)), path=[R.entry.short])
        else:
            rep.ok(r2, X)
    rep.floor(r2, 6)

    # ---- R3 order and granularity ------------------------------------------------------------
    r3 = rep.rule('C03-R3', 'indentation is stripped per line of the newline split, before decoding; nothing is trimmed afterwards', reference=8)
    for X in ('.preamble', '..preamble'):
        r = res[X]
        if r['sub_data'] != ['line']:
            rep.violation(r3, 'indent-granularity:%s' % X, R.content_fn.loc(),
                          'section %s: the indentation pattern is applied to %s, not to each line of the split on the declared/detected '
                          'newline: with CRLF or UTF-16/32 content line starts are misjudged' % (X, r['sub_data']), path=[R.content_fn.short])
        elif any(f & 8 for f in r['sub_flags']):
            rep.violation(r3, 'indent-multiline:%s' % X, R.content_fn.loc(), 'section %s: the indentation pattern is compiled with re.MULTILINE: '
                          '"^" also matches after bare LF bytes inside a line' % X, path=[R.content_fn.short])
        elif r['order'] and r['order'] != ['strip-before-decode']:
            rep.violation(r3, 'order:%s' % X, R.content_fn.loc(), 'section %s: content is decoded before its indentation is stripped' % X)
        else:
            rep.ok(r3, '%s indentation' % X)
    for X in rr.CONTENT_IDS:
        r = res[X]
        trimmed = [s for k, s in r['returned'] if s]
        if trimmed:
            rep.violation(r3, 'trimmed:%s' % X, R.content_fn.loc(), 'section %s: the returned content is altered after reading (%s)' % (X, trimmed))
        else:
            rep.ok(r3, '%s content returned untrimmed' % X)

    # ---- R4 first-line detection ----------------------------------------------------------------
    r4 = rep.rule('C03-R4', 'undeclared line endings are detected from the first line only', reference=1)
    first_line_detection(P, rep, r4)

    r6 = rep.rule('C03-R6', 'content is decoded with its own, else the nearest enclosing declared encoding (K1 exploration, shared with C04)', reference=286)
    from sa.props.c04 import reader_scope_rule
    reader_scope_rule(P, rep, r6)

    # ---- R5 header tolerance --------------------------------------------------------------------
    r5 = rep.rule('C03-R5', 'blank lines before a header are skipped; one record per header', reference=10)
    hf = R.header_fn
    loops = [n for n in walk_no_nested(hf.node) if isinstance(n, ast.While)]
    skip = False
    for lp in loops:
        for n in ast.walk(lp):
            if isinstance(n, ast.If) and 'strip()' in norm(n.test) and any(isinstance(x, ast.Break) for x in n.body):
                skip = True
    if skip:
        rep.ok(r5, 'blank-line skipping loop in %s' % hf.short)
    else:
        rep.violation(r5, 'no-blank-skip', hf.loc(), 'the header function no longer skips blank lines between sections')
    for X in SPEC_IDS:
        if res[X]['yields_per_path'] == [1]:
            rep.ok(r5, '%s: one record per header' % X)
        else:
            rep.violation(r5, 'yield-count:%s' % X, R.entry.loc(), 'section %s is yielded %s times on some path' % (X, res[X]['yields_per_path']))

    # ---- R7 line accounting -------------------------------------------------------------------
    r7 = rep.rule('C03-R7', 'logical line of a record = line counter at its header; the counter advances by 1 per header and by the '
                  'number of lines of the raw content (split on the section newline) per content block', reference=5)
    try:
        rr.line_accounting_rule(P, rep, r7, R)
        rep.floor(r7, 5 if not rep.violations else 0)
    except AnalysisError as e:
        # a tree the other rules already reject is reported as such; an unanalysable counter alone fails the run
        if not rep.violations:
            raise
        rep.info('C03-R7 could not be decided on this tree (%s); the violations above stand on their own' % str(e)[:200])
