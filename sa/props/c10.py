"""C10 - the reader accepts exactly the section orders the hierarchy allows."""
import ast

from sa.model import AnalysisError, norm, spec_text, walk_no_nested
from sa.roles import ReaderRoles, SPEC_IDS, spec_follow, spec_doc_tree
from sa.harness import ReaderHarness, Script, history_to, history_ending_in
from sa.values import concrete, is_concrete, Unk
from sa import rx as RX
from sa import models as M


def permitted_relation(P, rep, rule):
    """(required, permitted) successor relations of the specification."""
    req = spec_follow()
    doc = spec_doc_tree(spec_text(P.repo, 'section-format.rst'))
    perm = {k: set(v) for k, v in req.items()}
    if doc is None:
        rep.info('state tree not found in section-format.rst; only the hierarchy grammar is used as oracle')
        return req, perm
    for k, vs in doc.items():
        for v in vs:
            nv = v
            if nv not in SPEC_IDS and nv[1:] in SPEC_IDS:
                rep.info('doc typo normalised in section-format.rst state tree: %s -> %s (under %s)' % (v, nv[1:], k))
                nv = nv[1:]
            if k in perm and nv in SPEC_IDS:
                perm[k].add(nv)
    for k in req:
        miss = req[k] - {x if x in SPEC_IDS else x[1:] for x in doc.get(k, set())}
        if miss:
            rep.info('section-format.rst state tree omits %s -> %s (required by the hierarchy in sections.rst)'
                     % (k, sorted(miss)))
    return req, perm


def check_table(P, rep, rid, table, what):
    req, perm = permitted_relation(P, rep, rid)
    if not isinstance(table, dict):
        raise AnalysisError('%s does not fold to a dict' % what)
    for k in SPEC_IDS:
        if k not in table:
            rep.violation(rid, 'missing-key:%s' % k, 'python/pydiffx/sections.py', '%s has no entry for %r' % (what, k))
    for k in table:
        if k not in SPEC_IDS:
            rep.violation(rid, 'extra-key:%s' % k, 'python/pydiffx/sections.py', '%s has an entry for the illegal id %r' % (what, k))
    for k in SPEC_IDS:
        succ = set(table.get(k, ()))
        for x in SPEC_IDS + tuple(sorted(succ - set(SPEC_IDS))):
            inst = '%s -> %s' % (k, x)
            if x in req[k] and x not in succ:
                rep.violation(rid, 'missing-edge:%s' % inst, 'python/pydiffx/sections.py',
                              '%s lacks the transition %s required by the hierarchy' % (what, inst))
            elif x in succ and x not in perm[k]:
                rep.violation(rid, 'extra-edge:%s' % inst, 'python/pydiffx/sections.py',
                              '%s allows %s, which neither the hierarchy nor the specification state tree allows' % (what, inst))
            else:
                rep.ok(rid, inst, 'allowed' if x in succ else 'forbidden')
    return req, perm


def header_ids(R):
    """Finite set of ids the header regex's first group (the id) can capture."""
    out = None
    for node, rx in R.header_apps:
        tree = RX.parse(rx.pattern, rx.flags)
        gd = tree.state.groupdict
        best = None
        for name, gi in gd.items():
            lang = RX.group_language(rx.pattern, rx.flags, gi)
            try:
                ids = RX.enumerate_finite(lang, 400)
            except AnalysisError:
                continue
            strs = {bytes(w).decode('latin-1') for w in ids}
            if 'diffx' in strs and any(s.startswith('.') for s in strs):
                best = (name, strs)
        if best is None:
            raise AnalysisError('no group of the header regex captures the section id')
        out = best
    return out


def allowed_var(R):
    """Name of the entry's local passed to the header function as allowed set."""
    for n in walk_no_nested(R.entry.node):
        if isinstance(n, ast.Call):
            r = R.P.resolve_call(R.entry, n, self_cls=R.cls)
            if isinstance(r, list) and R.header_fn in r:
                args = list(n.args) + [k.value for k in n.keywords]
                names = [a.id for a in args if isinstance(a, ast.Name)]
                if len(names) == 1:
                    return names[0], n
    return None, None


def main_loop(R):
    loops = [n for n in R.entry.node.body if isinstance(n, ast.While)]
    if len(loops) != 1:
        raise AnalysisError('expected one top-level while loop in %s' % R.entry.short)
    return loops[0]


def membership_events(path, X, start=0):
    """The first membership test of id X after event index start (the test
    that decides acceptance of the header just read)."""
    for ev in path.events[start:]:
        if ev.kind == 'membership':
            l = ev.data['left']
            if is_concrete(l) and concrete(l) == X:
                return [ev]
    return []


def setval(v):
    v = concrete(v) if is_concrete(v) else v
    if isinstance(v, (frozenset, set, tuple, list)):
        try:
            return frozenset(v)
        except TypeError:
            return None
    return None


def run(P, rep, tier):
    rep.explanation = (
        'Finite relation equality + typestate dominance. The accepted order relation is a function of '
        '(previous id, next id) only: R4 compares the folded VALID_SECTION_STATES with the specification '
        'relation; R1/R2/R3 abstractly execute DiffXReader.iter_sections (section ids concrete, all other data '
        'abstract, instance state havocked to cover reuse of a reader object) and show that the first header is '
        'tested against {diffx}, that every yielded record passed a membership test against exactly the table row '
        'of the previous id, and that the row used for the next header is the row of the id just yielded; R5 shows '
        'every legal id is expressible by the header regex. Together: accepted id sequences of any length = spec.')
    rep.undecided = 'none for the order clause; syntactic validity of headers is C11'
    rep.trusted_base += ['CPython semantics of set membership, dict lookup', 're._parser (regex AST)',
                         'hierarchy grammar of sections.rst as transcribed in sa/roles.py:spec_follow']
    rep.assumptions += ['no monkey-patching; DiffXReader not subclassed with overridden helpers']
    R = ReaderRoles(P)
    rep.analysed(*R.funcs)
    table = P.fold_module_const('pydiffx.sections', 'VALID_SECTION_STATES')
    r4 = rep.rule('C10-R4', 'folded transition table equals the specification relation (81 id pairs)', reference=81)
    req, perm = check_table(P, rep, r4, table, 'VALID_SECTION_STATES')
    rep.floor(r4, 81)

    r5 = rep.rule('C10-R5', 'each legal id is in the language of the header regex id group', reference=9)
    gname, ids = header_ids(R)
    for sid in SPEC_IDS:
        if sid in ids:
            rep.ok(r5, sid)
        else:
            rep.violation(r5, 'id-not-expressible:%s' % sid, R.header_fn.loc(),
                          'legal section id %r cannot be matched by the header regex (group %s)' % (sid, gname))
    ids = sorted(ids | set(SPEC_IDS))
    rep.extra['candidate_ids'] = ids

    var, loop = None, None          # previous-id states are reached through real histories, not loop-state injection
    global _CTX
    _CTX = (P, R, table, var, loop)
    tasks = [('R1', None, X) for X in ids]
    tasks += [('R2', Pid, X) for Pid in SPEC_IDS for X in ids]
    tasks += [('R3', None, X) for X in SPEC_IDS]
    tasks += [('R6', None, X) for X in SPEC_IDS]
    from sa.par import pmap
    results = dict(zip(tasks, pmap(_task, tasks)))
    total_paths = sum(r['paths'] for r in results.values())

    r1 = rep.rule('C10-R1', 'on entry (whatever the reader object was used for before) only the main header is '
                  'accepted, tested against the constant {diffx}', reference=len(ids))
    bad_accept, bad_set = [], []
    for X in ids:
        r = results[('R1', None, X)]
        want = (X == 'diffx')
        if r['accepted'] != want:
            bad_accept.append((X, r['accepted'], r['sets']))
        elif set(r['sets']) - {"['diffx']"}:
            bad_set.append((X, r['sets']))
        elif r['exceeded']:
            raise AnalysisError('R1: path budget exceeded for first header %s' % X)
        else:
            rep.ok(r1, 'first header %s' % X, {'paths': r['paths'], 'accepted': r['accepted']})
    if bad_accept:
        rep.violation(r1, 'first-header-acceptance', R.entry.loc(),
                      'as first header of an iteration: %s' % '; '.join(
                          '%r is %s (membership tested against %s)' % (x, 'accepted' if y else 'rejected', s_)
                          for x, y, s_ in bad_accept[:6]) + (' ...' if len(bad_accept) > 6 else ''),
                      path=[R.entry.short, R.header_fn.short], witness=[x for x, _, _ in bad_accept])
    if bad_set:
        rep.violation(r1, 'first-header-set', R.entry.loc(),
                      'the first header of an iteration is not tested against the constant {diffx} but against %s '
                      '(ids: %s)' % (bad_set[0][1], [x for x, _ in bad_set][:8]),
                      path=[R.entry.short, R.header_fn.short], witness=[x for x, _ in bad_set])
    r1_bad = bool(bad_accept or bad_set)

    r2 = rep.rule('C10-R2', 'from the state after id P a header X is yielded iff X in table[P], and only after '
                  'the membership test against table[P]', reference=len(SPEC_IDS) * len(ids))
    r3 = rep.rule('C10-R3', 'after yielding X the next header is tested against table[X]', reference=9)
    bad_acc, bad_dom = [], []
    rejected = {}
    for res_ in results.values():
        if res_.get('history_rejected'):
            hist_, n_ = res_['history_rejected']
            rejected.setdefault(tuple(hist_[:n_ + 1]), n_)
    for hist_, n_ in sorted(rejected.items()):
        rep.violation(r2, 'legal-history-rejected:%s' % '>'.join(hist_), R.entry.loc(),
                      'the sequence of headers %s is legal by VALID_SECTION_STATES, but no path through the reader yields a record for '
                      '%r after %s: a legal file is rejected' % (list(hist_), hist_[-1], list(hist_[:-1])),
                      path=[R.entry.short, R.header_fn.short], witness=list(hist_))
    for Pid in SPEC_IDS:
        row = frozenset(table.get(Pid, ()))
        for X in ids:
            r = results[('R2', Pid, X)]
            legal = X in row
            inst = '%s -> %s' % (Pid, X)
            if r.get('history_rejected'):
                continue
            if r['accepted'] != legal:
                bad_acc.append((inst, r['accepted']))
            elif r['undominated']:
                bad_dom.append(inst)
            elif r['exceeded']:
                raise AnalysisError('R2: path budget exceeded for %s' % inst)
            else:
                rep.ok(r2, inst, {'paths': r['paths'], 'accepted': legal})
    if bad_acc:
        rep.violation(r2, 'acceptance-differs-from-table', R.header_fn.loc(),
                      'header acceptance differs from VALID_SECTION_STATES for %d (previous -> next) pairs, e.g. %s'
                      % (len(bad_acc), '; '.join('%s is %s' % (i, 'yielded' if y else 'never yielded') for i, y in bad_acc[:5])),
                      path=[R.entry.short, R.header_fn.short], witness=[i for i, _ in bad_acc])
    if bad_dom:
        rep.violation(r2, 'yield-without-membership-test', R.header_fn.loc(),
                      'a record is yielded on a path that does not test its id against the allowed set of the '
                      'previous section (%d pairs, e.g. %s)' % (len(bad_dom), bad_dom[:5]),
                      path=[R.entry.short, R.header_fn.short], witness=bad_dom)
    upstream_bad = r1_bad or bad_acc or bad_dom or rejected
    for X in SPEC_IDS:
        r = results[('R3', None, X)]
        if r.get('skipped'):
            rep.info('id %s has no predecessor in the table; R3 skipped for it' % X)
            continue
        want = sorted(table.get(X, ()))
        if upstream_bad:
            rep.info('R3 for %s not evaluated: R1/R2 already fail' % X)
        elif r['seen'] and r['seen'] != [str(want)]:
            rep.violation(r3, 'next-row:%s' % X, R.entry.loc(),
                          'after yielding %r the next header is tested against %s instead of table[%s]=%s'
                          % (X, r['seen'], X, want), path=[R.entry.short])
        elif not r['reached'] or r['exceeded']:
            raise AnalysisError('R3: no path reaches a second header after %s (or budget exceeded)' % X)
        else:
            rep.ok(r3, 'after %s' % X, {'paths_reaching_second_header': r['reached']})
    rep.extra['paths_explored'] = total_paths
    r6 = rep.rule('C10-R6', 'the shared transition table (and every other module-level container) is never mutated by the reader', reference=1)
    muts = {}
    for res_ in results.values():
        for m_ in res_.get('shared_mut', []):
            muts.setdefault(m_[0], m_)
    if muts:
        for name, (nm, loc, fn, txt) in sorted(muts.items()):
            rep.violation(r6, 'shared-mutated:%s' % txt, loc, 'the reader mutates the shared %s (%s in %s): what is accepted changes '
                          'for every later section and every other reader' % (nm, txt, fn), path=[fn])
    else:
        rep.ok(r6, 'reader paths', {'paths': total_paths})
    # ---- R7 the object-model entry points parse from the caller's first byte ---------------------------------
    r7 = rep.rule('C10-R7', 'DiffX.from_bytes / from_stream hand the caller\'s bytes / stream to the parser unchanged (nothing in front of '
                  'the main header is skipped)', reference=2)
    from sa.interp import Interp
    from sa.values import AStream
    dcls = P.cls('pydiffx.dom.objects', 'DiffX')
    rcls = P.cls('pydiffx.dom.reader', 'DiffXDOMReader')
    pm = rcls.find_method('parse')
    fb, fs_ = dcls.find_method('from_bytes'), dcls.find_method('from_stream')
    if pm is None or fb is None or fs_ is None:
        raise AnalysisError('from_bytes / from_stream / DiffXDOMReader.parse not found (anchor vanished)')
    for entry, mk in ((fb, lambda: Unk('data', kinds=['bytes'], taint=['INPUT'])), (fs_, lambda: AStream('caller-stream'))):
        I7 = Interp(P)
        got = []

        def stub(I_, fi_, args, kwargs, node, got=got):
            got.append(args[1] if len(args) > 1 else kwargs.get(fi_.params()[1]))
            return Unk('tree')
        I7.stubs[pm.qualname] = stub
        st7 = {}

        def thunk(entry=entry, mk=mk):
            del got[:]
            st7['arg'] = mk()
            I7.frames = []
            return I7.call_function(entry, [dcls, st7['arg']], {}, None, self_cls=dcls)
        n7 = 0
        bad7 = None
        for path in I7.explore(thunk):
            n7 += 1
            if n7 > 200:
                raise AnalysisError('too many paths in %s' % entry.short)
            if path.outcome != 'return':
                continue
            a_ = st7['arg']
            for s_ in got:
                same = s_ is a_ or (isinstance(s_, AStream) and getattr(s_, 'init', None) is a_)
                if not same:
                    bad7 = 'the parser receives %s instead of the caller\'s %s' % (
                        'a stream over %s' % getattr(getattr(s_, 'init', None), 'name', getattr(s_, 'init', '?')) if isinstance(s_, AStream) else s_,
                        'bytes' if entry is fb else 'stream')
            for ev in path.events:
                if ev.kind in ('stream-seek', 'stream-read') and ev.data.get('stream') in ([a_] + got):
                    bad7 = 'the stream is %s before it reaches the parser' % ev.kind.split('-')[1]
            if not got:
                bad7 = 'the parser is not called'
        if bad7:
            rep.violation(r7, 'entry-skips-input:%s' % entry.name, entry.loc(), '%s: %s - sections in front of the main header would be '
                          'accepted / skipped' % (entry.short, bad7), path=[entry.short])
        else:
            rep.ok(r7, entry.short, {'paths': n7})
    if not upstream_bad:
        rep.floor(r2, 81)
        rep.floor(r3, 8)


_CTX = None


def _setstr(v, node):
    s_ = setval(v)
    return str(sorted(s_)) if s_ is not None else 'UNKNOWN(%s)' % norm(node)


def _shared_mutations(paths):
    out = set()
    for p in paths:
        for ev in p.events:
            if ev.kind in ('mutate', 'item-store', 'item-del') and getattr(ev.data.get('obj'), 'shared', None):
                out.add((ev.data['obj'].shared, ev.loc, ev.fn, norm(ev.node)[:60]))
    return sorted(out)


def _task(t):
    r = _task_inner(t)
    return r


def _history(table, ids):
    if ids is None:
        raise AnalysisError('no legal history found in the transition table')
    from sa.props.reader_rules import CONTENT_IDS
    return [Script(s_, options='unknown' if (s_ in CONTENT_IDS or s_ == 'diffx') else 'none') for s_ in ids]


def _history_rejected(H, pre):
    """Why the spec-legal history ``pre`` cannot be frozen: (ids up to the first header for which no path yields a
    record, number of records yielded before it), or None when the history is passable (an engine problem then)."""
    for k in range(len(pre) - 1, -1, -1):
        paths, exceeded = H.paths(list(pre[:k + 1]), max_paths=20000, det_prefix=k)
        if exceeded:
            return None
        if not paths:
            continue          # the history before header k cannot be frozen either: look further back
        best = max(sum(1 for e in getattr(p, 'full_events', p.events) if e.kind == 'yield') for p in paths)
        if best >= k + 1:
            return None
        return ([s_.sid for s_ in pre[:k + 1]], k)
    return None


def _task_inner(t):
    kind, Pid, X = t
    P, R, table, var, loop = _CTX
    H = ReaderHarness(P, R, havoc=True)
    if kind == 'R6':
        # empty class-level mappings are extension hooks a subclass may fill: explored open, for the
        # shared-table rule only (the order rules speak about the class as written)
        H.open_hooks = tuple(c.qualname for c in R.cls.repo_mro())
        pre = _history(table, history_to(table, X))
        paths, exceeded = H.paths(pre + [Script(X, options='unknown')], max_paths=3000, det_prefix=len(pre))
        return {'paths': len(paths), 'exceeded': False, 'shared_mut': _shared_mutations(paths)}
    if kind == 'R1':
        paths, exceeded = H.paths([Script(X, options='unknown' if X == 'diffx' else 'none')])
        sets = set()
        for p in paths:
            hd = [i for i, e in enumerate(p.events) if e.kind == 'k1-header']
            for ev in membership_events(p, X, hd[0] if hd else 0):
                sets.add(_setstr(ev.data['right'], ev.node))
        return {'paths': len(paths), 'exceeded': exceeded, 'sets': sorted(sets), 'shared_mut': _shared_mutations(paths),
                'accepted': any(any(e.kind == 'yield' for e in p.events) for p in paths)}
    if kind == 'R2':
        row = frozenset(table.get(Pid, ()))
        legal = X in row
        # the state in which the previous id is Pid: after the shortest legal history ending in Pid
        pre = _history(table, history_ending_in(table, Pid))
        nh = len(pre)
        paths, exceeded = H.paths(pre + [Script(X, options='unknown' if legal else 'none')], det_prefix=nh)
        if not paths:
            hr = _history_rejected(H, pre)
            if hr:
                return {'paths': 0, 'exceeded': False, 'history_rejected': hr, 'shared_mut': []}
            raise AnalysisError('no feasible path through the history %s' % [s_.sid for s_ in pre])
        accepted = False
        undominated = False
        for path in paths:
            hd = [i for i, e in enumerate(path.events) if e.kind == 'k1-header' and e.data['index'] == nh]
            if not hd:
                continue
            ys = [i for i, e in enumerate(path.events) if e.kind == 'yield' and i > hd[0]]
            if ys:
                accepted = True
                ok = False
                for e in path.events[hd[0]:ys[0]]:
                    if e.kind == 'membership' and is_concrete(e.data['left']) and concrete(e.data['left']) == X \
                            and setval(e.data['right']) == row:
                        ok = True
                if not ok:
                    undominated = True
        return {'paths': len(paths), 'exceeded': exceeded, 'accepted': accepted, 'undominated': undominated,
                'shared_mut': _shared_mutations(paths)}
    if kind == 'R3':
        preds = [p for p in SPEC_IDS if X in table.get(p, ())]
        if not preds and X != 'diffx':
            return {'paths': 0, 'skipped': True}
        want = frozenset(table.get(X, ()))
        X2 = sorted(want)[0] if want else 'diffx'
        pre = _history(table, history_to(table, X))
        nh = len(pre)
        paths, exceeded = H.paths(pre + [Script(X, options='unknown'), Script(X2, options='none')], det_prefix=nh)
        if not paths:
            hr = _history_rejected(H, pre)
            if hr:
                return {'paths': 0, 'exceeded': False, 'history_rejected': hr, 'shared_mut': [], 'seen': [], 'reached': 0}
        seen = set()
        reached = 0
        for path in paths:
            hdrs = [i for i, e in enumerate(path.events) if e.kind == 'k1-header' and e.data['index'] == nh + 1]
            if not hdrs:
                continue
            for e in membership_events(path, X2, hdrs[0]):
                reached += 1
                seen.add(_setstr(e.data['right'], e.node))
        return {'paths': len(paths), 'exceeded': exceeded, 'seen': sorted(seen), 'reached': reached}
    raise AnalysisError('task %r' % (t,))


def _with_injection(H, script, loop, var, row):
    return H.run(script, inject=(loop, lambda I: {var: row}))
