"""C19 - typed attributes validate atomically; equality is structural and congruent."""
import ast

from sa.model import AnalysisError, ClassInfo, Unfoldable, norm, walk_no_nested
from sa.interp import Interp, Frame, exc_name
from sa.values import ADict, AList, AObj, Unk, concrete, is_concrete, kind_of, TYPE_KIND
from sa.dom import DomRoles, SECTION_CLASSES, all_objects
from sa import models as M


def _level_slots(D):
    """Slots that only repeat what ``section_id`` already encodes: the nesting-depth slot.  In the base constructor it is
    the slot S that is assigned a local computed from *the parent's* S (``parent.S + 1``, else a constant), where that
    same local (or a local derived from it, or a call given it) also builds ``section_id``.  Comparing section_id compares
    it, so R4 does not ask for a second comparison.  Found by that data flow, whatever the slot or the locals are called."""
    init = D.base.find_method('__init__')
    if init is None:
        return set()
    me = init.params()[0] if init.params() else 'self'

    def names(e):
        return {x.id for x in ast.walk(e) if isinstance(x, ast.Name)}
    assigns = [n for n in ast.walk(init.node) if isinstance(n, ast.Assign) and len(n.targets) == 1]
    # locals computed from another object's slot
    from_parent = {}
    for n in assigns:
        if isinstance(n.targets[0], ast.Name):
            for x in ast.walk(n.value):
                if isinstance(x, ast.Attribute) and isinstance(x.value, ast.Name) and x.value.id != me:
                    from_parent.setdefault(n.targets[0].id, set()).add(x.attr)
    out = set()
    for n in assigns:
        t = n.targets[0]
        if isinstance(t, ast.Attribute) and isinstance(t.value, ast.Name) and t.value.id == me and isinstance(n.value, ast.Name) \
                and t.attr in from_parent.get(n.value.id, ()):
            lvl = n.value.id
            derived = {lvl}
            for _ in range(3):
                for m in assigns:
                    if isinstance(m.targets[0], ast.Name) and names(m.value) & derived:
                        derived.add(m.targets[0].id)
            for m in assigns:
                t2 = m.targets[0]
                if isinstance(t2, ast.Attribute) and isinstance(t2.value, ast.Name) and t2.value.id == me and t2.attr == 'section_id' \
                        and names(m.value) & derived:
                    out.add(t.attr)
    return out


def run(P, rep, tier):
    rep.explanation = (
        'R1 (typestate): for every section class and every settable attribute (option descriptors, forwarding '
        'descriptors, the content property) the assignment obj.attr = <abstract caller value> is abstractly executed on '
        'a freshly built tree; on every path a store into the tree must be dominated by the isinstance guard against '
        'the declared data_type and, where choices are declared, the membership guard (the stored value carries the '
        'refined kind / set facts), and no raise source may follow a store. R1b: the constructor hands every '
        '(name, value) keyword to setattr or raises, and converts AttributeError into DiffXUnknownOptionError. R2: every '
        'class in the MRO of every section class defines __slots__ (so unknown names raise). R3: every concrete '
        'OptionProperty subclass sets option_name and data_type; choices fold to a choice set of options.py. R4: on '
        'every path on which __eq__ can return a true value, every state slot of both operands has been read '
        '(compared). R5: fields the DOM writer reads are fields __eq__ compares.')
    rep.undecided = '== on concrete trees (values); only that no state slot can differ unseen and nothing the writer reads is ignored'
    rep.trusted_base += ['descriptor protocol, __slots__ semantics, dict ==', 'sink table for explicit raises']
    D = DomRoles(P)
    I = Interp(P)
    for c in D.classes.values():
        for m in c.repo_mro():
            for f in m.methods.values():
                rep.analysed(f)

    # ---- R2 slots closure ---------------------------------------------------
    r2 = rep.rule('C19-R2', '__slots__ closure of the section class hierarchy', reference=13)
    seen = set()
    for name, c in D.classes.items():
        for k in c.repo_mro():
            if k.qualname in seen:
                continue
            seen.add(k.qualname)
            if '__slots__' in k.attrs:
                rep.ok(r2, k.name)
            else:
                rep.violation(r2, 'no-slots:%s' % k.name, '%s:%d' % (k.module.relpath, k.node.lineno),
                              'class %s (in the MRO of a section class) defines no __slots__: instances get a __dict__, so '
                              'assigning an unknown attribute no longer raises and misspelled options are silently accepted' % k.name)
    rep.floor(r2, 8)

    # ---- R3 descriptor completeness ------------------------------------------
    r3 = rep.rule('C19-R3', 'every OptionProperty subclass declares option_name and data_type; choices are a folded choice set', reference=7)
    choice_sets = {}
    om = P.module('pydiffx.options')
    for c in om.classes.values():
        if 'VALID_VALUES' in c.attrs:
            choice_sets[c.name] = P.fold_class_attr(c, 'VALID_VALUES')
    subs = [c for c in P.all_classes() if D.option_property in c.mro() and c is not D.option_property]
    for c in subs:
        try:
            on = P.fold_class_attr(c, 'option_name')
            dt = P.fold_class_attr(c, 'data_type')
            ch = P.fold_class_attr(c, 'choices')
        except Unfoldable as e:
            rep.violation(r3, 'unfoldable:%s' % c.name, '%s:%d' % (c.module.relpath, c.node.lineno), 'descriptor %s: %s' % (c.name, e))
            continue
        if not isinstance(on, str) or not isinstance(dt, type):
            rep.violation(r3, 'incomplete:%s' % c.name, '%s:%d' % (c.module.relpath, c.node.lineno),
                          'descriptor %s lacks option_name / data_type (isinstance(value, None) raises TypeError on every assignment)' % c.name)
        elif ch is not None and frozenset(ch) not in [frozenset(v) for v in choice_sets.values()]:
            rep.violation(r3, 'choices:%s' % c.name, '%s:%d' % (c.module.relpath, c.node.lineno),
                          'descriptor %s: choices %r are not one of the choice sets of options.py' % (c.name, sorted(ch)))
        else:
            rep.ok(r3, c.name, {'option': on, 'type': dt.__name__, 'choices': sorted(ch) if ch else None})
    rep.floor(r3, 5)

    # ---- R1 validate-before-store ---------------------------------------------
    r1 = rep.rule('C19-R1', 'typed assignment: store dominated by type (and choice) guard; no raise after a store', reference=30)
    n_assign = 0
    for cname in SECTION_CLASSES:
        cls = D.classes[cname]
        for attr, kind, dcls in D.settable_names(cls):
            n_assign += 1
            probs = []
            stores = 0
            npaths = 0

            def thunk():
                objs = D.build_tree(I)
                obj = objs[cname]
                v = Unk('value', taint=['ARG'], src=('param', 'value'))
                I.dirty = None
                mark = len(I.events)
                I.effect_filter = lambda kind_, data: kind_ in ('attr-store', 'item-store', 'mutate', 'item-del') and \
                    _in_tree(objs['DiffX'], data.get('obj'))
                I.set_attr(obj, attr, v, None)
                return (mark, v, obj)
            for path in I.explore(thunk):
                npaths += 1
                if npaths > 3000:
                    raise AnalysisError('too many paths assigning %s.%s' % (cname, attr))
                if path.outcome == 'raise':
                    if I.dirty is not None:
                        probs.append('raises %s after storing into the tree at %s' % (path.value.exc.exc_name, I.dirty.loc))
                    continue
                if path.outcome != 'return':
                    continue
                mark, v, obj = path.value
                for ev in path.events[mark:]:
                    if ev.kind in ('attr-store', 'item-store') and (ev.data.get('value') is v):
                        stores += 1
                        tgt = _target_descriptor(D, P, obj, attr)
                        if tgt is None:
                            continue
                        dt, choices = tgt
                        want = _kinds_of_type(dt)
                        if want is not None and not (v.kinds is not None and v.kinds <= want):
                            probs.append('value stored at %s without a type guard against %s' % (ev.loc, getattr(dt, '__name__', dt)))
                        if choices and not any(s_ <= frozenset(choices) for s_ in v.in_sets):
                            probs.append('value stored at %s without a membership guard against %s' % (ev.loc, sorted(choices)))
                    if ev.kind == 'mayraise' and not ev.data['caught'] and ev.dirty is not None:
                        probs.append('%s may be raised at %s after a store' % (exc_name(ev.data['exc']), ev.loc))
            inst = '%s.%s' % (cname, attr)
            if probs:
                u = []
                for p_ in probs:
                    if p_ not in u:
                        u.append(p_)
                rep.violation(r1, 'assign:%s' % inst, '%s:%d' % (cls.module.relpath, cls.node.lineno),
                              'assignment to %s: %s' % (inst, '; '.join(u[:3])), path=[inst])
            elif stores == 0:
                raise AnalysisError('assignment to %s never stores (idiom not recognised)' % inst)
            else:
                rep.ok(r1, inst, {'paths': npaths})
    rep.floor(r1, 20)

    # ---- R1b constructor keyword handling --------------------------------------
    r1b = rep.rule('C19-R1b', 'the constructor passes every keyword (name, value) to setattr or raises; AttributeError '
                   'becomes DiffXUnknownOptionError', reference=1)
    init = D.base.find_method('__init__')
    # the loop over the keyword mapping: in __init__ itself, or in a method __init__ hands its **kwargs to
    holders = [init]
    kw0 = init.node.args.kwarg.arg if init.node.args.kwarg else None
    for n in walk_no_nested(init.node):
        if isinstance(n, ast.Call) and isinstance(n.func, ast.Attribute) and isinstance(n.func.value, ast.Name) \
                and n.func.value.id == init.params()[0]:
            h = D.base.find_method(n.func.attr)
            if h is None:
                continue
            if any(k.arg is None and isinstance(k.value, ast.Name) and k.value.id == kw0 for k in n.keywords) and h.node.args.kwarg:
                holders.append((h, h.node.args.kwarg.arg))          # self.helper(**attrs)
            for i_, a_ in enumerate(n.args):
                if isinstance(a_, ast.Name) and a_.id == kw0 and i_ + 1 < len(h.params()):
                    holders.append((h, h.params()[i_ + 1]))          # self.helper(attrs)
    holders = [(init, kw0)] + [x for x in holders[1:]]
    loops = [(h, mp, n) for h, mp in holders for n in walk_no_nested(h.node) if isinstance(n, ast.For)]
    ok_loop = False
    for holder, kwarg, lp in loops:
        if not (isinstance(lp.iter, ast.Call) and isinstance(lp.iter.func, ast.Attribute) and lp.iter.func.attr == 'items'):
            continue
        if not (isinstance(lp.iter.func.value, ast.Name) and lp.iter.func.value.id == kwarg):
            continue
        ok_loop = True
        probs = _loop_paths_reach_setattr(lp)
        if probs:
            rep.violation(r1b, 'ctor-skips-setattr', init.loc(lp),
                          'constructor keyword loop: %s - such keywords are accepted without the unknown-name check' % probs,
                          path=[init.short])
        else:
            handlers = [h for n in walk_no_nested(lp) if isinstance(n, ast.Try) for h in n.handlers]
            conv = any(isinstance(h.type, ast.Name) and h.type.id == 'AttributeError' and
                       any(isinstance(x, ast.Raise) for x in ast.walk(h)) for h in handlers)
            if conv:
                rep.ok(r1b, init.short, 'every path of the loop body reaches setattr(self, name, value) or raises')
            else:
                rep.violation(r1b, 'ctor-no-conversion', init.loc(lp), 'AttributeError from setattr is not converted into DiffXUnknownOptionError')
    if not ok_loop:
        raise AnalysisError('constructor keyword loop not found in %s' % init.short)

    # ---- R6 add_change / add_file are atomic ---------------------------------------------------
    r6 = rep.rule('C19-R6', 'add_change()/add_file() with a rejected attribute raise before the tree is touched', reference=2)
    for pcname, mname, ccname in (('DiffX', 'add_change', 'DiffXChangeSection'), ('DiffXChangeSection', 'add_file', 'DiffXFileSection')):
        pcls = D.classes[pcname]
        m = pcls.find_method(mname)
        if m is None:
            raise AnalysisError('%s.%s not found (anchor vanished)' % (pcname, mname))
        names = [a_ for a_, k_, d_ in D.settable_names(D.classes[ccname]) if k_ == 'descriptor'] + ['no_such_attribute']
        probs6 = {}
        np6 = 0
        raised = 0
        for nm in names:
            def thunk(nm=nm):
                objs = D.build_tree(I)
                parent = objs[pcname]
                v = Unk('value', taint=['ARG'], src=('param', nm))
                I.dirty = None
                root = objs['DiffX']
                I.effect_filter = lambda kind_, data: kind_ in ('attr-store', 'item-store', 'mutate', 'item-del') and \
                    _in_tree(root, data.get('obj'))
                I.frames = []
                return I.call_function(m, [parent], {nm: v}, None, self_cls=pcls)
            for path in I.explore(thunk):
                np6 += 1
                if np6 > 6000:
                    raise AnalysisError('too many paths in %s.%s' % (pcname, mname))
                if path.outcome == 'raise':
                    raised += 1
                    if I.dirty is not None:
                        probs6.setdefault(norm(I.dirty.node)[:60], (nm, path.value.exc.exc_name, I.dirty))
        I.effect_filter = None
        if not raised:
            raise AnalysisError('%s.%s: no rejecting path observed (idiom not recognised)' % (pcname, mname))
        if probs6:
            for txt, (nm, exn, ev) in sorted(probs6.items()):
                rep.violation(r6, 'add-not-atomic:%s.%s:%s' % (pcname, mname, txt), ev.loc,
                              '%s.%s(%s=<rejected value>) raises %s after the tree was already changed at [%s]: a half-initialised '
                              'section stays attached' % (pcname, mname, nm, exn, txt), path=['%s.%s' % (pcname, mname)])
        else:
            rep.ok(r6, '%s.%s' % (pcname, mname), {'paths': np6, 'rejecting_paths': raised})

    # ---- R4 equality coverage ---------------------------------------------------
    r4 = rep.rule('C19-R4', 'on every path where __eq__ may return true every state slot of both operands was compared', reference=6)
    eq_compared = {}
    for cname in SECTION_CLASSES:
        cls = D.classes[cname]
        slots = set(M.class_slots(P, cls) or ())
        lvl_slots = _level_slots(D)
        required = slots - lvl_slots
        missing_any = set()
        npaths = 0
        compared_all = None
        impure = {}
        derived_only = set()
        I.record_compares = True

        def thunk():
            a = D.build_tree(I)[cname]
            b = D.build_tree(I)[cname]
            # contents / options are unknown but of the declared shape
            for o in (a, b):
                if D.content_slot() in o.attrs:
                    o.attrs[D.content_slot()] = Unk('content', taint=['ARG'])
                o.attrs['options'] = ADict({}, open_=True, name='options')
            mark = len(I.events)
            m = cls.find_method('__eq__')
            res = I.call_function(m, [a, b], {}, None, self_cls=cls)
            return mark, a, b, res
        for path in I.explore(thunk):
            npaths += 1
            if npaths > 5000:
                raise AnalysisError('too many paths in %s.__eq__' % cname)
            if path.outcome != 'return':
                continue
            mark, a, b, res = path.value
            if is_concrete(res) and not concrete(res):
                continue
            for ev in path.events[mark:]:
                if ev.kind in ('attr-store', 'item-store', 'mutate', 'item-del') and (_in_tree(a, ev.data.get('obj')) or _in_tree(b, ev.data.get('obj'))):
                    impure.setdefault(norm(ev.node)[:60], ev)
            read_a, read_b = set(), set()
            for ev in path.events[mark:]:
                if ev.kind == 'attr-read':
                    if ev.data['obj'] is a:
                        read_a.add(ev.data['name'])
                    elif ev.data['obj'] is b:
                        read_b.add(ev.data['name'])
            got = read_a & read_b
            # a slot read from both operands must also be *compared as it is*: an == / != whose operands are the two
            # slot values themselves (not something derived from them, e.g. a stripped or lower-cased copy)
            direct = set()
            for ev in path.events[mark:]:
                if ev.kind == 'compare' and ev.data['op'] in ('Eq', 'NotEq'):
                    l_, r_ = ev.data['l'], ev.data['r']
                    for s_ in got:
                        va, vb = a.attrs.get(s_), b.attrs.get(s_)
                        if (_same_val(l_, va) and _same_val(r_, vb)) or (_same_val(l_, vb) and _same_val(r_, va)):
                            direct.add(s_)
            derived_only |= {s_ for s_ in got if s_ not in direct and s_ not in lvl_slots}
            # a slot also counts as covered when a compared slot holds it (file section: subsections list)
            covered = set(got)
            for s_ in list(got):
                va = a.attrs.get(s_)
                if isinstance(va, AList):
                    for x in va.items:
                        for k, v in a.attrs.items():
                            if v is x:
                                covered.add(k)
            miss = (set(a.attrs) - lvl_slots) - covered
            missing_any |= miss
            compared_all = covered if compared_all is None else (compared_all & covered)
        eq_compared[cname] = compared_all or set()
        for txt, ev in impure.items():
            rep.violation(r4, 'eq-mutates:%s:%s' % (cname, txt), ev.loc,
                          '%s.__eq__ writes to the operands it compares (%s in %s): a cached or defaulted value can go stale, so trees '
                          'that differ compare equal (or the comparison itself changes the tree)' % (cname, txt, ev.fn), path=[cname + '.__eq__', ev.fn])
        if derived_only:
            rep.violation(r4, 'eq-derived:%s:%s' % (cname, ','.join(sorted(derived_only))), '%s:%d' % (cls.module.relpath, cls.node.lineno),
                          '%s.__eq__ can return true on a path where %s of the two operands are read but never compared with each other as '
                          'they are (only values derived from them are): sections that differ there can compare equal'
                          % (cname, sorted(derived_only)), path=[cname + '.__eq__'])
        if missing_any:
            rep.violation(r4, 'eq-misses:%s:%s' % (cname, ','.join(sorted(missing_any))),
                          '%s:%d' % (cls.module.relpath, cls.node.lineno),
                          '%s.__eq__ can return true on a path that never compares %s: two sections differing there compare equal'
                          % (cname, sorted(missing_any)), path=[cname + '.__eq__'])
        else:
            rep.ok(r4, cname, {'paths': npaths, 'compared': sorted(eq_compared[cname])})
    rep.floor(r4, 6)

    # ---- R5 congruence with serialisation ---------------------------------------------
    r5 = rep.rule('C19-R5', 'fields read by the DOM writer are compared by __eq__; no nondeterminism source in the writer closure', reference=4)
    wm = P.module('pydiffx.dom.writer')
    wcls = P.cls('pydiffx.dom.writer', 'DiffXDOMWriter')
    read_fields = set()
    for f in wcls.methods.values():
        for n in walk_no_nested(f.node):
            if isinstance(n, ast.Attribute) and isinstance(n.value, ast.Name) and n.value.id in ('section', 'diffx', 'subsection'):
                read_fields.add(n.attr)
    state_fields = set()
    for cname in SECTION_CLASSES:
        state_fields |= set(M.class_slots(P, D.classes[cname]) or ())
    for fld in sorted(read_fields):
        if fld in ('section_name',):
            rep.ok(r5, 'writer reads %s' % fld, 'class constant')
            continue
        ok = True
        for cname in SECTION_CLASSES:
            cls = D.classes[cname]
            slots = set(M.class_slots(P, cls) or ())
            prop = cls.find_prop(fld)
            backing = {fld} & slots
            if prop and 'get' in prop:
                backing = {n.attr for n in walk_no_nested(prop['get'].node) if isinstance(n, ast.Attribute) and
                           isinstance(n.value, ast.Name) and n.value.id == 'self'} & slots
            if backing and not backing <= (eq_compared.get(cname, set()) | _level_slots(D)):
                ok = False
                rep.violation(r5, 'writer-reads-uncompared:%s:%s' % (cname, fld), '%s:%d' % (wm.relpath, wcls.node.lineno),
                              'the DOM writer reads %s.%s (slots %s) which %s.__eq__ does not compare: equal trees can serialise differently'
                              % (cname, fld, sorted(backing), cname))
        if ok:
            rep.ok(r5, 'writer reads %s' % fld, 'compared by __eq__ of every class that has it')
    nondet = [imp for imp in wm.imports.values() if imp[1].split('.')[0] in ('random', 'time', 'uuid', 'datetime', 'os')]
    if nondet:
        rep.violation(r5, 'nondeterminism-import', wm.relpath, 'dom/writer.py imports %s' % nondet)


def _same_val(x, v):
    if x is v:
        return True
    if isinstance(x, AList) and not x.unknown:
        # a list built from the slot values themselves (element-wise == compares them as they are)
        if any(it is v for it in x.items):
            return True
        if isinstance(v, AList) and not v.unknown and all(any(it is vi for it in x.items) for vi in v.items):
            return True
    return is_concrete(x) and is_concrete(v) and not isinstance(concrete(x), (ADict, AList)) and type(concrete(x)) is type(concrete(v)) \
        and concrete(x) == concrete(v)


def _in_tree(root, target):
    if target is None:
        return False
    for o in all_objects(root):
        if o is target:
            return True
        for v in o.attrs.values():
            if v is target:
                return True
    return False


def _kinds_of_type(dt):
    if isinstance(dt, tuple):
        out = set()
        for t in dt:
            k = _kinds_of_type(t)
            if k is None:
                return None
            out |= k
        return out
    if dt is int:
        return {'int', 'bool'}
    if isinstance(dt, type) and dt in TYPE_KIND:
        return {TYPE_KIND[dt]}
    return None


def _target_descriptor(D, P, obj, attr):
    """(data_type, choices) that govern the final store for obj.attr = value."""
    cls = obj.cls
    owner, expr = cls.find_attr(attr)
    if owner is not None and isinstance(expr, ast.Call):
        ref = P.resolve_expr_ref(owner.module, expr.func, owner)
        if isinstance(ref, ClassInfo):
            if D.option_property in ref.mro():
                return P.fold_class_attr(ref, 'data_type'), P.fold_class_attr(ref, 'choices')
            # forwarding descriptor: SubsectionAttrProperty('x_section', 'name')
            args = [P.fold(a, owner.module, owner) for a in expr.args]
            if len(args) == 2 and all(isinstance(a, str) for a in args):
                sub = obj.attrs.get(args[0])
                if isinstance(sub, AObj):
                    return _target_descriptor(D, P, sub, args[1])
    pr = cls.find_prop(attr)
    if pr and 'set' in pr:
        try:
            return P.fold_class_attr(cls, 'data_type'), None
        except Unfoldable:
            return None
    return None


def _loop_paths_reach_setattr(lp):
    """Syntactic path check of the constructor loop body: statements that can skip
    the setattr call (continue / conditional around it)."""
    probs = []

    def has_setattr(n):
        return any(isinstance(x, ast.Call) and isinstance(x.func, ast.Name) and x.func.id == 'setattr' for x in ast.walk(n))

    def walk(stmts):
        """True if every path through stmts reaches setattr or raises."""
        for s in stmts:
            if isinstance(s, ast.Continue) or isinstance(s, ast.Break):
                probs.append('a %s statement at line %d skips setattr' % (type(s).__name__.lower(), s.lineno))
                return True
            if isinstance(s, ast.Raise):
                return True
            if isinstance(s, ast.If):
                b = walk(s.body)
                o = walk(s.orelse) if s.orelse else False
                if b and o:
                    return True
                if has_setattr(s) and not (b and o):
                    probs.append('setattr is conditional on %r (line %d)' % (norm(s.test)[:40], s.lineno))
                    return True
                continue
            if isinstance(s, ast.Try):
                if walk(s.body):
                    return True
                continue
            if has_setattr(s):
                return True
        return False
    reached = walk(lp.body)
    if not reached and not probs:
        probs.append('no setattr(self, name, value) call in the loop body')
    return '; '.join(probs)
