"""C09 - writer enforces section order; rejected calls are atomic; output is append-only."""
import ast

from sa.model import AnalysisError, norm, walk_no_nested
from sa.roles import SPEC_IDS, stream_attr, stream_ops
from sa.props.c10 import check_table, permitted_relation
from sa import k1


def _lit(x):
    try:
        return ast.literal_eval(x)
    except (ValueError, SyntaxError):
        return x


def fmt_seq(seq):
    return ', '.join('%s%s' % (s, '(encoding=..)' if d else '()') for s, d in seq)


def explore_writer(P, tier):
    WK = k1.WriterK1(P)
    cls = WK.cls
    for name, _ in WK.CALLS:
        m = cls.find_method(name)
        if m is None:
            raise AnalysisError('DiffXWriter.%s not found (anchor vanished)' % name)

    def wsucc(seq):
        return [seq + [(n, d)] for n, _ in WK.CALLS for d in (False, True)]
    # phase 1: reachable writer states (cheap, well-typed arguments)
    seen, problems = k1.explore_parallel(WK, [[(n, d)] for n, _ in WK.CALLS for d in (False, True)], wsucc,
                                         lambda seq, res: res['sig'])
    # phase 2: from every reachable state, every public call with caller-controlled abstract arguments
    WA = k1.WriterK1(P)
    WA.last_abstract = True
    WA.unknown_iters = (0, 1, 2)
    WA.summarise_utils = True
    WA.max_paths = 60000
    reps = [[]] + sorted(seen.values(), key=lambda q: (len(q), q))
    tasks = [rep_seq + [(n, False)] for rep_seq in reps for n, _ in WK.CALLS]
    k1._K = WA
    from sa.par import pmap
    collected = list(zip(tasks, pmap(k1._run_one, tasks)))
    WK.transitions += len(tasks)
    return WK, cls, seen, problems, collected


def run(P, rep, tier):
    rep.explanation = (
        'R1 compares the folded transition table with the specification relation (81 pairs) and then checks, by '
        'exhaustive abstract execution of the writer over every call history its own validator accepts (K1), that from '
        'every reachable writer state each public call is accepted exactly when the id it would write may follow the '
        'previous id, and that a rejection for order raises DiffXSectionOrderError. R2 is a typestate rule '
        '(CLEAN -> DIRTY at the first stream write / stack mutation / attribute store on the writer): from every reachable '
        'state every public call is executed with fully abstract, caller-controlled arguments and no raise source '
        '(explicit raise, or sink-table operation on caller data) may be reached in DIRTY state. R3: every operation on '
        'the writer\'s stream is write(). R4: arguments that reach the header must be None, a member of a folded choice '
        'set, or an integer computed by the writer.')
    rep.undecided = 'byte-level content of what is appended (C02); behaviour of the stream object itself'
    rep.trusted_base += ['sink table of sa/calls.py', 'CPython argument binding', 'specification relation (sa/roles.py)']
    table = P.fold_module_const('pydiffx.sections', 'VALID_SECTION_STATES')
    r1t = rep.rule('C09-R1a', 'transition table shared with the reader equals the specification relation', reference=81)
    req, perm = check_table(P, rep, r1t, table, 'VALID_SECTION_STATES')

    WK, cls, seen, problems, collected = explore_writer(P, tier)
    rep.extra['writer_states'] = len(seen)
    rep.extra['call_histories_executed'] = WK.transitions
    from sa.roles import closure
    for name, _ in WK.CALLS + (('__init__', None),):
        for f in closure(P, cls.find_method(name), cls):
            rep.analysed(f)

    # ---- R1b acceptance relation per (state, call) ---------------------------
    r1 = rep.rule('C09-R1b', 'from every reachable state a call is accepted iff the id it would write may follow the '
                  'previously written id; order rejections raise DiffXSectionOrderError', reference=100)
    r2 = rep.rule('C09-R2', 'validate-before-effect: no raise source is reachable after the first effect of a call', reference=100)
    seen_pairs = {}
    dirty_raises = {}
    for seq, res in collected:
        prev, nxt = res.get('prev_id'), res.get('next_id')
        if prev is None:
            continue
        legal = nxt in perm.get(prev, set()) and nxt in SPEC_IDS
        key = (prev, seq[-1][0])
        order_rejects = [r for r in res['raises'] if r[0] == 'DiffXSectionOrderError']
        other_first = [r for r in res['raises'] if r[0] in ('KeyError', 'AttributeError', 'TypeError') and r[3] and 'key' in str(r[3])]
        if legal and not res['accepted']:
            seen_pairs[key] = ('rejects-legal', seq, nxt)
        elif not legal and res['accepted']:
            seen_pairs[key] = ('accepts-illegal', seq, nxt)
        elif not legal and not order_rejects:
            seen_pairs[key] = ('wrong-error', seq, [r[0] for r in res['raises']])
        else:
            seen_pairs.setdefault(key, ('ok', seq, nxt))
        for r in res['raises']:
            if r[4] is not None:
                k = ('raise', r[0], r[1].split(' ', 1)[-1] if ' ' in r[1] else r[1], r[4][2])
                dirty_raises.setdefault(k, (seq, r))
        for e in res['escapes']:
            if e[5] is not None and set(e[6]) & {'ARG'}:
                k = ('sink', e[0], '%s: %s' % (e[2], e[4]), e[5][2])
                dirty_raises.setdefault(k, (seq, e))
    for key, (verdict, seq, info) in sorted(seen_pairs.items()):
        inst = 'after %s: %s' % key
        if verdict == 'ok':
            rep.ok(r1, inst, {'id': info})
        else:
            rep.violation(r1, '%s:%s->%s' % (verdict, key[0], key[1]), cls.find_method(key[1]).loc(),
                          'writer %s: after %r the call %s() (id %r) - history %s' %
                          (verdict, key[0], key[1], info, fmt_seq(seq)), path=[key[1]], witness=fmt_seq(seq))
    if problems:
        rep.info('encoding-scope problems seen during exploration are reported by C04')

    # ---- R2 --------------------------------------------------------------------
    entries = set(k_[0] for k_ in seen_pairs)
    clean_sites = 0
    for k, (seq, r) in sorted(dirty_raises.items(), key=str):
        kind, exc, site, effect = k
        rep.violation(r2, '%s|%s|%s|after:%s' % (kind, exc, site, effect), r[1].split(' ')[0] if kind == 'raise' else r[1],
                      '%s can be raised at [%s] after the call already had an effect [%s] - the rejected call is not '
                      'atomic (history %s)' % (exc, site, effect, fmt_seq(seq)), path=[seq[-1][0]], witness=fmt_seq(seq))
    # every (state, call) whose raise sources are all reached CLEAN is a discharged obligation
    for seq, res in collected:
        if res.get('prev_id') is None:
            continue
        bad = any(r[4] is not None for r in res['raises']) or any(e[5] is not None and set(e[6]) & {'ARG'} for e in res['escapes'])
        if not bad:
            rep.ok(r2, 'state after %s, call %s' % (res['prev_id'], seq[-1][0]),
                   {'raise_sources': len(res['raises']) + len(res['escapes'])})

    # ---- R4 header-sink sanitisation ------------------------------------------
    r4 = rep.rule('C09-R4', 'every option value that can reach a written header is None, a member of a folded choice set '
                  'within the header grammar, a length computed by the writer, or validated against the value grammar', reference=8)
    pairs = {}
    for seq, res in collected:
        for key, ok, why, org, loc in res.get('pairs', []):
            k_ = (key, org, ok)
            pairs.setdefault(k_, (seq, why, loc))
    for (key, org, ok), (seq, why, loc) in sorted(pairs.items(), key=str):
        inst = 'option %s (from %s)' % (key, org or 'writer')
        if ok:
            rep.ok(r4, inst, why)
        else:
            rep.violation(r4, 'unsanitised-header-value:%s:%s' % (key, org), loc,
                          'option %r reaches the written header without validation: %s (call %s)' % (key, why, seq[-1][0]),
                          path=[seq[-1][0]], witness=fmt_seq(seq))
    rep.floor(r4, 5)

    # ---- R5 choice-valued options: an accepted call has a value of the specification's choice set ------------
    r5 = rep.rule('C09-R5', 'a call given a choice-valued option (not None) is accepted only with a value of the '
                  'specification\'s choice set', reference=4)
    SPEC_CHOICES = {'line_endings': {'dos', 'unix'}, 'mimetype': {'text/plain', 'text/markdown'},
                    'diff_type': {'text', 'binary'}, 'meta_format': {'json'}}
    cons = {}
    for seq, res in collected:
        for call, pname, c_, note in res.get('arg_constraints', []):
            cons.setdefault((call, pname), {}).setdefault((c_, note), seq)
    for (call, pname), variants in sorted(cons.items()):
        want = SPEC_CHOICES.get(pname)
        finite = [c_ for (c_, _n) in variants if c_ is not None]
        if want is None:
            continue              # free-form option (encoding, indent): validated by other means (R2/R4)
        bad = []
        for (c_, note), seq in sorted(variants.items(), key=str):
            vals = None if c_ is None else {_lit(x) for x in c_}
            if vals is None:
                bad.append(('accepted with %s' % (note or 'an unconstrained value'), seq))
            elif want is not None and not vals <= want:
                bad.append(('accepted with values %s outside %s' % (sorted(map(repr, vals - want)), sorted(want)), seq))
        inst = '%s(%s=)' % (call, pname)
        if bad:
            for why, seq in bad:
                rep.violation(r5, 'invalid-option-accepted:%s:%s:%s' % (call, pname, why.split(' (')[0][:40]), cls.find_method(call).loc(),
                              '%s is %s (%s): an invalid option value is not rejected'
                              % (inst, why, 'choice set %s' % sorted(want) if want else 'tested against %s on other paths' % finite[:1]),
                              path=[call], witness=fmt_seq(seq))
        else:
            rep.ok(r5, inst, {'accepted_values': sorted(finite[0]) if finite else None})
    rep.floor(r5, 4)

    # ---- R6 empty content is rejected -------------------------------------------------------------------------
    r6 = rep.rule('C09-R6', 'a content call is accepted only with content known to be non-empty', reference=3)
    emp = {}
    for seq, res in collected:
        for call, verdict in res.get('content_emptiness', []):
            emp.setdefault(call, {}).setdefault(verdict, seq)
    for call, vs in sorted(emp.items()):
        if 'possibly-empty' in vs:
            rep.violation(r6, 'empty-content-accepted:%s' % call, cls.find_method(call).loc(),
                          '%s can be accepted (header and content written) although nothing on the path establishes that the '
                          'caller\'s content is non-empty: empty content is not rejected' % call, path=[call], witness=fmt_seq(vs['possibly-empty']))
        else:
            rep.ok(r6, call)
    rep.floor(r6, 3)
    len_ = {}
    for seq, res in collected:
        for call, handler, loc_ in res.get('lenient_encode', []):
            len_.setdefault((call, handler), (loc_, seq))
    for (call, handler), (loc_, seq) in sorted(len_.items()):
        rep.violation(r6, 'unencodable-text-accepted:%s:%s' % (call, handler), loc_,
                      '%s encodes its text with the error handler %r: text the section encoding cannot represent is accepted and '
                      'written altered instead of being rejected' % (call, handler), path=[call], witness=fmt_seq(seq))

    # ---- R3 append-only ------------------------------------------------------------
    r3 = rep.rule('C09-R3', 'every operation on the writer\'s stream is write()', reference=5)
    attr = stream_attr(P, cls)
    n_ops = 0
    for c in cls.repo_mro():
        fns = list(c.methods.values()) + [f for p in c.props.values() for f in p.values()]
        for f in fns:
            ops, aliases = stream_ops(P, f, attr)
            for node, meth in ops:
                n_ops += 1
                if meth == 'write':
                    rep.ok(r3, '%s: %s' % (f.short, norm(node)[:60]))
                else:
                    rep.violation(r3, 'stream-op:%s:%s' % (f.short, meth), f.loc(node),
                                  'the writer calls %s() on its output stream in %s: output is not append-only'
                                  % (meth, f.short), path=[f.short])
    # positive control: the same query on the reader must see its read/seek operations
    rc = P.cls('pydiffx.reader', 'DiffXReader')
    rattr = stream_attr(P, rc)
    ctrl = [m for f in rc.methods.values() for _, m in stream_ops(P, f, rattr)[0]]
    if not set(ctrl) - {'write'}:
        raise AnalysisError('positive control failed: stream-operation query sees no non-write operation on the reader\'s stream')
    rep.extra['positive_control'] = 'stream-op query reports %s on the reader' % sorted(set(ctrl))
    rep.floor(r3, 1)
    # dynamic confirmation by the interpreter: stream events seen during exploration
    opkinds = set()
    for seq, res in collected:
        for op in res['ops']:
            opkinds.add(op[0])
    if opkinds - {'stream-write'}:
        rep.violation(r3, 'stream-events:%s' % sorted(opkinds - {'stream-write'}), cls.find_method('__init__').loc(),
                      'stream operations other than write reached during call-history exploration: %s' % sorted(opkinds))
    if not seen_pairs:
        raise AnalysisError('no (state, call) pair explored')
    rep.floor(r1, 30)
