"""C04 - encoding inheritance follows nesting (reader, writer, agreement)."""
import ast

from sa.model import AnalysisError, norm, walk_no_nested
from sa.roles import ReaderRoles
from sa import k1


def fmt_seq(seq):
    return ', '.join('%s%s' % (s, '[enc]' if d else '') for s, d in seq)


def run(P, rep, tier):
    rep.explanation = (
        'Whole property, as a finite-state question. The reader generator and the writer methods are abstractly '
        'executed over *all* container histories: section ids / call names are concrete, encodings are opaque labels '
        '(declared or absent), everything else is abstract. Exploration is breadth-first over the sequences the folded '
        'transition table (reader) or the writer\'s own validator allows, and closes when no new abstract state '
        '(canonicalised frame locals / instance attributes, labels classified against the set of open containers) '
        'appears. At every content section the encoding actually handed to decoding (reader) or used by .encode '
        '(writer) is compared with an oracle computed from the sequence alone: own option, else nearest enclosing '
        'declaring container; diff sections never inherit. Both sides agree with the same oracle, hence with each other.')
    rep.undecided = 'nothing of the scope discipline; the behaviour of the codecs themselves is outside this property'
    rep.trusted_base += ['CPython list/dict semantics as modelled in sa/models.py', 'folded VALID_SECTION_STATES (compared with the spec by C10)']
    rep.assumptions += ['record shape taken from the real header function (template capture); content/encoding parameter '
                        'identified by name "encoding" or as the unique label-carrying parameter']
    R = ReaderRoles(P)
    rep.analysed(*R.funcs)
    table = P.fold_module_const('pydiffx.sections', 'VALID_SECTION_STATES')

    r1 = rep.rule('C04-R1', 'reader: for every container history the encoding used for each preamble/meta section is its '
                  'own, else the nearest enclosing declaring container\'s; diff sections get their own or none', reference=1134)
    RK = k1.ReaderK1(P, R, table, max_depth=14 if tier == 'quick' else 20)
    RK.capture_templates()

    def rsucc(seq):
        return [seq + [(n, d)] for n in sorted(table[seq[-1][0]]) for d in (False, True)]
    seen, problems = k1.explore_parallel(RK, [[('diffx', d)] for d in (False, True)], rsucc,
                                         lambda seq, res: (seq[-1][0], res['sig']))
    rep.extra['reader'] = {'abstract_states': len(seen), 'transitions': RK.transitions, 'exhaustive': not problems}
    _report(rep, r1, R.entry, problems, seen, RK.transitions, 'reader', fmt_seq)

    r2 = rep.rule('C04-R2', 'writer: for every accepted call history the codec used to encode each preamble/meta section '
                  'is its own, else the nearest enclosing declaring container\'s; diff content never inherits', reference=210)
    WK = k1.WriterK1(P)
    for name, _ in WK.CALLS:
        m = WK.cls.find_method(name)
        if m is not None:
            rep.analysed(m)

    def wsucc(seq):
        return [seq + [(n, d)] for n, _ in WK.CALLS for d in (False, True)]
    wseen, wproblems = k1.explore_parallel(WK, [[(n, d)] for n, _ in WK.CALLS for d in (False, True)], wsucc,
                                           lambda seq, res: res['sig'])
    rep.extra['writer'] = {'abstract_states': len(wseen), 'transitions': WK.transitions, 'exhaustive': not wproblems}
    _report(rep, r2, WK.cls.find_method('__init__'), wproblems, wseen, WK.transitions, 'writer', fmt_seq)
    rep.extra['exhaustive'] = not problems and not wproblems
    if not problems:
        rep.floor(r1, 50)
    if not wproblems:
        rep.floor(r2, 20)


def reader_scope_rule(P, rep, rid):
    """The K1 reader exploration as a rule of another property (C01-R7, C03-R6)."""
    R = ReaderRoles(P)
    table = P.fold_module_const('pydiffx.sections', 'VALID_SECTION_STATES')
    RK = k1.ReaderK1(P, R, table)
    RK.capture_templates()

    def rsucc(seq):
        return [seq + [(n, d)] for n in sorted(table[seq[-1][0]]) for d in (False, True)]
    seen, problems = k1.explore_parallel(RK, [[('diffx', d)] for d in (False, True)], rsucc,
                                         lambda seq, res: (seq[-1][0], res['sig']))
    _report(rep, rid, R.entry, problems, seen, RK.transitions, 'reader', fmt_seq)
    return not problems


def writer_scope_rule(P, rep, rid):
    WK = k1.WriterK1(P)

    def wsucc(seq):
        return [seq + [(n, d)] for n, _ in WK.CALLS for d in (False, True)]
    wseen, wproblems = k1.explore_parallel(WK, [[(n, d)] for n, _ in WK.CALLS for d in (False, True)], wsucc,
                                           lambda seq, res: res['sig'])
    _report(rep, rid, WK.cls.find_method('__init__'), wproblems, wseen, WK.transitions, 'writer', fmt_seq)
    return not wproblems


def _report(rep, rid, fi, problems, seen, transitions, side, fmt):
    if problems:
        problems.sort(key=lambda x: len(x[0]))
        kinds = {}
        for seq, prs in problems:
            for pr in prs:
                kinds.setdefault(pr[0], (seq, pr))
        for kind, (seq, pr) in sorted(kinds.items()):
            rep.violation(rid, '%s:%s' % (side, kind), fi.loc(),
                          '%s scope discipline broken (%s): shortest offending history: %s ; observed %r, expected %r'
                          % (side, kind, fmt(seq), _txt(pr[-2]), _txt(pr[-1])),
                          path=[fi.short], witness=fmt(seq))
        for seq in list(seen.values())[:40]:
            rep.ok(rid, fmt(seq))
    else:
        for seq in seen.values():
            rep.ok(rid, fmt(seq))
        rep.rules[rid]['transitions'] = transitions


def _txt(x):
    return getattr(x, 'text', x)
