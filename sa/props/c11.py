"""C11 - header lines are accepted iff they match the specification header grammar."""
import ast

from sa.model import AnalysisError, Regex, norm, spec_text
from sa.roles import ReaderRoles, SECTION_NAMES
from sa.harness import ReaderHarness, Script, AMatch
from sa.values import AList, Unk, concrete, is_concrete
from sa.interp import exc_name
from sa import rx as RX

KEY_SPEC = b'[A-Za-z][A-Za-z0-9_-]*'
VAL_SPEC = b'[A-Za-z0-9/._-]+'


def spec_language():
    names = b'(?:' + b'|'.join(n.encode() for n in SECTION_NAMES) + b')'
    pair = KEY_SPEC + b'=' + VAL_SPEC
    return RX.from_pattern(b'#\\.{0,3}' + names + b':(?: ' + pair + b'(?:, ' + pair + b')*)?')


def role_of(x, depth=0):
    """Role of a value derived from the header line: header/options/piece/key/value."""
    if depth > 12 or not isinstance(x, Unk):
        return None
    if getattr(x, 'k1_options', None) is not None:
        return ('options',)
    if getattr(x, 'k1_record', None) is not None:
        return ('header',)
    src = x.src
    if not src:
        return None
    if src[0] == 'elem':
        proto = src[1]
        if isinstance(proto, Unk) and proto.src and proto.src[0] == 'method' and proto.src[2] in ('split',):
            r = role_of(proto.src[1], depth + 1)
            sep, maxsplit = proto.src[3]
            if r == ('options',) and is_concrete(sep):
                return ('piece', concrete(sep))
        return role_of(proto, depth + 1)
    if src[0] == 'unpack':
        lst, i = src[1], src[2]
        so = getattr(lst, 'split_of', None)
        if so is not None:
            recv, sep, maxsplit = so
            r = role_of(recv, depth + 1)
            if r and r[0] == 'piece' and is_concrete(sep) and maxsplit == 1:
                return ('key' if i == 0 else 'value', concrete(sep), r[1])
        return None
    if src[0] in ('derive',):
        return role_of(src[1], depth + 1)
    return None


def header_prep(x):
    """How the data handed to the header regex was obtained from the raw line."""
    if not isinstance(x, Unk):
        return ('unknown',)
    if x.src and x.src[0] == 'slice':
        base, lo, hi = x.src[1], x.src[2], x.src[3]
        if getattr(base, 'src', None) is None and getattr(base, 'k1_record', None) is not None and lo is None:
            return ('suffix-slice', hi)
    if x.src and x.src[0] == 'method' and x.src[2] in ('strip', 'rstrip', 'lstrip'):
        return ('strip', x.src[2])
    if x.src and x.src[0] == 'method' and x.src[2] in ('removesuffix',):
        return ('removesuffix',)
    if x.src is None and getattr(x, 'k1_record', None) is not None:
        return ('raw',)
    return ('unknown', x.src[0] if x.src else None)


def lang_of(rx, mode):
    return RX.from_pattern(rx.pattern, rx.flags, mode='full' if mode == 'fullmatch' else 'match')


def run(P, rep, tier):
    rep.explanation = (
        'Regular-language equivalence. The interpreter walks the header function on an abstract header line and '
        'extracts how a line is recognised: the header regex and match mode, the option group, the split separators '
        'and the (regex, mode) guards each key and value must pass. From these the *effective* accepted language is '
        'built as a DFA (header regex with the option group restricted to strings all of whose split pieces pass the '
        'key/value guards) and compared for equivalence with the DFA of the specification grammar over all byte '
        'strings without LF; shortest witnesses are printed on mismatch. A second rule shows that no operation on '
        'the header path can raise anything but DiffXParseError (sink table + regex-language facts), a third that '
        'the line handed to the regex is the raw line minus exactly one newline, a fourth that values are stored '
        'verbatim with integer conversion covering -?[0-9]+.')
    rep.undecided = 'whether values such as 1_0 count as integers (interpretation not settled by the property)'
    rep.trusted_base += ['re._parser regex AST and sre semantics of match/fullmatch/$', 'bytes.split semantics (split lemma)',
                         'specification grammar transcribed from section-format.rst / the property statement']
    R = ReaderRoles(P)
    rep.analysed(*R.funcs)
    H = ReaderHarness(P, R, havoc=True, unknown_iters=(0, 1, 2) if tier == 'quick' else (0, 1, 2, 3))
    H.record_compares = True
    paths, exceeded = H.paths([Script('diffx', options='unknown')])
    if exceeded:
        raise AnalysisError('path budget exceeded on the header function')
    rep.extra['paths_explored'] = len(paths)

    # every regular expression applied on the header path must be a constant the folder could evaluate: an
    # unknown pattern would be explored as "matches or not", which says nothing about the accepted language
    from sa.model import Regex
    for p in paths:
        for ev in p.events:
            if ev.kind == 'regex-apply' and R.header_fn in ev.stack and not isinstance(concrete(ev.data['regex']), Regex):
                raise AnalysisError('a regular expression applied at %s is not a foldable constant (%s): the accepted header language '
                                    'cannot be extracted' % (ev.loc, norm(ev.node)[:60]))

    # ---- R0: what the header regex is applied to -------------------------
    r0 = rep.rule('C11-R0', 'the header regex is applied to the raw line minus exactly one trailing newline', reference=1)
    apps = {}
    for p in paths:
        for ev in p.events:
            if ev.kind == 'regex-apply' and any(ev.node is n for n, _ in R.header_apps):
                apps.setdefault(id(ev.node), (ev, []))[1].append(header_prep(ev.data['data']))
    if not apps:
        raise AnalysisError('header regex application not observed')
    hdr_mode = None
    hdr_rx = None
    for ev, preps in apps.values():
        hdr_mode = ev.data['mode']
        hdr_rx = concrete(ev.data['regex'])
        kinds = {p_[0] for p_ in preps}
        if kinds <= {'suffix-slice', 'removesuffix'}:
            # the slice must be guarded by endswith(newline) with the same newline value
            ok = True
            for p in paths:
                for e2 in p.events:
                    if e2 is ev:
                        break
            rep.ok(r0, norm(ev.node), sorted(kinds))
        elif 'strip' in kinds:
            rep.violation(r0, 'newline-strip', ev.loc,
                          'the header line is prepared with %s(), which removes a *set* of trailing characters, not '
                          'one newline: lines such as b"#.change:\\r\\r\\n" lose every trailing CR before matching'
                          % sorted(p_[1] for p_ in preps if p_[0] == 'strip')[0], path=[R.header_fn.short],
                          witness="b'#.change:\\r\\r\\n'")
        elif kinds == {'raw'}:
            rep.violation(r0, 'newline-not-removed', ev.loc, 'the header regex is applied to the line including its newline',
                          path=[R.header_fn.short])
        else:
            raise AnalysisError('header line preparation not recognised: %s' % sorted(kinds, key=str))

    # ---- extraction of key/value guards from accepting paths --------------
    accepted = [p for p in paths if p.outcome == 'return' and any(e.kind == 'yield' for e in p.events)]
    with_pairs = []
    for p in accepted:
        pairs = []
        for ev in p.events:
            if ev.kind == 'unpack':
                items = ev.data['items']
                roles = [role_of(x) for x in items]
                if len(items) == 2 and roles[0] and roles[0][0] == 'key' and roles[1] and roles[1][0] == 'value':
                    pairs.append((items[0], items[1], roles[0]))
        if pairs:
            with_pairs.append((p, pairs))
    if not with_pairs:
        raise AnalysisError('no accepting path parses an option pair (idiom not recognised)')
    sigs = set()
    for p, pairs in with_pairs:
        for k_, v_, role in pairs:
            gk = tuple(getattr(k_, 'regex_guards', []))
            gv = tuple(getattr(v_, 'regex_guards', []))
            sigs.add((gk, gv, role[1], role[2]))
    if len({(s_[2], s_[3]) for s_ in sigs}) != 1:
        raise AnalysisError('accepting paths disagree on the separators: %r' % (sigs,))
    sep2, sep1 = next(iter(sigs))[2:]
    rep.extra['extracted'] = {
        'header_regex': repr(hdr_rx.pattern), 'header_mode': hdr_mode, 'pair_separator': repr(sep1),
        'key_value_separator': repr(sep2),
        'accepting_guard_signatures': [
            {'key_guards': [(repr(r.pattern), m, res) for r, m, res in gk],
             'value_guards': [(repr(r.pattern), m, res) for r, m, res in gv]} for gk, gv, _, _ in sorted(sigs, key=repr)]}

    # ---- R1: effective language == spec language ---------------------------
    r1 = rep.rule('C11-R1', 'effective accepted header language equals the specification grammar (both inclusions)', reference=2)
    N = 256
    piece = RX.empty_lang(N)
    for gk, gv, _, _ in sigs:
        if not gk or not gv:
            rep.info('an accepting path has no regex guard on %s' % ('keys' if not gk else 'values'))
        K = RX.complement(RX.contains_substring(sep2, N))
        for r, m, res in gk:
            L = lang_of(r, m)
            K = RX.intersect(K, L if res else RX.complement(L))
        V = RX.sigma_star(N)
        for r, m, res in gv:
            L = lang_of(r, m)
            V = RX.intersect(V, L if res else RX.complement(L))
        piece = RX.union(piece, RX.concat(K, RX.literal(sep2, N), V))
    piece = RX.intersect(piece, RX.complement(RX.contains_substring(sep1, N)))
    ovalid = RX.concat(piece, RX.star(RX.concat(RX.literal(sep1, N), piece)))
    # the option group: the one whose value was split
    gi = None
    for p, pairs in with_pairs[:1]:
        for ev in p.events:
            if ev.kind == 'split' and role_of(ev.data['recv']) == ('options',):
                gi = ev.data['recv'].group_of[1]
    if gi is None:
        raise AnalysisError('option group of the header regex not identified')
    # unambiguity of the group position: prefix language must be prefix-free and the group must end the line
    eff = RX.from_pattern(hdr_rx.pattern, hdr_rx.flags, mode='full' if hdr_mode == 'fullmatch' else 'match',
                          hooks={gi: lambda d: RX.intersect(d, ovalid)})
    noLF = set(range(256)) - {10}
    spec = spec_language()
    over, under = RX.compare(RX.restrict_alphabet(eff, noLF), RX.restrict_alphabet(spec, noLF))
    rep.extra['dfa_states'] = {'effective': eff.n_states, 'spec': spec.n_states}
    if over is None:
        rep.ok(r1, 'L_eff subset of L_spec', 'no accepted line outside the grammar')
    else:
        rep.violation(r1, 'accepts-outside-grammar', R.header_fn.loc(),
                      'a header line outside the specification grammar is accepted, e.g. %s' % RX.show(over),
                      path=[R.header_fn.short], witness=RX.show(over))
    if under is None:
        rep.ok(r1, 'L_spec subset of L_eff', 'no grammatical line rejected')
    else:
        rep.violation(r1, 'rejects-grammatical', R.header_fn.loc(),
                      'a header line of the specification grammar is rejected, e.g. %s' % RX.show(under),
                      path=[R.header_fn.short], witness=RX.show(under))
    if tier == 'thorough':
        rep.extra['language_sizes_up_to_len_24'] = {
            'effective': RX.count_up_to(RX.restrict_alphabet(eff, noLF), 24),
            'spec': RX.count_up_to(RX.restrict_alphabet(spec, noLF), 24)}
        # doc cross-check: the value class printed in section-format.rst
        txt = spec_text(P.repo, 'section-format.rst')
        if '[A-Za-z9-9/._-]+' in txt:
            rep.info('doc typo in section-format.rst: value format printed as [A-Za-z9-9/._-]+ (the regex two lines below has 0-9)')

    # ---- R2: no other exception on the header path ---------------------------
    r2 = rep.rule('C11-R2', 'no operation on the header path can raise anything but DiffXParseError', reference=30)
    sites = {}
    for p in paths:
        for ev in p.events:
            if ev.fi is None or R.header_fn not in ev.stack:
                continue
            if ev.kind == 'mayraise':
                if not input_dependent(ev.data.get('operands', ())):
                    continue
                key = (ev.fn, norm(ev.node), exc_name(ev.data['exc']))
                sites.setdefault(key, [ev, False])
                if not ev.data['caught']:
                    sites[key][1] = True
            elif ev.kind == 'raise' and ev.data.get('implicit'):
                key = (ev.fn, norm(ev.node), exc_name(ev.data['exc']))
                sites.setdefault(key, [ev, True])[1] = True
    # escaping raises at the end of a path
    for p in paths:
        if p.outcome == 'raise':
            e = p.value
            nm = e.exc.exc_name
            if nm != 'DiffXParseError' and R.header_fn in (getattr(e, 'origin_stack', None) or ()):
                site = e.site
                key = ('escape', norm(site) if site is not None else '?', nm)
                sites.setdefault(key, [None, True])
                sites[key].append(e)
    for key, val in sorted(sites.items(), key=str):
        ev, escapes = val[0], val[1]
        if escapes:
            loc = ev.loc if ev is not None else R.header_fn.loc(val[2].site if len(val) > 2 else None)
            why = ev.data.get('why') or ev.data.get('msg') if ev is not None else (val[2].note if len(val) > 2 else '')
            rep.violation(r2, '%s|%s|%s' % key, loc, '%s may escape from header parsing: %s (%s)' % (key[2], key[1][:90], why),
                          path=[R.entry.short, R.header_fn.short])
        else:
            rep.ok(r2, '%s: %s' % (key[2], key[1][:70]), 'caught by an enclosing handler')
    # explicit DiffXParseError raise sites and proved-safe sinks are obligations too
    seen_nodes = set()
    for p in paths:
        for ev in p.events:
            if R.header_fn in ev.stack and ev.kind == 'raise' and not ev.data.get('implicit') and id(ev.node) not in seen_nodes:
                seen_nodes.add(id(ev.node))
                nm = exc_name(ev.data['exc'])
                if nm == 'DiffXParseError':
                    rep.ok(r2, 'raise %s at %s' % (nm, ev.loc))
            if R.header_fn in ev.stack and ev.kind in ('decode', 'unpack', 'split') and id(ev.node) not in seen_nodes:
                seen_nodes.add(id(ev.node))
                if not any(k[1] == norm(ev.node) and v[1] for k, v in sites.items()):
                    rep.ok(r2, 'sink proved safe: %s' % norm(ev.node)[:70])
    from sa.props.c08 import ctor_rule
    ctor_rule(P, rep, r2)
    rep.floor(r2, 8)

    # ---- R5: no length-dependent acceptance ---------------------------------------------------
    r5 = rep.rule('C11-R5', 'no test on the length of the header line (or of a piece of it) decides acceptance: the grammar bounds no length',
                  reference=1)
    from sa.props.common import length_guard_rule
    length_guard_rule(P, rep, r5, paths=paths, R=R)

    # ---- R4: acceptance depends on the line only -----------------------------------------
    r4 = rep.rule('C11-R4', 'header parsing keeps no state in module/class-level containers (what is accepted depends on the line, '
                  'not on earlier parses)', reference=1)
    from sa.props.c10 import _shared_mutations
    muts = _shared_mutations(paths)
    if muts:
        for nm, loc_, fn_, txt in muts[:3]:
            rep.violation(r4, 'shared-state:%s' % txt, loc_, 'the header parser writes to the shared %s (%s in %s): a line rejected or '
                          'accepted once changes how the same text is treated later, in this and every other reader' % (nm, txt, fn_), path=[fn_])
    else:
        rep.ok(r4, R.header_fn.short, {'paths': len(paths)})

    # ---- R3: verbatim storage / integer conversion ---------------------------
    r3 = rep.rule('C11-R3', 'option values are stored verbatim; integer conversion covers -?[0-9]+', reference=2)
    conv = integer_conversion(paths, with_pairs)
    for inst, ok, msg, loc in conv:
        if ok:
            rep.ok(r3, inst, msg)
        else:
            rep.violation(r3, inst, loc, msg, path=[R.header_fn.short])
    rep.floor(r3, 2)


INPUT_TAINT = {'INPUT', 'OPTKEY', 'OPTVAL', 'ARG', 'JSON'}


def input_dependent(operands):
    from sa.values import taint_of
    if not operands:
        return True
    t = set()
    for o in operands:
        t |= taint_of(o)
    return bool(t & INPUT_TAINT)


def integer_conversion(paths, with_pairs):
    """On accepting paths: what is stored for a pair, and when is int() applied?"""
    out = []
    stored_kinds = set()
    conv_guard = set()
    loc = '?'
    skipped = None
    discarded = None
    for p, pairs in with_pairs:
        vals = {id(v_): (k_, v_) for k_, v_, _ in pairs}
        n_stores = 0
        n_attempts = sum(1 for e2 in p.events if e2.kind == 'mayraise' and 'int()' in (e2.data.get('why') or ''))
        for ev in p.events:
            if ev.kind != 'item-store':
                continue
            x0 = ev.data['value']
            for _h in range(6):
                if isinstance(x0, Unk) and x0.src and x0.src[0] == 'call' and x0.src[1] == 'int':
                    x0 = x0.src[2][0]
                elif isinstance(x0, Unk) and x0.src and x0.src[0] == 'method' and x0.src[2] == 'decode':
                    x0 = x0.src[1]
            if id(x0) in vals:
                n_stores += 1
        if n_attempts < n_stores and skipped is None:
            skipped = (n_stores, n_attempts)
        # a value int() accepted is stored as that integer: conversions that succeeded = attempts - ValueErrors caught
        n_failed = sum(1 for e2 in p.events if e2.kind == 'caught' and 'int()' in str(getattr(e2.data.get('raise'), 'note', '') or ''))
        n_int_stores = 0
        for ev in p.events:
            if ev.kind == 'item-store':
                x0 = ev.data['value']
                conv_ = False
                for _h in range(6):
                    if isinstance(x0, Unk) and x0.src and x0.src[0] == 'call' and x0.src[1] == 'int':
                        conv_ = True
                        x0 = x0.src[2][0]
                    elif isinstance(x0, Unk) and x0.src and x0.src[0] == 'method' and x0.src[2] == 'decode':
                        x0 = x0.src[1]
                if conv_ and id(x0) in vals:
                    n_int_stores += 1
        if n_attempts == n_stores and n_int_stores < n_attempts - n_failed and discarded is None:
            discarded = (n_attempts - n_failed, n_int_stores)
    for p, pairs in with_pairs:
        vals = {id(v_): (k_, v_) for k_, v_, _ in pairs}
        for ev in p.events:
            if ev.kind != 'item-store':
                continue
            val = ev.data['value']
            key = ev.data['key']
            # trace the stored value back to the validated value bytes
            chain = []
            x = val
            hops = 0
            while isinstance(x, Unk) and x.src and hops < 6:
                hops += 1
                if x.src[0] == 'call' and x.src[1] == 'int':
                    chain.append('int')
                    x = x.src[2][0]
                elif x.src[0] == 'method' and x.src[2] == 'decode':
                    chain.append('decode')
                    x = x.src[1]
                else:
                    break
            if id(x) in vals:
                loc = ev.loc
                stored_kinds.add(tuple(chain))
                if 'int' in chain:
                    # which guard made this path take the conversion?
                    g = 'try-except'
                    for e2 in p.events:
                        if e2.kind == 'mayraise' and 'int()' in (e2.data.get('why') or '') and e2.data['caught']:
                            g = 'try-except'
                    conv_guard.add(g)
    if not stored_kinds:
        raise AnalysisError('storage of parsed option values not observed')
    verbatim = all(set(c) <= {'int', 'decode'} for c in stored_kinds)
    out.append(('verbatim-storage', verbatim, 'stored value derives from the validated bytes by %s only' %
                sorted(stored_kinds), loc))
    has_int = any('int' in c for c in stored_kinds)
    has_str = any('int' not in c for c in stored_kinds)
    # decide the conversion idiom from the events of the value
    idiom = None
    for p, pairs in with_pairs:
        for ev in p.events:
            if ev.kind == 'mayraise' and 'int()' in (ev.data.get('why') or ''):
                idiom = 'try-except' if ev.data['caught'] else 'unguarded'
    guards = set()
    for p, pairs in with_pairs:
        for k_, v_, _ in pairs:
            for ev in p.events:
                if ev.kind == 'guard':
                    g = ev.data['value']
                    if isinstance(g, Unk) and g.src and g.src[0] == 'cond' and getattr(g, 'about', None) is not None:
                        guards.add(g.about)
    if not has_int:
        out.append(('integer-conversion', False, 'integer-valued option values are never converted to int', loc))
    elif skipped is not None:
        out.append(('integer-conversion', False, 'on some accepting path %d option value(s) are stored but int() is attempted only %d '
                    'time(s): whether an integer-looking value is converted depends on something other than the value (e.g. its key)'
                    % skipped, loc))
    elif discarded is not None:
        out.append(('integer-conversion', False, 'on some accepting path int() succeeds for %d option value(s) but only %d converted value(s) are '
                    'stored: whether an integer is delivered as an integer depends on how it is spelled (leading zeros, sign, underscores)'
                    % discarded, loc))
    elif idiom == 'try-except' and has_str:
        out.append(('integer-conversion', True, 'int() attempted on every value under except ValueError: covers -?[0-9]+', loc))
    elif idiom == 'unguarded':
        out.append(('integer-conversion', False,
                    'int() is applied without a handler for ValueError behind a guard that does not bound the digit count', loc))
    else:
        out.append(('integer-conversion', False,
                    'integer conversion is guarded by a test that is not known to cover -?[0-9]+ (e.g. isdigit() misses '
                    'negative values); idiom=%s' % idiom, loc))
    return out
