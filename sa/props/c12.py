"""C12 - unknown header options are carried through and change nothing else."""
from sa.model import AnalysisError
from sa.roles import SPEC_IDS
from sa.props import reader_rules as rr
from sa.props import c11
from sa import rx as RX


def run(P, rep, tier):
    rep.explanation = (
        'Non-interference of option pairs, decided on the abstract paths of one reader iteration per section id (option '
        'keys/values are labelled unknowns): R1 every parsed pair is stored into the options mapping on every non-raising '
        'path, and the key is never compared with a constant (no key-specific handling, no position dependence); R2 '
        'outside the per-pair loop the mapping is only read by constant-key lookups of the six known options, or passed on '
        'whole in the yielded record - no iteration, length or truth test on it; R3 the language of the option list is '
        'closed under appending ", pair" (any number, any order); R4 values are stored verbatim with integer conversion '
        'covering -?[0-9]+ (shared with C11).')
    rep.undecided = 'nothing structural; value equality of the records with/without the extra options is implied, not executed'
    rep.trusted_base += ['dict semantics', 'regex language engine']
    R, res = rr.analyse(P, tier)
    rep.analysed(*R.funcs)
    r1 = rep.rule('C12-R1', 'every parsed pair is stored; the key is compared with no constant', reference=9)
    r2 = rep.rule('C12-R2', 'the options mapping is read only by constant lookups of the known options', reference=9)
    for X in SPEC_IDS:
        r = res[X]
        bad = [sp for sp in r['stores_per_pair'] if sp[0] != sp[1]]
        if bad:
            rep.violation(r1, 'pair-not-stored:%s' % X, R.header_fn.loc(),
                          'section %s: on some accepting path %d option pair(s) are parsed but %d stored: unknown options are '
                          'dropped or filtered' % (X, bad[0][0], bad[0][1]), path=[R.header_fn.short])
        elif r['key_compared']:
            rep.violation(r1, 'key-specific:%s' % X, R.header_fn.loc(),
                          'section %s: option keys are compared with constants before being stored (%s): handling depends on '
                          'the key' % (X, r['key_compared']), path=[R.header_fn.short])
        else:
            rep.ok(r1, X, {'pairs,stores': r['stores_per_pair']})
        extra = [k for k in r['dict_reads'] if k not in rr.KNOWN_OPTION_KEYS]
        if extra or r['dict_other']:
            rep.violation(r2, 'options-use:%s' % X, R.entry.loc(),
                          'section %s: the options mapping is used beyond constant lookups of known options: %s %s'
                          % (X, extra, r['dict_other']), path=[R.entry.short])
        else:
            rep.ok(r2, X, {'lookups': r['dict_reads']})
    rep.floor(r1, 9)
    # ---- R3 closure of the option-list language ---------------------------------------
    r3 = rep.rule('C12-R3', 'the option list language is closed under ", "-concatenation (any number, any order of pairs)', reference=1)
    for node, rx_ in R.header_apps:
        gd = RX.parse(rx_.pattern, rx_.flags).state.groupdict
        best = None
        for name, gi in gd.items():
            try:
                L = RX.group_language(rx_.pattern, rx_.flags, gi)
            except AnalysisError:
                continue
            w = RX.shortest(L)
            if w is not None and 61 in w:       # contains '='
                best = (name, L)
        if best is None:
            raise AnalysisError('option group of the header regex not found')
        name, L = best
        cc = RX.concat(L, RX.literal(b', ', L.N), L)
        w = RX.included(cc, L)
        if w is None:
            rep.ok(r3, 'group %s' % name)
        else:
            rep.violation(r3, 'not-closed', R.header_fn.loc(), 'appending an option to a valid option list can make it invalid, e.g. %s' % RX.show(w))
    # ---- R4 integer conversion (shared with C11-R3) --------------------------------------
    r4 = rep.rule('C12-R4', 'extra options are reported with their values, integers converted', reference=2)
    from sa.harness import ReaderHarness, Script
    H = ReaderHarness(P, R, havoc=True, unknown_iters=(0, 1, 2))
    paths, exceeded = H.paths([Script('diffx', options='unknown')])
    accepted = [p for p in paths if p.outcome == 'return' and any(e.kind == 'yield' for e in p.events)]
    with_pairs = []
    for p in accepted:
        pairs = []
        for ev in p.events:
            if ev.kind == 'unpack' and len(ev.data['items']) == 2:
                pairs.append((ev.data['items'][0], ev.data['items'][1], None))
        if pairs:
            with_pairs.append((p, pairs))
    if not with_pairs:
        raise AnalysisError('no accepting path with an option pair')
    for inst, ok, msg, loc in c11.integer_conversion(paths, with_pairs):
        if ok:
            rep.ok(r4, inst, msg)
        else:
            rep.violation(r4, inst, loc, msg, path=[R.header_fn.short])
