"""C01 - streaming write -> read round trip: the inverse-pairing skeleton."""
import ast

from sa.model import AnalysisError, norm, walk_no_nested
from sa.roles import SPEC_IDS
from sa.interp import Interp, Frame
from sa.values import ADict, AList, AObj, AStream, Label, Unk, concrete, is_concrete
from sa.props import reader_rules as rr
from sa.props.common import first_line_detection
from sa import sinks, summary

TRANSFORM = {'encoding', 'indent', 'line_endings', 'length'}


def writer_call(P, name, prefix, abstract_content=True, kw=None):
    """Abstractly execute writer.<name>(content, **kw) after a deterministic prefix of calls.
    Yields (path, mark, fp, content)."""
    cls = P.cls('pydiffx.writer', 'DiffXWriter')
    I = Interp(P)
    I.stubs.update(summary.stubs_for(P, summary.text_utils(P)))
    state = {}

    def thunk():
        I.frames = [Frame(cls.find_method('__init__'))]
        fp = AStream('out', taint=())
        I.deterministic = True
        try:
            w = I.instantiate(cls, [fp], {'encoding': Label('main')}, None)
            for pn in prefix:
                I.frames = []
                args = []
                if pn == 'write_meta':
                    args = [ADict({'k': Unk('v')}, name='metadata')]
                I.call_function(cls.find_method(pn), [w] + args, {}, None, self_cls=cls)
        finally:
            I.deterministic = False
        mark = len(I.events)
        if name == 'write_meta':
            content = ADict({'k': Unk('v', taint=['ARG'])}, name='metadata')
        elif name == 'write_diff':
            content = Unk('diff', kinds=['bytes'], taint=['ARG'], src=('param', 'content'))
            content.facts.add('truthy')
        else:
            content = Unk('text', kinds=['str'], taint=['ARG'], src=('param', 'text'))
            content.facts.add('truthy')
        k = dict(kw or {})
        I.frames = []
        I.call_function(cls.find_method(name), [w, content], k, None, self_cls=cls)
        return mark, fp, content
    n = 0
    for path in I.explore(thunk):
        n += 1
        if n > 20000:
            raise AnalysisError('too many paths in writer.%s' % name)
        if path.outcome == 'return':
            yield path, path.value[0], path.value[1], path.value[2]


WRITER_CASES = (('write_preamble', 'preamble', []), ('write_meta', 'meta', []),
                ('write_diff', 'diff', ['new_change', 'new_file', 'write_meta']))


def run(P, rep, tier):
    rep.explanation = (
        'Equality of what is read back with what was written, for all inputs, is a statement about runtime values and is '
        'NOT decided. Decided is the inverse-pairing skeleton, each rule a necessary condition of the round trip: R1 '
        '(writer framing def-use) the header option "length" is len(X) of the very bytes X handed to the next stream write; '
        'R2 (reader framing) content comes from exactly one read(n) with n the unmodified length option; R3 for each '
        'content kind the transformation options the writer emits (encoding, indent, line_endings) are consumed by the '
        'reader for that kind, and indent is consumed only where emitted; R4 order: the writer encodes, then appends the '
        'missing newline, then indents the lines of the split on that same newline; the reader strips indentation per such '
        'line before decoding and trims nothing afterwards; R5 metadata codec pairing json.dumps / json.loads with format '
        'json; R6 one record per header; R7 encoding-scope agreement of both sides with one oracle (K1, shared with C04); '
        'R8 line endings detected from the first line on both sides (same function).')
    P.func('pydiffx.utils.text', 'split_lines')     # anchor of the line-splitting role (analysed by C16); vanished -> exit 2
    rep.undecided = 'everything value-level: content resembling headers, NUL bytes, exotic codecs\' byte patterns, equality of decoded text'
    rep.trusted_base += ['summaries of utils/text.py', 'sink/def-use model of the interpreter']
    R, res = rr.analyse(P, tier)
    rep.analysed(*R.funcs)
    wcls = P.cls('pydiffx.writer', 'DiffXWriter')

    r1 = rep.rule('C01-R1', 'writer: length = len(X) and X is what the next stream write receives', reference=3)
    r4w = rep.rule('C01-R4w', 'writer: encode, then newline append, then indentation of the lines split on that newline', reference=3)
    r5 = rep.rule('C01-R5', 'metadata: json.dumps on the writer side, json.loads + format json on the reader side', reference=4)
    emitted = {}
    for meth, kind, prefix in WRITER_CASES:
        m = wcls.find_method(meth)
        if m is None:
            raise AnalysisError('DiffXWriter.%s not found' % meth)
        rep.analysed(m)
        bad = {}
        ok = 0
        keys = set()
        order_bad = {}
        order_ok = 0
        dumps = 0
        raw_json = False
        for path, mark, fp, content in writer_call(P, meth, prefix):
            evs = path.events[mark:]
            writes = [e for e in evs if e.kind == 'stream-write' and e.data['stream'] is fp]
            if len(writes) < 2:
                bad['writes'] = 'a content section is written with %d stream writes (header + content expected)' % len(writes)
                continue
            hdr, body = writes[-2], writes[-1]
            pairs = sinks.header_pairs(hdr.data['data'])
            lens = [v for k, v, _ in pairs if is_concrete(k) and concrete(k) == 'length']
            for k, v, _ in pairs:
                if is_concrete(k):
                    keys.add(concrete(k))
            if len(lens) != 1:
                bad['no-length'] = 'the header carries %d length options' % len(lens)
                continue
            lv = lens[0]
            X = body.data['data']
            if isinstance(lv, Unk) and lv.src and lv.src[0] == 'call' and lv.src[1] == 'len' and lv.src[2][0] is X:
                ok += 1
            else:
                bad['length-def-use'] = ('the length option is %s, but the bytes written after the header are %s: the declared '
                                         'length is not the length of the content as written (e.g. taken before indentation)'
                                         % (getattr(lv, 'name', lv), getattr(X, 'name', X)))
            dumps += sum(1 for e in evs if e.kind == 'json.dumps')
            for e in evs:
                if e.kind == 'json.dumps':
                    ea = e.data['kwargs'].get('ensure_ascii')
                    if ea is not None and concrete(ea) is not True:
                        raw_json = True
            # order: encode(content) < newline append < indentation
            if kind != 'meta' or True:
                enc = [i for i, e in enumerate(evs) if e.kind == 'encode' and (e.data['recv'] is content or
                       (isinstance(e.data['recv'], Unk) and e.data['recv'].src and e.data['recv'].src[0] == 'call'))]
                splits = [i for i, e in enumerate(evs) if e.kind == 'summary-call' and e.data['callee'].name == 'split_lines']
                from sa.props.common import encoded_piecewise
                pw_ = encoded_piecewise(evs, content)
                if pw_ is not None:
                    order_bad['encode-piecewise'] = ('the text is encoded piece by piece (%s), not once as a whole: the reader decodes the '
                                                     'section as a whole, so per-piece byte order marks come back as characters' % norm(pw_.node)[:50])
                indw = [i for i, e in enumerate(evs) if e.kind == 'stream-write' and e.data['stream'] is not fp]
                # line endings of text are detected on the text itself (code-unit aligned), not on its encoded bytes
                for e_ in evs:
                    if e_.kind == 'summary-call' and e_.data['callee'].name == 'guess_line_endings' and kind != 'diff':
                        a0 = e_.data['args'].get('text')
                        if a0 is not content and not (isinstance(a0, Unk) and a0.kinds is not None and a0.kinds <= {'str'}):
                            order_bad['detect-on-bytes'] = ('line endings of text content are detected on its encoded bytes: in '
                                                            'UTF-16/32 a misaligned 0x0A byte pair is taken for a newline and the '
                                                            'wrong line_endings / final newline is written')
                # lines that receive indentation must be lines of split_lines(<encoded content>, newline)
                for i_ in indw:
                    d_ = evs[i_].data['data']
                    if isinstance(d_, Unk) and d_.src and d_.src[0] == 'binop':
                        continue          # the indentation string itself (b' ' * indent)
                    if isinstance(d_, Unk):
                        from sa.props.reader_rules import src_chain
                        if not any(x.src and x.src[0] in ('summary-elem', 'summary') and 'split_lines' in str(x.src[1]) for x in src_chain(d_)):
                            order_bad['indent-lines'] = ('indentation is written before pieces that are not lines of split_lines(content, '
                                                         'newline) on the section\'s own newline (e.g. bytes.splitlines(), which also '
                                                         'breaks on a bare CR): the reader cannot undo it')
                if splits:
                    sp = evs[splits[0]]
                    data = sp.data['args'].get('data')
                    nl = sp.data['args'].get('newline')
                    encoded_first = kind == 'diff' or (enc and enc[0] < splits[0])
                    # the split data must be the encoded content (+ newline)
                    shape_ok = isinstance(data, Unk) and data.kinds is not None and data.kinds <= {'bytes'}
                    if not encoded_first or not shape_ok:
                        order_bad['indent-before-encode'] = 'indentation is applied before the content is encoded'
                    else:
                        order_ok += 1
        emitted[kind] = keys
        inst = 'DiffXWriter.%s' % meth
        if bad:
            for k, msg in sorted(bad.items()):
                rep.violation(r1, '%s:%s' % (meth, k), m.loc(), '%s: %s' % (inst, msg), path=[inst])
        elif ok:
            rep.ok(r1, inst, {'paths': ok})
        else:
            raise AnalysisError('%s: no completed path' % inst)
        if order_bad:
            for k, msg in order_bad.items():
                rep.violation(r4w, '%s:%s' % (meth, k), m.loc(), '%s: %s' % (inst, msg), path=[inst])
        else:
            rep.ok(r4w, inst, {'paths_with_indentation': order_ok})
        if kind == 'meta':
            if dumps and raw_json:
                rep.violation(r5, 'writer-json-raw', m.loc(), 'write_meta dumps metadata with ensure_ascii disabled: characters the section '
                              'encoding cannot represent make the write fail, where the escaped form round-trips in every encoding',
                              path=[inst])
            elif dumps:
                rep.ok(r5, 'writer serialises metadata with json.dumps')
            else:
                rep.violation(r5, 'writer-json', m.loc(), 'write_meta no longer serialises with json.dumps')
    mf = P.fold_class_attr(P.cls('pydiffx.options', 'MetaFormat'), 'VALID_VALUES')
    if frozenset(mf) == frozenset(['json']):
        rep.ok(r5, 'MetaFormat.VALID_VALUES = {json}')
    else:
        rep.violation(r5, 'meta-formats', 'python/pydiffx/options.py', 'writer accepts metadata formats %s, reader only json' % sorted(mf))
    for X in ('.preamble', '..preamble', '.meta', '..meta', '...meta'):
        # text sections: what the writer encoded with the effective encoding the reader decodes with that very encoding
        if res[X]['decode_enc'] == ['encoding'] and res[X]['decode_unit'] not in (['whole content'], []):
            rep.violation(r5, 'reader-decode-unit:%s' % X, R.content_fn.loc(), 'reader %s: the content is decoded %s: a byte order mark applies '
                          'to the first piece only, and a split that falls inside a character (UTF-16/32 text) cuts it in two, so text the '
                          'writer encoded as a whole is rejected or altered' % (X, ' / '.join(res[X]['decode_unit'])), path=[R.content_fn.short])
        elif res[X]['decode_enc'] == ['encoding']:
            rep.ok(r5, 'reader %s: text decoded with the section\'s effective encoding' % X)
        else:
            rep.violation(r5, 'reader-decode:%s' % X, R.content_fn.loc(), 'reader %s: the content is not decoded with the section\'s effective '
                          'encoding on every yielding path (decoded with: %s): text written in a codec the consumer of the raw bytes cannot '
                          'guess (latin-1, cp125x, EBCDIC, shift_jis ...) is rejected or comes back different' % (X, res[X]['decode_enc'] or 'nothing'),
                          path=[R.content_fn.short])
    for X in ('.meta', '..meta', '...meta'):
        if set(res[X]['format']) <= {"'json'", 'absent'} and any(c[1] == 'ValueError' for c in res[X]['caught']):
            rep.ok(r5, 'reader %s: json.loads, format json' % X)
        else:
            rep.violation(r5, 'reader-json:%s' % X, R.entry.loc(), 'reader %s: format %s / JSON error handling changed' % (X, res[X]['format']))

    # ---- R2 reader framing -------------------------------------------------------------
    r2 = rep.rule('C01-R2', 'reader: content comes from exactly one read(n), n the unmodified length option', reference=6)
    for X in rr.CONTENT_IDS:
        r = res[X]
        if r['reads'] == [1] and r['read_n'] == ['length']:
            rep.ok(r2, X)
        else:
            rep.violation(r2, 'framing:%s' % X, R.content_fn.loc(), 'section %s: %s reads, size %s' % (X, r['reads'], r['read_n']))
    # ---- R3 transformation agreement ------------------------------------------------------
    r3 = rep.rule('C01-R3', 'per content kind: transformation options emitted by the writer are consumed by the reader', reference=3)
    for kind, ids in (('preamble', ('.preamble', '..preamble')), ('meta', ('.meta', '..meta', '...meta')), ('diff', ('...diff',))):
        em = emitted.get(kind, set()) & TRANSFORM
        for X in ids:
            consumed = set(res[X]['dict_reads'])
            miss = em - consumed
            extra_indent = 'indent' in consumed and 'indent' not in emitted.get(kind, set())
            if miss:
                rep.violation(r3, 'not-consumed:%s:%s' % (X, ','.join(sorted(miss))), R.entry.loc(),
                              'the writer applies and emits %s for %s sections but the reader does not consume it for %s: the '
                              'transformation is not undone' % (sorted(miss), kind, X), path=[R.entry.short])
            elif extra_indent:
                rep.violation(r3, 'indent-consumed:%s' % X, R.entry.loc(), 'the reader strips indentation for %s, which the writer never applies' % X)
            else:
                rep.ok(r3, X, {'emitted': sorted(em), 'consumed': sorted(consumed)})
    # ---- R4 reader order --------------------------------------------------------------------
    r4 = rep.rule('C01-R4r', 'reader: indentation stripped per line of the newline split, before decoding; nothing trimmed', reference=8)
    for X in ('.preamble', '..preamble'):
        r = res[X]
        if r['sub_data'] != ['line'] or any(f & 8 for f in r['sub_flags']):
            rep.violation(r4, 'indent-granularity:%s' % X, R.content_fn.loc(),
                          'section %s: indentation is stripped on %s (flags %s) instead of per line of the split on the section\'s '
                          'newline: what the writer added after encoding is not what is removed' % (X, r['sub_data'], r['sub_flags']),
                          path=[R.content_fn.short])
        elif r['order'] and r['order'] != ['strip-before-decode']:
            rep.violation(r4, 'order:%s' % X, R.content_fn.loc(), 'section %s: decoded before indentation is stripped' % X)
        else:
            rep.ok(r4, '%s indentation' % X)
    for X in rr.CONTENT_IDS:
        trimmed = [s for k, s in res[X]['returned'] if s]
        if trimmed:
            rep.violation(r4, 'trimmed:%s' % X, R.content_fn.loc(), 'section %s: returned content is altered after reading (%s)' % (X, trimmed))
        else:
            rep.ok(r4, '%s untrimmed' % X)
    # ---- R6 one record per header -----------------------------------------------------------
    r6 = rep.rule('C01-R6', 'exactly one record is yielded per header', reference=9)
    for X in SPEC_IDS:
        if res[X]['yields_per_path'] == [1]:
            rep.ok(r6, X)
        else:
            rep.violation(r6, 'yield-count:%s' % X, R.entry.loc(), 'section %s is yielded %s times on some path' % (X, res[X]['yields_per_path']))
    # ---- R7 scope agreement -----------------------------------------------------------------
    from sa.props.c04 import reader_scope_rule, writer_scope_rule
    r7a = rep.rule('C01-R7r', 'reader encoding scopes follow the nearest-declaring-ancestor oracle (K1)', reference=286)
    r7b = rep.rule('C01-R7w', 'writer encoding scopes follow the same oracle (K1)', reference=20)
    reader_scope_rule(P, rep, r7a)
    writer_scope_rule(P, rep, r7b)
    r8 = rep.rule('C01-R8', 'line endings are detected from the first line (function shared by writer and reader)', reference=1)
    first_line_detection(P, rep, r8)
    r9 = rep.rule('C01-R9', 'the line splitting both sides apply between encoding and indentation is lossless and splits on exactly '
                  'the section newline (the rules of C16 hold for split_lines)', reference=1)
    from sa.props.common import split_lossless_rule
    split_lossless_rule(P, rep, r9, tier, 'indentation is inserted / removed at places that are not line starts, or bytes are '
                        'fabricated or lost between write and read')
