"""Rules shared by several properties."""
import os
from sa.model import AnalysisError, norm
from sa.interp import Interp
from sa.values import Unk, concrete, is_concrete
from sa.props.c17 import linform, lin_add, lin_zero


def first_line_detection(P, rep, rid):
    """guess_line_endings decides DOS iff the text up to and including the first
    LF ends with CRLF (first-line detection), UNIX otherwise."""
    f = P.func('pydiffx.utils.text', 'guess_line_endings')
    rep.analysed(f)
    le = P.cls('pydiffx.options', 'LineEndings')
    DOS, UNIX = P.fold_class_attr(le, 'DOS'), P.fold_class_attr(le, 'UNIX')
    I = Interp(P)
    I.record_compares = True
    bad = {}
    ok = 0

    def thunk():
        c = I.choose(2, 'kind')
        text = Unk('text', kinds=['bytes'] if c == 0 else ['str'], taint=['ARG'], src=('param', 'text'))
        enc = Unk('encoding', kinds=['str', 'NoneType'], taint=['ARG'])
        return I.call_function(f, [text, enc], {}, None), text
    for path in I.explore(thunk):
        if path.outcome != 'return':
            continue
        res, text = path.value
        if not (isinstance(res, tuple) and len(res) == 2 and is_concrete(res[0])):
            raise AnalysisError('guess_line_endings does not return (kind, newline)')
        kind = concrete(res[0])
        # facts gathered on slices of text
        decided = None
        for ev in path.events:
            if ev.kind == 'endswith' and isinstance(ev.data['recv'], Unk):
                r = ev.data['recv']
                if r.src and r.src[0] == 'slice' and r.src[1] is text and r.src[2] is None:
                    hi = r.src[3]
                    atoms = {}
                    lf = linform(hi, atoms)
                    finds = [a for a in atoms.values() if isinstance(a, Unk) and a.src and a.src[0] == 'method'
                             and a.src[2] == 'find' and a.src[1] is text]
                    lens = [k for k in atoms if k[0] == 'len']
                    first_nl = False
                    for fnd in finds:
                        # hi == find(unix) + len(unix)
                        rest = lin_add(lf, {('val', id(fnd)): 1}, -1)
                        rest = {k_: c_ for k_, c_ in rest.items() if c_ != 0} if rest is not None else None
                        needle = fnd.src[3][0]
                        if len(lens) == 1 and atoms[lens[0]] is needle and lin_zero(lin_add(rest, {lens[0]: 1}, -1)) and -1 in fnd.neq:
                            first_nl = True
                        if is_concrete(needle) and rest is not None and set(rest) <= {1} and rest.get(1) == len(concrete(needle)) and -1 in fnd.neq:
                            first_nl = True
                    outcome = [f_[2] for f_ in r.facts if isinstance(f_, tuple) and f_[0] == 'endswith']
                    if first_nl and outcome:
                        decided = outcome[-1]
        if kind == DOS:
            if decided is True:
                ok += 1
            else:
                for ev in path.events:
                    # the first-line test spelled as equality of a slice of the text (not endswith): an idiom this rule
                    # does not evaluate - never a verdict
                    if ev.kind == 'compare' and ev.data['op'] in ('Eq', 'NotEq'):
                        for side in (ev.data['l'], ev.data['r']):
                            if isinstance(side, Unk) and side.src and side.src[0] == 'slice' and side.src[1] is text:
                                raise AnalysisError('guess_line_endings decides by comparing a slice of the text for equality [%s]: '
                                                    'an idiom of the first-line test this rule does not evaluate' % norm(ev.node)[:60])
                bad.setdefault('dos', 'DOS is returned on a path where the text up to the first LF was not tested to end with CRLF '
                               '(detection no longer looks at the first line only: a CRLF anywhere, or none at all, decides)')
        elif kind == UNIX:
            if decided is True:
                bad.setdefault('unix', 'UNIX is returned although the first line ends with CRLF')
            else:
                ok += 1
    if bad:
        for k, msg in sorted(bad.items()):
            rep.violation(rid, 'first-line-detection:%s' % k, f.loc(), 'guess_line_endings: %s' % msg, path=[f.short])
    elif ok:
        rep.ok(rid, f.short, {'returning_paths': ok})
    else:
        raise AnalysisError('guess_line_endings: no returning path')


def split_lossless_rule(P, rep, rid, tier, consequence):
    """The rules of C16 instantiated under another property: split_lines must split on exactly the given
    newline and neither fabricate nor drop bytes."""
    from sa.report import Report
    from sa.props import c16
    f = P.func('pydiffx.utils.text', 'split_lines')
    sub = Report('C16', tier, P)
    c16.run(P, sub, tier)
    if sub.violations:
        v0 = sub.violations[0]
        rep.violation(rid, 'split-lossy:%s' % v0['key'][:60], v0['loc'],
                      'split_lines does not satisfy the rules of C16 (%d instance(s) fail, first: %s): %s'
                      % (len(sub.violations), v0['msg'][:200], consequence), path=[f.short])
    else:
        rep.ok(rid, 'split_lines', {'c16_obligations': sum(r_['instances'] for r_ in sub.rules.values())})


def length_guard_rule(P, rep, rid, paths=None, R=None):
    """No comparison of the length of input text with a constant on the header path (the header grammar bounds
    no length; a cap makes long but valid headers be treated differently)."""
    from sa.roles import ReaderRoles
    from sa.harness import ReaderHarness, Script
    if R is None:
        R = ReaderRoles(P)
    if paths is None:
        H = ReaderHarness(P, R, havoc=True, unknown_iters=(1,))
        H.record_compares = True
        paths, exceeded = H.paths([Script('diffx', options='unknown')])
        if exceeded:
            raise AnalysisError('path budget exceeded on the header function')
    lenguards = {}
    fns = [f for f in (R.header_fn, R.readahead_fn) if f is not None]
    for p in paths:
        for ev in p.events:
            if ev.kind != 'compare' or not any(f in ev.stack for f in fns) or ev.data['op'] in ('Is', 'IsNot', 'In', 'NotIn'):
                continue
            for a_, b_ in ((ev.data['l'], ev.data['r']), (ev.data['r'], ev.data['l'])):
                if isinstance(a_, Unk) and a_.src and a_.src[0] == 'call' and a_.src[1] == 'len' and is_concrete(b_) \
                        and isinstance(concrete(b_), int) and concrete(b_) > 8:
                    x_ = a_.src[2][0]
                    if isinstance(x_, Unk) and 'INPUT' in x_.taint:
                        lenguards.setdefault(norm(ev.node)[:70], ev)
    if lenguards:
        for txt, ev in sorted(lenguards.items()):
            rep.violation(rid, 'length-guard:%s' % txt, ev.loc, 'the header path tests the length of input text against a constant [%s]: '
                          'header lines that match the grammar but are longer (or shorter) are treated differently' % txt,
                          path=[R.header_fn.short])
    else:
        rep.ok(rid, R.header_fn.short, {'paths': len(paths)})

def encoded_piecewise(evs, content):
    """An encode() in the writer whose receiver is a piece of the text (an element of a split, a slice) rather than
    the whole content: every such piece gets its own byte order mark and multi-byte sequences are cut."""
    from sa.props.reader_rules import src_chain
    for e in evs:
        if e.kind != 'encode':
            continue
        r = e.data['recv']
        if not isinstance(r, Unk) or r is content:
            continue
        chain = src_chain(r)
        if not any(x is content for x in chain):
            continue
        if any(x.src and (x.src[0] in ('elem', 'summary-elem', 'slice') or (x.src[0] == 'method' and x.src[2] in ('split', 'splitlines', 'partition')))
               for x in chain):
            return e
    return None


_IMPORT_CACHE = {}
_SA_DIGEST = [None]


def _cache_path(P, pid, tier):
    """Cache of an owner property's result for one exact program, so that the checks that import its rules do not each
    repeat its analysis: the key covers the analysed package sources, the specification and setup.py, the sources of the
    analysis itself and the known-findings file.  A check's *own* rules are always computed afresh; only imported results
    are reused (the evidence says which).  Directory: $VERIF_IMPORT_CACHE, default <tmp>/verif-import-cache-<uid>;
    VERIF_IMPORT_CACHE=off disables it.  Nothing depends on the cache being there."""
    d = os.environ.get('VERIF_IMPORT_CACHE')
    if d in ('off', '0', 'no'):
        return None
    if not d:
        import tempfile
        d = os.path.join(tempfile.gettempdir(), 'verif-import-cache-%d' % os.getuid())
    import hashlib
    if _SA_DIGEST[0] is None:
        h = hashlib.sha256()
        here = os.path.dirname(os.path.dirname(os.path.abspath(__file__)))
        for root, dirs, files in os.walk(here):
            dirs[:] = sorted(x for x in dirs if x != '__pycache__')
            for f in sorted(files):
                if f.endswith('.py'):
                    h.update(open(os.path.join(root, f), 'rb').read())
        kf = os.path.join(os.path.dirname(here), 'known_findings.jsonl')
        if os.path.exists(kf):
            h.update(open(kf, 'rb').read())
        _SA_DIGEST[0] = h.hexdigest()
    h = hashlib.sha256((pid + tier + str(getattr(P, 'digest', '')) + _SA_DIGEST[0]).encode())
    for extra in (os.path.join(P.repo, 'docs', 'spec'), os.path.join(P.repo, 'python', 'setup.py')):
        if os.path.isdir(extra):
            for f in sorted(os.listdir(extra)):
                fp = os.path.join(extra, f)
                if os.path.isfile(fp):
                    h.update(f.encode() + open(fp, 'rb').read())
        elif os.path.isfile(extra):
            h.update(open(extra, 'rb').read())
    return os.path.join(d, '%s-%s.json' % (pid, h.hexdigest()[:32]))


def _disk_cache_get(P, pid, tier):
    p = _cache_path(P, pid, tier)
    if p and os.path.exists(p):
        try:
            import json
            return json.load(open(p))
        except Exception:
            return None
    return None


def disk_cache_put(P, pid, tier, rep, err):
    p = _cache_path(P, pid, tier)
    if not p:
        return
    import json
    try:
        os.makedirs(os.path.dirname(p), exist_ok=True)
        tmp = p + '.%d.tmp' % os.getpid()
        with open(tmp, 'w') as fh:
            json.dump({'violations': [{k: (v if isinstance(v, (str, int, float, bool, type(None), list)) else str(v)) for k, v in x.items()}
                                      for x in rep.violations],
                       'rules': rep.rules, 'order': rep.order, 'err': err}, fh, default=str)
        os.replace(tmp, p)
    except Exception:
        pass


def imported_rules(P, rep, rid, tier, pid, consequence, only=None):
    """The rules of a neighbouring property ``pid`` that are necessary conditions of the property of ``rep``,
    instantiated under rule ``rid`` of this property: the neighbour's analysis is run on the same program into a
    private report (it writes no evidence and prints nothing) and every violation it finds - other than that
    property's listed known findings - is reported here with the consequence for *this* property.  ``only``
    restricts the import to some rule ids.  When the neighbour's analysis cannot decide (analysis error) the imported
    rules are recorded as undecided for this run; this property's own rules are unaffected."""
    import importlib
    from sa.report import Report, load_known
    key = (pid, tier, getattr(P, 'digest', None))
    if key not in _IMPORT_CACHE:
        cached = _disk_cache_get(P, pid, tier)
        if cached is not None:
            rep.extra.setdefault('imported_results_reused_from_cache', []).append(pid)
            sub = Report(pid, tier, P)
            sub.violations = cached['violations']
            sub.rules = cached['rules']
            sub.order = cached['order']
            _IMPORT_CACHE[key] = (sub, cached['err'])
    if key not in _IMPORT_CACHE:
        mod = importlib.import_module('sa.props.%s' % pid.lower())
        sub = Report(pid, tier, P)
        err = None
        try:
            mod.run(P, sub, tier)
        except AnalysisError as e:
            err = str(e)
        _IMPORT_CACHE[key] = (sub, err)
        disk_cache_put(P, pid, tier, sub, err)
    sub, err = _IMPORT_CACHE[key]
    known = {k['key'] for k in load_known() if k.get('property') == pid and k.get('kind') == 'finding'}
    viol = [v for v in sub.violations if v['key'] not in known and (only is None or v['rule'] in only)]
    rules = [r_ for r_ in sub.order if only is None or r_ in only]
    for v in viol:
        rep.violation(rid, '%s' % v['key'][:90], v['loc'],
                      '%s [%s, instantiated here: %s]' % (v['msg'][:600], v['rule'], consequence), path=v.get('path'), witness=v.get('witness'))
    if err is not None:
        rep.info('rules of %s imported under %s are undecided on this tree (%s)' % (pid, rid, err[:200]))
        if not viol:
            rep.extra.setdefault('imported_undecided', []).append({'rule': rid, 'from': pid, 'reason': err[:300]})
        return
    bad = {v['rule'] for v in viol}
    for r_ in rules:
        if r_ not in bad:
            rep.ok(rid, '%s (%s)' % (r_, sub.rules[r_]['desc'][:80]), {'obligations': sub.rules[r_]['instances']})
