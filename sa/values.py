"""Abstract values of the interpreter (E2)."""
import itertools

_ids = itertools.count(1)

ALL_KINDS = frozenset(['str', 'bytes', 'int', 'bool', 'NoneType', 'dict', 'list', 'tuple',
                       'set', 'float', 'Match', 'Regex', 'Stream', 'obj', 'type', 'callable'])

TYPE_KIND = {str: 'str', bytes: 'bytes', int: 'int', bool: 'bool', dict: 'dict', list: 'list',
             tuple: 'tuple', set: 'set', float: 'float', type(None): 'NoneType', frozenset: 'set'}


class Unk(object):
    """An unknown runtime value with kind / taint / fact components."""

    def __init__(self, name, kinds=None, taint=(), facts=(), src=None):
        self.id = next(_ids)
        self.name = name
        self.kinds = frozenset(kinds) if kinds is not None else None
        self.taint = frozenset(taint)
        self.facts = set(facts)
        self.src = src            # ('param', name) | ('call', fname, args) | ('method', recv, name, args) | ...
        self.const = None         # set when a guard pins the value to a constant
        self.has_const = False
        self.in_sets = []         # folded sets the value is known to be in
        self.notin_sets = []
        self.neq = []

    def pin(self, v):
        self.const = v
        self.has_const = True

    def may_be(self, kind):
        return self.kinds is None or kind in self.kinds

    def only(self, *kinds):
        return self.kinds is not None and self.kinds <= frozenset(kinds)

    def restrict(self, kinds):
        kinds = frozenset(kinds)
        self.kinds = kinds if self.kinds is None else (self.kinds & kinds)

    def exclude(self, kinds):
        if self.kinds is None:
            self.kinds = ALL_KINDS - frozenset(kinds)
        else:
            self.kinds = self.kinds - frozenset(kinds)

    def __repr__(self):
        k = '' if self.kinds is None else ':' + '|'.join(sorted(self.kinds))
        t = '' if not self.taint else '!' + ','.join(sorted(self.taint))
        return '<?%s%s%s>' % (self.name, k, t)


class AList(object):
    def __init__(self, items=None, fresh=True, elem=None):
        self.id = next(_ids)
        self.items = list(items or [])
        self.unknown = elem is not None   # unknown number of ``elem``-like elements
        self.elem = elem
        self.fresh = fresh
        self.taint = frozenset()

    def __repr__(self):
        return 'AList(%r%s)' % (self.items, '...' if self.unknown else '')


class ADict(object):
    def __init__(self, items=None, open_=False, taint=(), fresh=True, valkinds=None, name='dict'):
        self.id = next(_ids)
        self.items = dict(items or {})
        self.open = open_          # may hold further, unknown keys
        self.taint = frozenset(taint)
        self.fresh = fresh
        self.valkinds = valkinds
        self.name = name
        self.absent = set()        # keys decided absent on this path
        self.splat_of = None

    def __repr__(self):
        return 'ADict(%r%s)' % (self.items, ', ...' if self.open else '')


class AObj(object):
    def __init__(self, cls, name=None):
        self.id = next(_ids)
        self.cls = cls
        self.attrs = {}
        self.name = name or cls.name
        self.fresh = True

    def __repr__(self):
        return '<obj %s#%d>' % (self.cls.name, self.id)


class AStream(object):
    def __init__(self, name='stream', taint=('INPUT',)):
        self.id = next(_ids)
        self.name = name
        self.taint = frozenset(taint)
        self.closed = False
        self.internal = False     # a BytesIO created by the code under analysis

    def __repr__(self):
        return '<stream %s>' % self.name


class ASet(object):
    """A mutable set created by the code under analysis (set() / set(iterable)); elements are concrete."""

    def __init__(self, items=()):
        self.id = next(_ids)
        self.items = []
        for x in items:
            if x not in self.items:
                self.items.append(x)

    def __repr__(self):
        return '<set %r>' % (self.items,)


class ARecordType(object):
    """collections.namedtuple(name, fields): the type; calling it makes an ARecord."""

    def __init__(self, name, fields):
        self.name = name
        self.fields = tuple(fields)

    def __repr__(self):
        return '<namedtuple %s%r>' % (self.name, self.fields)


class ARecord(object):
    """An instance of a namedtuple type: immutable, fields may hold abstract values."""

    def __init__(self, rtype, values):
        self.rtype = rtype
        self.values = tuple(values)

    def __repr__(self):
        return '<%s %r>' % (self.rtype.name, self.values)


class AIter(object):
    """An iterator over a definite sequence of abstract values (iter() of a known tuple/list/section)."""

    def __init__(self, items):
        self.id = next(_ids)
        self.items = list(items)
        self.pos = 0

    def __repr__(self):
        return '<iter %d/%d>' % (self.pos, len(self.items))


class BoundMethod(object):
    def __init__(self, obj, fi, cls=None):
        self.obj = obj
        self.fi = fi
        self.cls = cls

    def __repr__(self):
        return '<bound %s>' % self.fi.short


class Builtin(object):
    """A modelled builtin / stdlib callable or a method of an abstract value."""

    def __init__(self, name, recv=None):
        self.name = name
        self.recv = recv

    def __repr__(self):
        return '<builtin %s>' % self.name


class Label(object):
    """An opaque, comparable token (used for encoding-scope frames)."""

    def __init__(self, text):
        self.text = text

    def __repr__(self):
        return 'L(%s)' % self.text


class ExcValue(object):
    def __init__(self, exc, args=(), kwargs=None, site=None):
        self.exc = exc            # ClassInfo or builtin exception name (str)
        self.args = args
        self.kwargs = kwargs or {}
        self.site = site

    @property
    def exc_name(self):
        return self.exc if isinstance(self.exc, str) else self.exc.name

    def __repr__(self):
        return '<exc %s>' % self.exc_name


def kind_of(v):
    """Set of kind names of a value (None = unknown)."""
    if isinstance(v, Unk):
        if v.has_const:
            return kind_of(v.const)
        return v.kinds
    if isinstance(v, bool):
        return frozenset(['bool'])
    if type(v) in TYPE_KIND:
        return frozenset([TYPE_KIND[type(v)]])
    if isinstance(v, AList):
        return frozenset(['list'])
    if isinstance(v, ADict):
        return frozenset(['dict'])
    if isinstance(v, AStream):
        return frozenset(['Stream'])
    if isinstance(v, (AObj, ExcValue, Label)):
        return frozenset(['obj'])
    return frozenset(['callable'])


def taint_of(v):
    if isinstance(v, Unk):
        return v.taint
    if isinstance(v, (ADict, AList)):
        t = set(v.taint)
        vals = v.items.values() if isinstance(v, ADict) else v.items
        for x in vals:
            t |= taint_of(x)
        if isinstance(v, AList) and v.elem is not None:
            t |= taint_of(v.elem)
        return frozenset(t)
    if isinstance(v, tuple):
        t = set()
        for x in v:
            t |= taint_of(x)
        return frozenset(t)
    if isinstance(v, AStream):
        return v.taint
    return frozenset()


def is_concrete(v):
    if isinstance(v, Unk):
        return v.has_const
    if isinstance(v, tuple):
        return all(is_concrete(x) for x in v)
    return isinstance(v, (type(None), bool, int, str, bytes, float, frozenset, Label)) or \
        type(v).__name__ in ('ClassInfo', 'FunctionInfo', 'Regex', 'External', 'type')


def concrete(v):
    if isinstance(v, Unk) and v.has_const:
        return v.const
    if isinstance(v, tuple):
        return tuple(concrete(x) for x in v)
    return v
