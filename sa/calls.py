"""Models of builtin / stdlib calls and value methods (part of the E3 sink table)."""
import ast

from sa.model import AnalysisError, ClassInfo, External, FunctionInfo, Regex, norm
from sa.values import (ADict, AList, AObj, AStream, BoundMethod, Builtin, ExcValue, Label, Unk,
                       concrete, is_concrete, kind_of, taint_of)
from sa import models as M

tj = M.tj


def _raise(I, node, exc, note=None):
    from sa.interp import AbsRaise
    I.emit('raise', node, {'exc': exc, 'implicit': True, 'msg': note})
    raise AbsRaise(ExcValue(exc, site=node), site=node, explicit=False, note=note)


def _mname(I, node):
    """Name of the method being modelled (also for calls through an alias such as peek = fp.peek)."""
    f = getattr(node, 'func', None)
    if isinstance(f, ast.Attribute):
        return f.attr
    return getattr(I, 'cur_method', '?')


def codec_ok(v):
    """Is the codec-name operand known to name an existing codec?"""
    if is_concrete(v):
        cv = concrete(v)
        if cv is None:
            return False
        if isinstance(cv, str):
            import codecs
            try:
                codecs.lookup(cv)
                return True
            except LookupError:
                return False
        return False
    return isinstance(v, Unk) and 'codec-ok' in v.facts


def call_builtin(I, fn, args, kwargs, node):
    name = fn.name
    recv = fn.recv
    if recv is None:
        h = GLOBALS.get(name)
        if h is None:
            # an external callable without a transfer-table row: opaque result,
            # recorded so that rules needing exhaustive sink coverage can refuse
            I.emit('unmodelled-call', node, {'callee': name, 'args': args})
            I.unmodelled = getattr(I, 'unmodelled', set()) | {name}
            return Unk('call:%s' % name, taint=tj(*args, *kwargs.values()), src=('call', name, list(args)))
        return h(I, args, kwargs, node)
    kind, meth = name.split('.', 1)
    I.cur_method = meth
    h = METHODS.get(meth)
    if h is None:
        raise AnalysisError('no transfer-table row for method %s at %s' % (name, norm(node)[:60]))
    return h(I, recv, args, kwargs, node, kind)


# ------------------------------------------------------------------ globals

def b_len(I, a, k, node):
    v = a[0]
    cv = concrete(v)
    if is_concrete(v) and isinstance(cv, (str, bytes, tuple, frozenset, dict)):
        return len(cv)
    if isinstance(v, AList) and not v.unknown:
        return len(v.items)
    if type(v).__name__ == 'ASet':
        return len(v.items)
    if isinstance(v, ADict) and not v.open:
        return len(v.items)
    if isinstance(v, Unk) and getattr(v, 'one_of', None):
        try:
            ls = {len(concrete(c)) for c in v.one_of}
            if len(ls) == 1:
                return ls.pop()
            u = Unk('len', kinds=['int'])
            u.in_sets.append(frozenset(ls))
            u.facts.add('>=%d' % min(ls))
            return u
        except TypeError:
            pass
    if isinstance(v, Unk):
        ks = v.kinds
        if not (ks is not None and ks <= {'str', 'bytes', 'list', 'tuple', 'dict', 'set'}):
            if v.taint:
                I.may_raise(node, ['TypeError'], 'len() of value of unknown type', (v,))
    u = Unk('len(%s)' % getattr(v, 'name', '?'), kinds=['int'], taint=tj(v), src=('call', 'len', [v]))
    u.facts.add('>=0')
    return u


def _isinst(v, t):
    """True / False / None."""
    if isinstance(t, tuple):
        rs = [_isinst(v, x) for x in t]
        if any(r is True for r in rs):
            return True
        if all(r is False for r in rs):
            return False
        return None
    if isinstance(t, Unk):
        return None
    ks = kind_of(v)
    if isinstance(t, type):
        tk = M.TYPE_KIND.get(t)
        if t is object:
            return True
        if tk is None:
            return None
        if ks is None:
            return None
        if t is int:
            if ks <= {'int', 'bool'}:
                return True
            if not (ks & {'int', 'bool'}):
                return False
            return None
        if ks == frozenset([tk]):
            return True
        if tk not in ks:
            return False
        return None
    if isinstance(t, ClassInfo):
        cv = concrete(v)
        if isinstance(cv, AObj):
            return t in cv.cls.mro()
        if isinstance(cv, ExcValue):
            from sa.interp import exc_matches
            return exc_matches(cv.exc, t)
        if ks is not None and 'obj' not in ks:
            return False
        return None
    return None


def b_isinstance(I, a, k, node):
    v, t = a[0], concrete(a[1])
    r = _isinst(v, t)
    if r is not None:
        return r
    if isinstance(v, Unk):
        def refine(res, v=v, t=t):
            ts = t if isinstance(t, tuple) else (t,)
            kinds = set()
            for x in ts:
                if isinstance(x, type) and x in M.TYPE_KIND:
                    kinds.add(M.TYPE_KIND[x])
                    if x is int:
                        kinds.add('bool')
                else:
                    kinds.add('obj')
            if res:
                v.restrict(kinds)
            else:
                if kinds == {'int', 'bool'}:
                    v.exclude(['int'])   # bool stays only through int
                    v.exclude(['bool'])
                else:
                    v.exclude(kinds)
        return Unk('cond', kinds=['bool'], taint=tj(v), src=('cond', refine))
    return Unk('cond', kinds=['bool'], src=('cond', lambda t: None))


def b_type(I, a, k, node):
    v = concrete(a[0])
    if isinstance(v, AObj):
        return v.cls
    if is_concrete(a[0]) and type(v) in M.TYPE_KIND:
        return type(v)
    return Unk('type(%s)' % getattr(a[0], 'name', '?'), kinds=['type'], taint=frozenset(), src=('call', 'type', a))


def b_int(I, a, k, node):
    if not a:
        return 0
    v = a[0]
    if is_concrete(v):
        try:
            return int(concrete(v))
        except (ValueError, TypeError) as e:
            _raise(I, node, type(e).__name__)
    ks = kind_of(v)
    excs = []
    if ks is None or not ks <= {'int', 'bool', 'float'}:
        if not (isinstance(v, Unk) and 'digits' in v.facts):
            excs.append('ValueError')
        elif 'bounded-digits' not in v.facts:
            I.may_raise(node, ['ValueError'], 'int() of a digit string of unbounded length '
                        '(CPython int_max_str_digits limit)', (v,))
        if ks is None or not ks <= {'str', 'bytes', 'int', 'bool', 'float'}:
            excs.append('TypeError')
    if excs:
        I.may_raise(node, excs, 'int() of unvalidated text', (v,))
    return Unk('int(%s)' % getattr(v, 'name', '?'), kinds=['int'], taint=tj(v), src=('call', 'int', a))


def b_str(I, a, k, node):
    if not a:
        return ''
    v = a[0]
    if is_concrete(v) and isinstance(concrete(v), (str, int, bytes, type(None), bool)):
        return str(concrete(v))
    return Unk('str(%s)' % getattr(v, 'name', '?'), kinds=['str'], taint=tj(v), src=('call', 'str', a))


def b_repr(I, a, k, node):
    return Unk('repr', kinds=['str'], taint=tj(a[0]), src=('call', 'repr', a))


def b_sorted(I, a, k, node):
    v = a[0]
    cv = concrete(v)
    if is_concrete(v) and isinstance(cv, (frozenset, tuple, list)) and 'key' not in k:
        try:
            return AList(sorted(cv))
        except TypeError:
            pass
    if isinstance(v, tuple) and v and v[0] == 'items':
        keyfn = k.get('key')
        by_key = keyfn is None
        if isinstance(keyfn, tuple) and keyfn and keyfn[0] == 'lambda':
            lam = keyfn[1]
            b = lam.body
            by_key = isinstance(b, ast.Subscript) and isinstance(b.slice, ast.Constant) and b.slice.value == 0
        pairs = v[1]
        if all(is_concrete(p_[0]) for p_ in pairs) and not k.get('reverse'):
            pairs = sorted(pairs, key=lambda p_: str(concrete(p_[0])))
        out = ('items', pairs, v[2], 'sorted' if by_key and not k.get('reverse') else 'sorted-other')
        return out
    if isinstance(v, AList):
        l = AList(list(v.items), elem=v.elem)
        l.sorted = True
        return l
    if isinstance(v, ADict):
        l = AList(sorted(v.items, key=repr), elem=Unk('key', kinds=['str'], taint=v.taint) if v.open else None)
        l.sorted = True
        return l
    u = Unk('sorted', kinds=['list'], taint=tj(v), src=('call', 'sorted', a))
    u.src = ('iter-of', v) if isinstance(v, (Unk,)) else u.src
    return u


def b_range(I, a, k, node):
    if all(is_concrete(x) and isinstance(concrete(x), int) for x in a):
        r = range(*[concrete(x) for x in a])
        if len(r) > 64:
            raise AnalysisError('range too large')
        return tuple(r)
    for x in a:
        kx = kind_of(x)
        if not (kx is not None and kx <= {'int', 'bool'}):
            I.may_raise(node, ['TypeError'], 'range() of non-integer', (x,))
    u = Unk('range', kinds=['tuple'], taint=tj(*a), src=('call', 'range', a))
    u.elem_kinds = ['int']
    return u


def b_enumerate(I, a, k, node):
    start = concrete(k.get('start', a[1] if len(a) > 1 else 0))
    seq = M.iterate(I, a[0], node)
    return tuple((start + i if isinstance(start, int) else Unk('i', kinds=['int']), x) for i, x in enumerate(seq))


def b_dict(I, a, k, node):
    d = ADict({}, name='dict()@%d' % node.lineno)
    if a:
        M.dict_update(I, d, a[0], node)
    open_ = k.pop('**open', None)
    unknown_ = k.pop('**unknown', None)
    for key, v in k.items():
        d.items[key] = v
    if open_ is not None:
        M.dict_update(I, d, open_, node)
    if unknown_ is not None:
        for key, v in list(d.items.items()):
            d.items[key] = Unk('overridable:%s' % key, taint=tj(v, unknown_), src=('override', v, unknown_))
        d.open = True
        d.taint |= unknown_.taint
    return d


def b_iter(I, a, k, node):
    from sa.values import AIter
    v = a[0]
    if isinstance(v, AIter):
        return v
    definite = (isinstance(v, tuple) and not (v and isinstance(v[0], str) and v[0] in ('items', 'super'))) or \
        (isinstance(v, AList) and not v.unknown) or isinstance(v, AObj) or \
        (is_concrete(v) and isinstance(concrete(v), (tuple, list)))
    if definite:
        return AIter(M.iterate(I, v, node))
    if isinstance(v, (AList, ADict, tuple)):
        return v
    return Unk('iter', kinds=['obj'], taint=tj(v), src=('iter-of', v))


def b_reversed(I, a, k, node):
    from sa.values import AIter
    v = a[0]
    definite = (isinstance(v, AList) and not v.unknown) or (is_concrete(v) and isinstance(concrete(v), (tuple, list)))
    if definite:
        return AIter(list(reversed(M.iterate(I, v, node))))
    return Unk('reversed', kinds=['obj'], taint=tj(v), src=('iter-of', v))


def b_next(I, a, k, node):
    from sa.values import AIter
    it = a[0]
    if isinstance(it, AList) and not it.unknown and isinstance(node, ast.Call) and node.args and isinstance(node.args[0], ast.GeneratorExp):
        # a generator expression is evaluated eagerly by the model: next() takes its first element
        if it.items:
            return it.items[0]
        if len(a) > 1:
            return a[1]
        _raise(I, node, 'StopIteration', 'iterator exhausted')
    if isinstance(it, AIter):
        if it.pos < len(it.items):
            it.pos += 1
            return it.items[it.pos - 1]
        if len(a) > 1:
            return a[1]
        _raise(I, node, 'StopIteration', 'iterator exhausted')
    if len(a) < 2:
        I.may_raise(node, ['StopIteration'], 'next() on an iterator of unknown length', (it,))
    return Unk('next', taint=tj(it), src=('call', 'next', a))


def b_minmax(I, a, k, node):
    vals = a
    if len(a) == 1:
        v = a[0]
        if isinstance(v, AList) and not v.unknown:
            vals = v.items
        else:
            if isinstance(v, AList) and not v.items:
                I.may_raise(node, ['ValueError'], 'min/max of possibly empty sequence', (v,))
            return Unk('min', kinds=['int'], taint=tj(v), src=('call', 'min', a))
    if all(is_concrete(x) for x in vals) and vals:
        return min(concrete(x) for x in vals) if node.func.id == 'min' else max(concrete(x) for x in vals)
    return Unk('minmax', kinds=['int'], taint=tj(*vals), src=('call', 'min', list(vals)))


def b_getattr(I, a, k, node):
    obj, name = a[0], concrete(a[1])
    if not (is_concrete(a[1]) and isinstance(name, str)):
        I.emit('dynamic-getattr', node, {'obj': obj, 'name': a[1]})
        cands = getattr(a[1], 'candidates', None)
        if cands:
            c = I.choose(len(cands), 'getattr')
            a[1].pin(cands[c])
            return b_getattr(I, [obj, cands[c]] + list(a[2:]), k, node)
        raise AnalysisError('getattr with unknown name at %s' % norm(node)[:60])
    if len(a) > 2:
        from sa.interp import AbsRaise
        try:
            return I.get_attr(obj, name, node)
        except AbsRaise as e:
            if e.exc.exc_name == 'AttributeError':
                return a[2]
            raise
    return I.get_attr(obj, name, node)


def b_setattr(I, a, k, node):
    obj, name, v = a[0], a[1], a[2]
    if is_concrete(name) and isinstance(concrete(name), str):
        return I.set_attr(obj, concrete(name), v, node)
    I.emit('dynamic-setattr', node, {'obj': obj, 'name': name, 'value': v})
    if isinstance(obj, AObj) and isinstance(name, Unk):
        # tainted attribute name: enumerate the outcomes by kind of target
        cands = setattr_candidates(I, obj.cls)
        c = I.choose(len(cands) + 1, 'setattr-name')
        if c == len(cands):
            _raise(I, node, 'AttributeError', 'no such attribute')
        name.pin(cands[c])
        return I.set_attr(obj, cands[c], v, node)
    raise AnalysisError('setattr with unknown name')


def setattr_candidates(I, cls):
    names = []
    seen = set()
    for c in cls.repo_mro():
        for n in list(c.attrs) + list(c.props) + list(c.methods):
            if n not in seen and not n.startswith('__'):
                seen.add(n)
                names.append(n)
    slots = M.class_slots(I.P, cls)
    for s in sorted(slots or ()):
        if s not in seen:
            names.append(s)
            seen.add(s)
    return names


def b_super(I, a, k, node):
    fr = I.frames[-1]
    fi = fr.fi
    self_obj = fr.locals.get(fi.params()[0]) if fi.params() else None
    after = fi.cls
    if a:
        after = concrete(a[0])
        self_obj = a[1]
    return ('super', after, self_obj)


def b_bool(I, a, k, node):
    return I.truth(a[0], node) if a else False


def b_list(I, a, k, node):
    if not a:
        return AList([])
    seq = M.iterate(I, a[0], node)
    return AList(list(seq))


def b_tuple(I, a, k, node):
    if not a:
        return ()
    return tuple(M.iterate(I, a[0], node))


def b_hasattr(I, a, k, node):
    from sa.interp import AbsRaise
    if isinstance(a[1], Unk) and not a[1].has_const and isinstance(a[0], AObj):
        # a name that comes from data: either one of the names the class knows, or none of them
        cands = setattr_candidates(I, a[0].cls)
        c = I.choose(len(cands) + 1, 'hasattr-name')
        I.emit('dynamic-hasattr', node, {'obj': a[0], 'name': a[1]})
        if c == len(cands):
            a[1].facts.add('not-an-attribute')
            return False
        a[1].pin(cands[c])
    try:
        I.get_attr(a[0], concrete(a[1]), node)
        return True
    except AbsRaise:
        return False


def b_sum(I, a, k, node):
    return Unk('sum', kinds=['int'], taint=tj(*a), src=('call', 'sum', a))


def b_json_loads(I, a, k, node):
    v = a[0]
    excs = ['ValueError']
    kv = kind_of(v)
    if kv is None or not kv <= {'str', 'bytes'}:
        excs.append('TypeError')
    I.may_raise(node, excs, 'json.loads of input text', (v,))
    u = Unk('json', kinds=['dict', 'list', 'str', 'int', 'float', 'bool', 'NoneType'], taint=tj(v) | {'JSON'},
            src=('call', 'json.loads', a))
    return u


def b_json_dumps(I, a, k, node):
    I.emit('json.dumps', node, {'args': a, 'kwargs': k})
    v = a[0]
    if tj(v) & {'ARG'} or isinstance(v, Unk):
        I.may_raise(node, ['TypeError', 'ValueError'], 'json.dumps of caller-supplied value', (v,))
    return Unk('json.dumps', kinds=['str'], taint=tj(v), src=('call', 'json.dumps', a, k))


def b_re_compile(I, a, k, node):
    p = a[0]
    if is_concrete(p):
        fl = concrete(a[1]) if len(a) > 1 else concrete(k.get('flags', 0))
        return Regex(concrete(p), int(fl))
    # pattern built from data: a format of a constant template with integer operands
    excs = ['re.error', 'OverflowError']
    if isinstance(p, Unk) and p.src and p.src[0] == 'format':
        ops = p.src[2]
        ops = ops if isinstance(ops, list) else [ops]
        tainted = [o for o in ops if taint_of(o)]
        ints = all(isinstance(o, Unk) and o.only('int', 'bool') for o in tainted)
        lower = all(any(str(f).startswith(('>=', '>')) for f in o.facts) for o in tainted) if ints else False
        upper = all(any(str(f).startswith('<') for f in o.facts) for o in tainted) if ints else False
        if ints and lower:
            excs.remove('re.error')       # a repeat count that is a non-negative integer is well-formed
        if ints and upper:
            excs.remove('OverflowError')
    if excs and tj(p):
        I.may_raise(node, excs, 're.compile of a pattern built from unvalidated data', (p,))
    return Unk('regex', kinds=['Regex'], taint=tj(p), src=('call', 're.compile', a))


def b_bytesio(I, a, k, node):
    s = AStream('BytesIO@%d' % node.lineno, taint=tj(*a) if a else ())
    s.internal = True
    s.init = a[0] if a else None
    return s


def b_deepcopy(I, a, k, node):
    v = a[0]
    return deep_copy(v)


def deep_copy(v):
    if isinstance(v, ADict):
        d = ADict({k: deep_copy(x) for k, x in v.items.items()}, open_=v.open, taint=v.taint, name='deepcopy(%s)' % v.name)
        return d
    if isinstance(v, AList):
        return AList([deep_copy(x) for x in v.items], elem=v.elem)
    if isinstance(v, Unk):
        u = Unk('deepcopy(%s)' % v.name, kinds=v.kinds, taint=v.taint, src=('call', 'deepcopy', [v]))
        return u
    return v


def b_getlogger(I, a, k, node):
    return Unk('logger', kinds=['obj'], src=('shared', 'logger'))


def b_codecs_lookup(I, a, k, node):
    v = a[0]
    mk = ('codecs.lookup', id(v))
    if mk in I.memo and isinstance(v, Unk) and 'codec-exists' in v.facts:
        return I.memo[mk]
    if not (codec_ok(v) or (isinstance(v, Unk) and 'codec-exists' in v.facts)):
        excs = ['LookupError']
        kv = kind_of(v)
        if kv is None or not kv <= {'str'}:
            excs.append('TypeError')
        I.may_raise(node, excs, 'codec lookup of unvalidated name', (v,))
    if isinstance(v, Unk):
        # the registry knows the name; that does NOT make it a text encoding
        # (str.encode / bytes.decode raise LookupError for e.g. 'base64')
        v.facts.add('codec-exists')
        v.restrict(['str'])
    o = Unk('codecinfo', kinds=['obj'], taint=tj(v), src=('call', 'codecs.lookup', a))
    I.memo[mk] = o
    return o


def b_dir(I, a, k, node):
    o = a[0] if a else None
    if isinstance(o, AObj):
        names = set(setattr_candidates(I, o.cls)) | set(o.attrs) | {'__class__', '__init__', '__eq__', '__repr__'}
        return AList(sorted(names))
    return Unk('dir', kinds=['list'])


def b_set(I, a, k, node):
    from sa.values import ASet
    mutable = isinstance(getattr(node, 'func', None), ast.Name) and node.func.id == 'set'
    if not a:
        return ASet() if mutable else frozenset()
    seq = M.iterate(I, a[0], node)
    if all(is_concrete(x) for x in seq) and not (isinstance(a[0], AList) and a[0].unknown):
        try:
            fs = frozenset(concrete(x) for x in seq)
            return ASet([concrete(x) for x in seq]) if mutable else fs
        except TypeError:
            pass
    return Unk('set', kinds=['set'], taint=tj(*seq))


def m_aset(I, recv, a, k, node, kind):
    """Methods of a set the analysed code created itself."""
    from sa.values import ASet
    name = _mname(I, node)

    def elems(v):
        if isinstance(v, ASet):
            return list(v.items)
        seq = M.iterate(I, v, node)
        if not all(is_concrete(x) for x in seq):
            raise AnalysisError('set operation with unknown elements at %s' % norm(node)[:60])
        return [concrete(x) for x in seq]
    if name == 'add':
        I.effect('mutate', node, {'obj': recv, 'op': 'set.add'})
        if not is_concrete(a[0]):
            # the set now also holds values the analysis does not know: membership in it is undecided from here on
            recv.unknown = True
            recv.taint = getattr(recv, 'taint', frozenset()) | tj(a[0])
            return None
        if concrete(a[0]) not in recv.items:
            recv.items.append(concrete(a[0]))
        return None
    if name == 'update':
        I.effect('mutate', node, {'obj': recv, 'op': 'set.update'})
        for v in a:
            if isinstance(v, ASet):
                seq_ = list(v.items)
                if getattr(v, 'unknown', False):
                    recv.unknown = True
            else:
                seq_ = M.iterate(I, v, node)
            for x in seq_:
                if not is_concrete(x):
                    recv.unknown = True
                    recv.taint = getattr(recv, 'taint', frozenset()) | tj(x)
                elif concrete(x) not in recv.items:
                    recv.items.append(concrete(x))
        return None
    if name in ('discard', 'remove'):
        x = concrete(a[0])
        if x in recv.items:
            recv.items.remove(x)
        elif name == 'remove':
            _raise(I, node, 'KeyError', 'set.remove of a missing element')
        return None
    if name == 'clear':
        del recv.items[:]
        return None
    if name == 'copy':
        return ASet(recv.items)
    if name in ('union', 'intersection', 'difference'):
        cur = list(recv.items)
        for v in a:
            o = elems(v)
            if name == 'union':
                cur += [x for x in o if x not in cur]
            elif name == 'intersection':
                cur = [x for x in cur if x in o]
            else:
                cur = [x for x in cur if x not in o]
        return ASet(cur)
    if name in ('issubset', 'issuperset', 'isdisjoint'):
        o = set(elems(a[0]))
        return getattr(set(recv.items), name)(o)
    raise AnalysisError('set method %s not modelled at %s' % (name, norm(node)[:60]))


def b_noop(I, a, k, node):
    return None


def b_print(I, a, k, node):
    I.effect('print', node, {})


def b_any(I, a, k, node):
    seq = M.iterate(I, a[0], node)
    return Unk('cond', kinds=['bool'], taint=tj(*seq), src=('cond', lambda t: None))


GLOBALS = {
    'len': b_len, 'isinstance': b_isinstance, 'type': b_type, 'int': b_int, 'str': b_str,
    'repr': b_repr, 'sorted': b_sorted, 'range': b_range, 'enumerate': b_enumerate, 'dict': b_dict,
    'iter': b_iter, 'next': b_next, 'reversed': b_reversed, 'min': b_minmax, 'max': b_minmax, 'getattr': b_getattr, 'setattr': b_setattr,
    'super': b_super, 'bool': b_bool, 'list': b_list, 'tuple': b_tuple, 'hasattr': b_hasattr,
    'sum': b_sum, 'any': b_any, 'all': b_any, 'print': b_print,
    'json.loads': b_json_loads, 'json.dumps': b_json_dumps, 're.compile': b_re_compile,
    'io.BytesIO': b_bytesio, 'copy.deepcopy': b_deepcopy, 'logging.getLogger': b_getlogger,
    'codecs.lookup': b_codecs_lookup, 'logging.log': b_noop, 'dir': b_dir, 'set': b_set, 'frozenset': b_set, 'object.__init__': b_noop,
}


# ------------------------------------------------------------------ methods

def _k(recv):
    return kind_of(recv)


def m_decode(I, recv, a, k, node, kind):
    enc = a[0] if a else k.get('encoding', 'utf-8')
    errors = concrete(a[1] if len(a) > 1 else k.get('errors', 'strict'))
    kr = _k(recv)
    if kr is not None and not (kr & {'bytes'}):
        _raise(I, node, 'AttributeError', 'decode on non-bytes')
    if kr is None or not kr <= {'bytes'}:
        I.may_raise(node, ['AttributeError'], '.decode on a value that may not be bytes', (recv,))
    I.emit('decode', node, {'recv': recv, 'encoding': enc, 'errors': errors})
    if not codec_ok(enc):
        excs = ['LookupError']
        ke = kind_of(enc)
        if ke is None or not ke <= {'str'}:
            excs.append('TypeError')
        I.may_raise(node, excs, 'decode with unvalidated codec name', (enc, recv))
        if isinstance(enc, Unk):
            enc.facts.add('codec-ok')
    if errors == 'strict':
        safe = False
        cenc = concrete(enc) if is_concrete(enc) else None
        if isinstance(recv, Unk):
            if cenc in ('ascii', 'utf-8', 'latin-1') and 'ascii-only' in recv.facts:
                safe = True
            if ('encoded-by', id(enc)) in recv.facts or (cenc is not None and ('encoded-in', cenc) in recv.facts):
                safe = True
        elif is_concrete(recv):
            safe = True
        if not safe:
            excs = ['UnicodeDecodeError']
            if cenc is None:
                # a codec chosen by the data: not every codec reports bad input with the subclass (punycode and idna
                # raise a bare UnicodeError)
                excs.append('UnicodeError')
            I.may_raise(node, excs, 'strict decode of unvalidated bytes', (recv, enc))
    if is_concrete(recv) and is_concrete(enc):
        try:
            return concrete(recv).decode(concrete(enc))
        except Exception:
            pass
    u = Unk('%s.decode' % getattr(recv, 'name', 'b'), kinds=['str'], taint=tj(recv), src=('method', recv, 'decode', [enc]))
    if isinstance(recv, Unk):
        for f in recv.facts:
            if f in ('ascii-only',) or (isinstance(f, tuple) and f[0] == 'lang'):
                u.facts.add(f)
            if f == 'truthy':
                u.facts.add(f)
    return u


def m_encode(I, recv, a, k, node, kind):
    enc = a[0] if a else k.get('encoding', 'utf-8')
    kr = _k(recv)
    if kr is not None and not (kr & {'str'}):
        _raise(I, node, 'AttributeError', 'encode on non-str')
    if kr is None or not kr <= {'str'}:
        I.may_raise(node, ['AttributeError'], '.encode on a value that may not be str', (recv,))
    errors = a[1] if len(a) > 1 else k.get('errors')
    I.emit('encode', node, {'recv': recv, 'encoding': enc, 'errors': errors})
    if not codec_ok(enc):
        excs = ['LookupError']
        ke = kind_of(enc)
        if ke is None or not ke <= {'str'}:
            excs.append('TypeError')
        I.may_raise(node, excs, 'encode with unvalidated codec name', (enc, recv))
        if isinstance(enc, Unk):
            enc.facts.add('codec-ok')
    if not is_concrete(recv):
        cenc = concrete(enc) if is_concrete(enc) else None
        if not (cenc in ('ascii', 'utf-8') and isinstance(recv, Unk) and 'ascii-only' in recv.facts) and \
                not (cenc in ('utf-8', 'utf-16', 'utf-32')):
            I.may_raise(node, ['UnicodeEncodeError'], 'encode of text that may not be representable', (recv, enc))
    elif is_concrete(enc):
        try:
            return concrete(recv).encode(concrete(enc))
        except Exception:
            pass
    u = Unk('%s.encode' % getattr(recv, 'name', repr(concrete(recv))), kinds=['bytes'], taint=tj(recv, enc),
            src=('method', recv, 'encode', [enc]))
    u.facts.add(('encoded-by', id(enc)))
    if getattr(enc, 'param_name', None):
        u.facts.add(('encoded-by-param', enc.param_name))
    if is_concrete(enc):
        u.facts.add(('encoded-in', concrete(enc)))
    if is_concrete(recv) and concrete(recv):
        u.facts.add('truthy')
    return u


def m_split(I, recv, a, k, node, kind):
    sep = a[0] if a else None
    maxsplit = concrete(a[1]) if len(a) > 1 else concrete(k.get('maxsplit', -1))
    if is_concrete(recv) and is_concrete(sep):
        return AList(list(concrete(recv).split(concrete(sep), maxsplit)))
    kr = _k(recv)
    elem = Unk('%s.piece' % getattr(recv, 'name', 's'), kinds=kr if kr and kr <= {'str', 'bytes'} else None,
               taint=tj(recv), src=('method', recv, 'split', [sep, maxsplit]))
    if isinstance(recv, Unk) and 'ascii-only' in recv.facts:
        elem.facts.add('ascii-only')
    l = AList([], elem=elem)
    l.facts = {'nonempty'}
    l.split_of = (recv, sep, maxsplit)
    if maxsplit == 1:
        l.max_len = 2
    I.emit('split', node, {'recv': recv, 'sep': sep, 'maxsplit': maxsplit, 'result': l})
    if isinstance(recv, Unk) and is_concrete(sep) and concrete(sep):
        go = getattr(recv, 'group_of', None)
        if go is not None:
            elem.piece_of = (go[0], go[1], concrete(sep))
        po = getattr(recv, 'piece_of', None)
        if po is not None and maxsplit == 1:
            if _pieces_always_contain(po[0], po[1], po[2], concrete(sep)):
                l.exact_len = 2
    return l


_LEMMA_CACHE = {}


def _pieces_always_contain(rx, gi, sep1, sep2):
    """Split lemma on automata: every piece of G.split(sep1) contains sep2,
    where G ranges over the language of group gi of rx."""
    key = (rx, gi, sep1, sep2)
    if key not in _LEMMA_CACHE:
        from sa import rx as RX
        try:
            G = RX.group_language(rx.pattern, rx.flags, gi)
            N = G.N
            Q = RX.intersect(RX.complement(RX.contains_substring(sep1, N)), RX.contains_substring(sep2, N))
            allowed = RX.concat(Q, RX.star(RX.concat(RX.literal(sep1, N), Q)))
            _LEMMA_CACHE[key] = RX.included(G, allowed) is None and _no_self_overlap(sep1)
        except AnalysisError:
            _LEMMA_CACHE[key] = False
    return _LEMMA_CACHE[key]


def _no_self_overlap(sep):
    return all(sep[:k] != sep[-k:] for k in range(1, len(sep)))


def m_strip(I, recv, a, k, node, kind):
    if is_concrete(recv) and all(is_concrete(x) for x in a):
        return getattr(concrete(recv), _mname(I, node))(*[concrete(x) for x in a])
    u = Unk('%s.%s' % (getattr(recv, 'name', 's'), _mname(I, node)), kinds=_k(recv), taint=tj(recv),
            src=('method', recv, _mname(I, node), a))
    if isinstance(recv, Unk) and 'strip-truthy' in recv.facts:
        u.facts.add('truthy')
    if hasattr(recv, 'k1_record'):
        u.k1_record = recv.k1_record
    return u


def m_startswith(I, recv, a, k, node, kind):
    if len(a) > 1 and isinstance(recv, Unk):
        # x.endswith(s, start[, end]) is x[start:end].endswith(s)
        lo = a[1]
        hi = a[2] if len(a) > 2 else None
        lo = None if (is_concrete(lo) and concrete(lo) in (0, None)) else lo
        part = M.slice_value(I, recv, ('slice', lo, hi, None), node)
        return m_startswith(I, part, [a[0]], k, node, kind)
    if is_concrete(recv) and all(is_concrete(x) for x in a):
        return getattr(concrete(recv), _mname(I, node))(*[concrete(x) for x in a])
    which_ = _mname(I, node)
    if isinstance(recv, Unk) and is_concrete(a[0]) and isinstance(concrete(a[0]), tuple) and len(a) == 1:
        # x.startswith((p, q, ...)) is x.startswith(p) or x.startswith(q) or ...: decided one constant at a time,
        # so that every path knows which prefix it has
        for opt in concrete(a[0]):
            r_ = m_startswith(I, recv, [opt], k, node, kind)
            if I.truth(r_, node):
                return True
        return False
    if isinstance(recv, Unk) and is_concrete(a[0]) and isinstance(concrete(a[0]), (bytes, str)) and len(a) == 1:
        # what the path already knows about this value's prefix / suffix may decide the test
        q = concrete(a[0])
        yes = [f[1] for f in recv.facts if isinstance(f, tuple) and f[0] == which_ + '-const' and type(f[1]) is type(q)]
        no = [f[1] for f in recv.facts if isinstance(f, tuple) and f[0] == which_ + '-not' and type(f[1]) is type(q)]
        fits = (lambda long_, short_: long_.startswith(short_)) if which_ == 'startswith' else (lambda long_, short_: long_.endswith(short_))
        if any(fits(t, q) for t in yes):
            return True
        if any(not fits(t, q) and not fits(q, t) for t in yes):
            return False
        if any(fits(q, f_) for f_ in no):
            return False
    if is_concrete(recv) and is_concrete(a[0]):
        return getattr(concrete(recv), _mname(I, node))(concrete(a[0]))
    if _mname(I, node) == 'endswith' and isinstance(recv, Unk) and is_concrete(a[0]) \
            and getattr(recv, 'suffix', None) is not None and recv.suffix == concrete(a[0]):
        return True
    kr, ka = _k(recv), kind_of(a[0])
    if kr is not None and ka is not None and len(kr) == 1 and kr <= {'str', 'bytes'}:
        if not (ka <= kr | {'tuple'}):
            if not (ka & kr):
                _raise(I, node, 'TypeError', 'startswith/endswith type mismatch')
            I.may_raise(node, ['TypeError'], 'str/bytes mismatch in %s' % _mname(I, node), (recv, a[0]))
    I.emit(_mname(I, node), node, {'recv': recv, 'arg': a[0]})

    def refine(t, recv=recv, arg=a[0], which=_mname(I, node)):
        if isinstance(recv, Unk):
            recv.facts.add((which, id(arg), bool(t)))
            if t and is_concrete(arg):
                recv.facts.add((which + '-const', concrete(arg)))
            if not t and is_concrete(arg) and isinstance(concrete(arg), (bytes, str)):
                recv.facts.add((which + '-not', concrete(arg)))
            if t:
                recv.facts.add('truthy')
    return Unk('cond', kinds=['bool'], taint=tj(recv, a[0]), src=('cond', refine))


def m_find(I, recv, a, k, node, kind):
    if is_concrete(recv) and is_concrete(a[0]):
        return concrete(recv).find(concrete(a[0]))
    u = Unk('find', kinds=['int'], taint=tj(recv, a[0]), src=('method', recv, 'find', a))
    u.facts.add('>=-1')
    return u


def m_index(I, recv, a, k, node, kind):
    if isinstance(recv, AList) or kind == 'list':
        I.may_raise(node, ['ValueError'], 'list.index of a value that may be absent', (recv, a[0]))
        return Unk('index', kinds=['int'], taint=tj(recv))
    sub = a[0]
    ok = False
    x = sub
    while isinstance(x, Unk) and x.src is not None:
        if x.src[0] in ('method', 'elem', 'derive', 'unpack', 'slice', 'item') and x.src[1] is recv:
            ok = True
            break
        if x.src[0] in ('elem', 'derive', 'unpack', 'slice') and isinstance(x.src[1], Unk):
            x = x.src[1]
            continue
        if x.src[0] == 'method' and x.src[2] in ('split', 'strip', 'group') and isinstance(x.src[1], Unk):
            x = x.src[1]
            continue
        if x.src[0] == 'method' and x.src[2] == 'group' and type(x.src[1]).__name__ == 'AMatch':
            if x.src[1].source is recv:
                ok = True
            break
        if x.src[0] == 'method' and x.src[2] == 'group' and isinstance(x.src[1], Unk) and x.src[1].src \
                and x.src[1].src[0] == 'regex' and x.src[1].src[3] is recv:
            ok = True
            break
        break
    if not ok:
        I.may_raise(node, ['ValueError'], '.index of a value not known to be a substring', (recv, sub))
    u = Unk('index', kinds=['int'], taint=tj(recv, sub), src=('method', recv, 'index', a))
    u.facts.add('>=0')
    return u


def m_join(I, recv, a, k, node, kind):
    seq = a[0]
    items = M.iterate(I, seq, node) if not (isinstance(seq, AList)) else seq.items + ([seq.elem] if seq.unknown else [])
    if is_concrete(recv) and all(is_concrete(x) for x in items) and not (isinstance(seq, AList) and seq.unknown):
        try:
            return concrete(recv).join(concrete(x) for x in items)
        except TypeError:
            _raise(I, node, 'TypeError')
    kr = _k(recv)
    for x in items:
        kx = kind_of(x)
        if kr is not None and kx is not None and not (kx <= kr):
            I.may_raise(node, ['TypeError'], 'join of items of another type', (x,))
    u = Unk('join', kinds=kr, taint=tj(recv, *items), src=('method', recv, 'join', [seq, list(items)]))
    u.joined = (recv, seq, list(items))
    u.join_sorted = bool(getattr(seq, 'sorted_source', False) or getattr(seq, 'sorted', False))
    sure = [x for x in (seq.items if isinstance(seq, AList) else items)]
    if sure and any((isinstance(x, Unk) and 'truthy' in x.facts) or (is_concrete(x) and concrete(x)) for x in sure):
        u.facts.add('truthy')
    return u


def m_format(I, recv, a, k, node, kind):
    if is_concrete(recv) and all(is_concrete(x) for x in list(a) + list(k.values())):
        try:
            return concrete(recv).format(*[concrete(x) for x in a], **{kk: concrete(v) for kk, v in k.items()})
        except Exception:
            pass
    u = Unk('format', kinds=['str'], taint=tj(recv, *a, *k.values()), src=('format', recv, list(a) + list(k.values())))
    if is_concrete(recv):
        import re as _re
        if _re.sub(r'\{[^{}]*\}', '', concrete(recv)):
            u.facts.add('truthy')
    return u


def m_removeaffix(I, recv, a, k, node, kind):
    """bytes/str.removesuffix / removeprefix: when the path knows the value ends (starts) with the argument this is
    exactly the slice that cuts it off; otherwise the value may come back unchanged."""
    meth = _mname(I, node)
    if is_concrete(recv) and is_concrete(a[0]):
        return getattr(concrete(recv), meth)(concrete(a[0]))
    arg = a[0]
    if isinstance(recv, Unk):
        which = 'endswith' if meth == 'removesuffix' else 'startswith'
        known = any(isinstance(f, tuple) and f[0] == which and f[1] == id(arg) and f[2] is True for f in recv.facts) or \
            (is_concrete(arg) and any(isinstance(f, tuple) and f[0] == which + '-const' and f[1] == concrete(arg) for f in recv.facts)) or \
            (meth == 'removesuffix' and is_concrete(arg) and getattr(recv, 'suffix', None) == concrete(arg))
        if known:
            n = b_len(I, [arg], {}, node)
            if meth == 'removesuffix':
                hi = -n if isinstance(n, int) else Unk('neg', kinds=['int'], taint=taint_of(n), src=('neg', n))
                return M.slice_value(I, recv, ('slice', None, hi, None), node)
            return M.slice_value(I, recv, ('slice', n, None, None), node)
    return Unk('%s.%s' % (getattr(recv, 'name', 's'), meth), kinds=_k(recv), taint=tj(recv, *a), src=('method', recv, meth, a))


def _text_receiver(I, recv, node, meth):
    """str/bytes-only methods called on a value whose kinds are known to include something else (an option value the header
    parser converted to int, None): AttributeError."""
    kr = _k(recv)
    if not kr or isinstance(recv, (AList, ADict)):
        return
    other = set(kr) - {'str', 'bytes', 'bytearray'}
    if not other:
        return
    if not (set(kr) & {'str', 'bytes', 'bytearray'}):
        _raise(I, node, 'AttributeError', '%s on a %s value' % (meth, '/'.join(sorted(other))))
    what = '/'.join(sorted(other)) if len(other) <= 3 else 'something other than text (%s, ...)' % '/'.join(sorted(other & {'int', 'NoneType', 'bool'}) or sorted(other)[:2])
    I.may_raise(node, ['AttributeError'], '.%s on a value that may be %s' % (meth, what), (recv,))


def m_strsimple(I, recv, a, k, node, kind):
    if is_concrete(recv) and all(is_concrete(x) for x in a):
        try:
            return getattr(concrete(recv), _mname(I, node))(*[concrete(x) for x in a])
        except Exception:
            pass
    meth = _mname(I, node)
    rk = _k(recv)
    if meth not in ('count',):        # list.count exists
        _text_receiver(I, recv, node, meth)
    if meth in ('isdigit', 'isspace', 'isalnum', 'isdecimal', 'isnumeric', 'isupper', 'islower', 'isalpha', 'isidentifier', 'istitle'):
        return Unk('cond', kinds=['bool'], taint=tj(recv), src=('cond', lambda t: None))
    if meth == 'count':
        return Unk('count', kinds=['int'], taint=tj(recv), src=('method', recv, meth, a))
    if meth in ('splitlines',):
        elem = Unk('%s.line' % getattr(recv, 'name', 's'), kinds=rk, taint=tj(recv), src=('method', recv, meth, a))
        return AList([], elem=elem)
    return Unk('%s.%s' % (getattr(recv, 'name', 's'), meth), kinds=rk, taint=tj(recv, *a), src=('method', recv, meth, a))


# dict methods

def m_get(I, recv, a, k, node, kind):
    key = a[0]
    default = a[1] if len(a) > 1 else None
    ck = concrete(key)
    if isinstance(recv, dict):
        recv = M.lift_shared(recv, 'dict')
    if isinstance(recv, ADict):
        I.emit('dict-get', node, {'dict': recv, 'key': key, 'default': default})
        if is_concrete(key):
            if ck in recv.items:
                return recv.items[ck]
            if recv.open and ck not in recv.absent:
                if I.choose(2, 'has %r' % (ck,)) == 0:
                    u = I.open_value(recv, ck)
                    recv.items[ck] = u
                    return u
                recv.absent.add(ck)
            return default
        if isinstance(key, Unk) and not recv.open and recv.items:
            ks = [x for x in recv.items if all(x in s for s in key.in_sets) and x not in key.neq]
            if len(ks) == 1 and any(frozenset(ks) >= s for s in key.in_sets):
                key.pin(ks[0])
                return recv.items[ks[0]]
            mk = ('get-hit', id(recv), id(key))
            if mk not in I.memo:
                I.memo[mk] = I.choose(2, 'get-hit') if ks else 1
            if ks and I.memo[mk] == 0:
                kinds = set()
                for x in ks:
                    kk = kind_of(recv.items[x])
                    if kk is None:
                        kinds = None
                        break
                    kinds |= kk
                u = Unk('%s.get(%s)' % (recv.name, key.name), kinds=kinds, taint=tj(key), src=('item', recv, key))
                u.one_of = [recv.items[x] for x in ks]
                u.facts.add('truthy' if all(M.truthy_concrete(concrete(recv.items[x])) for x in ks) else 'x')
                key.in_sets.append(frozenset(ks))
                return u
            key.notin_sets.append(frozenset(recv.items))
            return default
        return Unk('%s.get' % recv.name, taint=tj(recv), src=('item', recv, key))
    if isinstance(recv, Unk):
        if recv.kinds is None or not recv.kinds <= {'dict'}:
            I.may_raise(node, ['AttributeError'], '.get on a value that may not be a dict', (recv,))
        return Unk('%s.get(%r)' % (recv.name, ck), taint=tj(recv), src=('item', recv, key))
    raise AnalysisError('.get on %r' % (recv,))


def _mut(I, recv, node, what, extra=None):
    d = {'obj': recv, 'op': what}
    if extra:
        d.update(extra)
    I.effect('mutate', node, d)


def m_pop(I, recv, a, k, node, kind):
    if isinstance(recv, AList):
        _mut(I, recv, node, 'list.pop')
        if a:
            raise AnalysisError('list.pop(i)')
        if recv.unknown and not recv.items:
            if 'nonempty' not in getattr(recv, 'facts', ()):
                I.may_raise(node, ['IndexError'], 'pop from list of unknown length', (recv,))
            else:
                recv.facts = set(recv.facts) - {'nonempty'}
            return M.derive(recv.elem, 'pop')
        if not recv.items:
            _raise(I, node, 'IndexError', 'pop from empty list')
        return recv.items.pop()
    if isinstance(recv, ADict):
        _mut(I, recv, node, 'dict.pop', {'key': a[0]})
        key = concrete(a[0])
        if is_concrete(a[0]):
            if key in recv.items:
                return recv.items.pop(key)
            if recv.open and key not in recv.absent:
                if I.choose(2, 'has %r' % (key,)) == 0:
                    recv.absent.add(key)
                    return I.open_value(recv, key)
                recv.absent.add(key)
            if len(a) > 1:
                return a[1]
            _raise(I, node, 'KeyError', 'pop of missing key %r' % (key,))
        raise AnalysisError('dict.pop(unknown)')
    if isinstance(recv, Unk):
        _mut(I, recv, node, 'pop')
        return Unk('%s.pop' % recv.name, taint=recv.taint)
    raise AnalysisError('.pop on %r' % (recv,))


def m_items(I, recv, a, k, node, kind):
    if isinstance(recv, dict):
        recv = M.lift_shared(recv, 'dict')
    if isinstance(recv, ADict):
        pairs = [(key, v) for key, v in recv.items.items()]
        if recv.open:
            for i in range(min(2, max(I.unknown_iters) if I.unknown_iters else 1)):
                kk = Unk('%s.key%d' % (recv.name, i), kinds=['str'], taint=recv.taint | {'OPTKEY'})
                vv = Unk('%s.val%d' % (recv.name, i), kinds=recv.valkinds, taint=recv.taint | {'OPTVAL'})
                pairs.append((kk, vv))
        return ('items', pairs, recv)
    if isinstance(recv, Unk):
        pairs = []
        for i in range(2):
            pairs.append((Unk('%s.key%d' % (recv.name, i), taint=recv.taint | {'KEY'}),
                          Unk('%s.val%d' % (recv.name, i), taint=recv.taint)))
        d = ADict({}, open_=True, taint=recv.taint, name=recv.name)
        return ('items', pairs, d)
    raise AnalysisError('.items on %r' % (recv,))


def m_keys(I, recv, a, k, node, kind):
    if isinstance(recv, dict):
        return AList(sorted(recv, key=repr))
    if isinstance(recv, ADict):
        return AList(list(recv.items), elem=Unk('key', kinds=['str'], taint=recv.taint) if recv.open else None)
    return Unk('keys', taint=tj(recv))


def m_values(I, recv, a, k, node, kind):
    if isinstance(recv, ADict):
        return AList(list(recv.items.values()), elem=Unk('val', taint=recv.taint) if recv.open else None)
    return Unk('values', taint=tj(recv))


def m_copy(I, recv, a, k, node, kind):
    if isinstance(recv, dict):
        recv = M.lift_shared(recv, 'dict')
    if isinstance(recv, ADict):
        d = ADict(dict(recv.items), open_=recv.open, taint=recv.taint, name='copy(%s)' % recv.name)
        d.valkinds = recv.valkinds
        d.absent = set(recv.absent)
        d.copy_of = recv
        d.splat_of = recv if recv.open else None
        return d
    if isinstance(recv, AList):
        return AList(list(recv.items), elem=recv.elem)
    if isinstance(recv, Unk):
        return Unk('copy(%s)' % recv.name, kinds=recv.kinds, taint=recv.taint, src=('call', 'copy', [recv]))
    raise AnalysisError('.copy on %r' % (recv,))


def m_update(I, recv, a, k, node, kind):
    _mut(I, recv, node, 'dict.update', {'arg': a[0] if a else None})
    if isinstance(recv, ADict):
        if a:
            M.dict_update(I, recv, a[0], node)
        for key, v in k.items():
            recv.items[key] = v
        return None
    if isinstance(recv, Unk):
        if recv.kinds is None or not recv.kinds <= {'dict'}:
            I.may_raise(node, ['AttributeError'], '.update on a value that may not be a dict', (recv,))
        return None
    raise AnalysisError('.update on %r' % (recv,))


def m_clear(I, recv, a, k, node, kind):
    _mut(I, recv, node, 'clear')
    if isinstance(recv, ADict):
        recv.items.clear()
        recv.open = False
        recv.taint = frozenset()
    elif isinstance(recv, AList):
        recv.items[:] = []
        recv.unknown = False
    return None


def m_setdefault(I, recv, a, k, node, kind):
    _mut(I, recv, node, 'dict.setdefault', {'key': a[0]})
    if isinstance(recv, ADict) and is_concrete(a[0]):
        key = concrete(a[0])
        if key in recv.items:
            return recv.items[key]
        if recv.open and key not in recv.absent and I.choose(2, 'has') == 0:
            recv.items[key] = I.open_value(recv, key)
            return recv.items[key]
        recv.items[key] = a[1] if len(a) > 1 else None
        return recv.items[key]
    return Unk('setdefault', taint=tj(recv))


# list methods

def m_append(I, recv, a, k, node, kind):
    _mut(I, recv, node, 'list.append', {'value': a[0]})
    if isinstance(recv, AList):
        recv.items.append(a[0])
    return None


def m_extend(I, recv, a, k, node, kind):
    _mut(I, recv, node, 'list.extend')
    if isinstance(recv, AList):
        recv.items.extend(M.iterate(I, a[0], node))
    return None


def m_listmut(I, recv, a, k, node, kind):
    _mut(I, recv, node, 'list.%s' % _mname(I, node))
    if _mname(I, node) == 'sort' and isinstance(recv, AList):
        recv.sorted = True
    return None


# regex / match

def m_rmatch(I, recv, a, k, node, kind):
    mode = _mname(I, node)
    data = a[0]
    I.emit('regex-apply', node, {'regex': recv, 'mode': mode, 'data': data})
    kd = kind_of(data)
    if is_concrete(recv) and isinstance(concrete(recv), Regex):
        want = 'bytes' if isinstance(concrete(recv).pattern, bytes) else 'str'
        if kd is None or not kd <= {want}:
            if kd is not None and want not in kd:
                _raise(I, node, 'TypeError', 'pattern/data type mismatch')
            I.may_raise(node, ['TypeError'], 'regex applied to a value that may not be %s' % want, (data,))
    if is_concrete(recv) and isinstance(concrete(recv), Regex) and is_concrete(data) and isinstance(concrete(data), (bytes, str)) \
            and getattr(I, 'fold_regex_on_constants', False):
        # constant folding: a folded pattern applied to a constant chosen by the harness
        import re as _re
        rx_ = concrete(recv)
        try:
            mm = getattr(_re.compile(rx_.pattern, rx_.flags), mode)(concrete(data))
        except TypeError:
            _raise(I, node, 'TypeError', 'pattern/data type mismatch')
        if mm is None:
            return None
        from sa.harness import AMatch
        groups = {0: mm.group(0)}
        for i_, v_ in enumerate(mm.groups(), 1):
            groups[i_] = v_
        groups.update(mm.groupdict())
        return AMatch(rx_, groups, data)
    oracle = getattr(I, 'regex_oracle', None)
    if oracle is not None and is_concrete(recv) and isinstance(concrete(recv), Regex):
        r = oracle(I, concrete(recv), mode, data, node)
        if r != 'unknown':
            return r
    u = Unk('m', kinds=['Match', 'NoneType'], taint=tj(data), src=('regex', recv, mode, data))
    return u


def m_rsub(I, recv, a, k, node, kind):
    data = a[1]
    I.emit('regex-apply', node, {'regex': recv, 'mode': 'sub', 'data': data, 'repl': a[0]})
    return Unk('sub', kinds=kind_of(data), taint=tj(data, a[0]), src=('regex', recv, 'sub', data))


def m_group(I, recv, a, k, node, kind):
    g = concrete(a[0]) if a else 0
    if type(recv).__name__ == 'AMatch':
        if g not in recv.groups:
            _raise(I, node, 'IndexError', 'no such group %r' % (g,))
        return recv.groups[g]
    rx = None
    if isinstance(recv, Unk) and recv.src and recv.src[0] == 'regex':
        rx = concrete(recv.src[1])
    u = Unk('group(%r)' % (g,), taint=tj(recv), src=('method', recv, 'group', [g]))
    if isinstance(rx, Regex):
        from sa import rx as RX
        isb = isinstance(rx.pattern, bytes)
        tree = RX.parse(rx.pattern, rx.flags)
        gd = tree.state.groupdict
        ngroups = tree.state.groups - 1
        gi = g
        if isinstance(g, str):
            if g not in gd:
                _raise(I, node, 'IndexError', 'no such group %r' % g)
            gi = gd[g]
        elif isinstance(g, int) and g > ngroups:
            _raise(I, node, 'IndexError', 'no such group %r' % g)
        optional = gi != 0 and _group_optional(tree, gi)
        u.kinds = frozenset(['bytes' if isb else 'str'] + (['NoneType'] if optional else []))
        u.group_of = (rx, gi)
        if gi != 0:
            try:
                lang = RX.group_language(rx.pattern, rx.flags, gi)
                nonascii = RX.shortest(RX.intersect(lang, RX.complement(RX.sigma_star(lang.N, range(128)))))
                if nonascii is None:
                    u.facts.add('ascii-only')
                digits = RX.from_pattern(b'-?[0-9]+' if isb else '-?[0-9]+')
                if RX.included(lang, digits) is None:
                    u.facts.add('digits')
                    import re as _re
                    lo, hi = _re._parser.parse(rx.pattern, rx.flags).getwidth()
                    if RX.count_up_to(lang, 0) == 0 and _group_max_width(tree, gi) < 4000:
                        u.facts.add('bounded-digits')
                if not RX.is_empty(lang) and RX.shortest(lang) != []:
                    if not lang.accepts([]):
                        u.facts.add('nonempty-when-present')
            except AnalysisError:
                pass
    return u


def _group_max_width(tree, gi):
    from sa.rx import _opname
    import re as _re

    def walk(items):
        for op, av in items:
            opn = _opname(op)
            if opn == 'SUBPATTERN':
                if av[0] == gi:
                    return av[3].getwidth()[1]
                r = walk(av[3])
                if r is not None:
                    return r
            elif opn == 'BRANCH':
                for alt in av[1]:
                    r = walk(alt)
                    if r is not None:
                        return r
            elif opn in ('MAX_REPEAT', 'MIN_REPEAT'):
                r = walk(av[2])
                if r is not None:
                    return r
        return None
    r = walk(tree)
    return r if r is not None else 1 << 40


def _group_optional(tree, gi):
    """May group gi be unset (None) in a successful match?"""
    from sa.rx import _opname

    def walk(items, opt):
        for op, av in items:
            opn = _opname(op)
            if opn == 'SUBPATTERN':
                if av[0] == gi:
                    return opt
                r = walk(av[3], opt)
                if r is not None:
                    return r
            elif opn == 'BRANCH':
                for alt in av[1]:
                    r = walk(alt, True)
                    if r is not None:
                        return r
            elif opn in ('MAX_REPEAT', 'MIN_REPEAT'):
                r = walk(av[2], opt or av[0] == 0)
                if r is not None:
                    return r
            elif opn in ('ASSERT', 'ASSERT_NOT'):
                r = walk(av[1], opt)
                if r is not None:
                    return r
        return None
    r = walk(tree, False)
    return True if r is None else r


# streams

def m_read(I, recv, a, k, node, kind):
    n = a[0] if a else None
    I.effect('stream-read', node, {'stream': recv, 'n': n})
    if n is not None and not is_concrete(n):
        kn = kind_of(n)
        excs = []
        if kn is None or not kn <= {'int', 'bool', 'NoneType'}:
            excs.append('TypeError')
        if isinstance(n, Unk) and n.taint and not any(str(f).startswith('<') for f in n.facts):
            excs.append('OverflowError')
        if excs:
            I.may_raise(node, excs, 'read() with unvalidated size', (n,))
    u = Unk('read', kinds=['bytes'], taint=taint_of(recv) | {'INPUT'}, src=('read', recv, n))
    I.events[-1 - _find_back(I.events, 'stream-read')].data['result'] = u
    return u


def _find_back(events, kind):
    for i in range(len(events)):
        if events[-1 - i].kind == kind:
            return i
    return 0


def m_write(I, recv, a, k, node, kind):
    I.effect('stream-write', node, {'stream': recv, 'data': a[0]})
    kd = kind_of(a[0])
    if kd is None or not kd <= {'bytes'}:
        if not (isinstance(recv, AStream) and recv.internal) or True:
            I.may_raise(node, ['TypeError'], 'write of a value that may not be bytes', (a[0],))
    return Unk('nwritten', kinds=['int'])


def m_seek(I, recv, a, k, node, kind):
    I.effect('stream-seek', node, {'stream': recv, 'args': a})
    return Unk('pos', kinds=['int'])


def m_getvalue(I, recv, a, k, node, kind):
    I.emit('stream-getvalue', node, {'stream': recv})
    return Unk('getvalue', kinds=['bytes'], taint=taint_of(recv), src=('getvalue', recv))


def m_close(I, recv, a, k, node, kind):
    if isinstance(recv, AStream):
        recv.closed = True
    I.effect('stream-close', node, {'stream': recv})
    return None


def m_streamother(I, recv, a, k, node, kind):
    if _mname(I, node) in ('readline', 'read1', 'peek'):
        ev = I.effect('stream-read', node, {'stream': recv, 'n': a[0] if a else None, 'method': _mname(I, node)})
        u = Unk(_mname(I, node), kinds=['bytes'], taint=taint_of(recv) | {'INPUT'}, src=('read', recv, a[0] if a else None))
        ev.data['result'] = u
        return u
    ev = I.effect('stream-' + _mname(I, node), node, {'stream': recv, 'args': a})
    if _mname(I, node) == 'tell':
        u = Unk('tell', kinds=['int'], taint=taint_of(recv), src=('tell', recv))
        u.facts.add('>=0')
        ev.data['result'] = u
        return u
    return Unk(_mname(I, node), taint=taint_of(recv) | {'INPUT'}, kinds=['bytes'] if _mname(I, node).startswith('read') or _mname(I, node) == 'peek' else None)


class SharedSet(object):
    """Stand-in for a module/class-level set constant that is being mutated."""

    def __init__(self, values):
        self.shared = 'set constant %s' % sorted(map(str, values))


def m_set_mutate(I, recv, a, k, node, kind):
    # folded sets are module/class-level constants (or literals built from them)
    I.effect('mutate', node, {'obj': SharedSet(recv), 'op': 'set.%s' % _mname(I, node)})
    return None


def m_logger(I, recv, a, k, node, kind):
    return None


METHODS = {
    'decode': m_decode, 'encode': m_encode, 'split': m_split, 'rsplit': m_split,
    'strip': m_strip, 'lstrip': m_strip, 'rstrip': m_strip,
    'startswith': m_startswith, 'endswith': m_startswith, 'find': m_find, 'rfind': m_find, 'index': m_index,
    'join': m_join, 'format': m_format,
    'removesuffix': m_removeaffix, 'removeprefix': m_removeaffix,
    'lower': m_strsimple, 'upper': m_strsimple, 'replace': m_strsimple, 'splitlines': m_strsimple,
    'count': m_strsimple, 'isdigit': m_strsimple, 'isspace': m_strsimple, 'isalnum': m_strsimple,
    'isdecimal': m_strsimple, 'isnumeric': m_strsimple, 'isupper': m_strsimple, 'islower': m_strsimple, 'isalpha': m_strsimple,
    'isidentifier': m_strsimple, 'istitle': m_strsimple, 'capitalize': m_strsimple, 'swapcase': m_strsimple, 'title': m_strsimple, 'partition': m_strsimple,
    'rpartition': m_strsimple, 'zfill': m_strsimple, 'translate': m_strsimple, 'casefold': m_strsimple,
    'get': m_get, 'pop': m_pop, 'items': m_items, 'keys': m_keys, 'values': m_values, 'copy': m_copy,
    'update': m_update, 'clear': m_clear, 'setdefault': m_setdefault,
    'append': m_append, 'extend': m_extend, 'insert': m_listmut, 'remove': m_listmut, 'sort': m_listmut,
    'reverse': m_listmut,
    'match': m_rmatch, 'fullmatch': m_rmatch, 'search': m_rmatch, 'sub': m_rsub, 'group': m_group,
    'read': m_read, 'write': m_write, 'seek': m_seek, 'getvalue': m_getvalue, 'close': m_close,
    'readline': m_streamother, 'readlines': m_streamother, 'tell': m_streamother, 'flush': m_streamother,
    'truncate': m_streamother, 'peek': m_streamother, 'read1': m_streamother, 'readinto': m_streamother,
    'writelines': m_streamother, 'mutate': m_set_mutate, 'aset': m_aset,
}
