"""Thorough tier: sensitivity audit of one property's check (never changes the verdict).

Every self-test variant and every seeded change that names the property is applied to a scratch copy
of /repo's current HEAD tree (removed afterwards) and the property's quick check is run against it."""
import importlib.util
import json
import os
import shutil
import subprocess
import tempfile

HERE = os.path.dirname(os.path.dirname(os.path.abspath(__file__)))


def _scratch():
    tmp = tempfile.mkdtemp(prefix='audit_', dir='/tmp')
    repo = os.environ.get('VERIF_REPO', '/repo')
    if os.path.isdir(os.path.join(repo, '.git')):
        subprocess.run('git -C %s archive HEAD | tar -x -C %s' % (repo, tmp), shell=True, check=True)
    else:
        subprocess.run('cp -r %s/. %s/' % (repo, tmp), shell=True, check=True)
    return tmp


def _run(pid, tmp):
    env = dict(os.environ, VERIF_REPO=tmp, VERIF_EVIDENCE_DIR=os.path.join(tmp, '_ev'), VERIF_TIER='quick')
    if os.environ.get('VERIF_AUDIT_SUBJOBS'):
        env['VERIF_JOBS'] = os.environ['VERIF_AUDIT_SUBJOBS']      # processes each audited run may use
    env.pop('VERIF_AUDIT_BENIGN', None)
    r = subprocess.run([os.path.join(HERE, 'check'), pid, '--tier', 'quick'], capture_output=True, text=True, timeout=900, cwd=HERE, env=env)
    first = [l for l in r.stdout.splitlines() if '[' in l and not l.startswith(('VIOLATION', 'KNOWN'))][:1]
    return r.returncode, (first or [''])[0][:200]


def audit(pid):
    """Variants and seeded changes that name the property always; the behaviour-preserving refactorings (all of them,
    every one against this check) only with VERIF_AUDIT_BENIGN=1 - that part takes 10-20 minutes per property and its
    last result is kept in audit/<id>.json."""
    from concurrent.futures import ThreadPoolExecutor
    workers = int(os.environ.get('VERIF_AUDIT_JOBS', '4'))
    out = {'variants': [], 'seeds': [], 'summary': {}}
    spec = importlib.util.spec_from_file_location('selftest', os.path.join(HERE, 'tools', 'selftest.py'))
    st = importlib.util.module_from_spec(spec)
    spec.loader.exec_module(st)

    def one_variant(var):
        tmp = _scratch()
        try:
            p = os.path.join(tmp, var['file'])
            s = open(p).read()
            ok_edit = True
            for old, new in var['edits']:
                if old not in s:
                    ok_edit = False
                s = s.replace(old, new)
            if not ok_edit:
                return {'name': var['name'], 'kind': var['kind'], 'result': 'edit anchor not found'}
            open(p, 'w').write(s)
            rc, first = _run(pid, tmp)
            return {'name': var['name'], 'kind': var['kind'], 'exit': rc, 'report': first,
                    'as_expected': (rc == 1) if var['kind'] == 'break' and var['checks'][0] == pid else
                    ((rc == 0) if var['kind'] == 'benign' else None)}
        finally:
            shutil.rmtree(tmp, ignore_errors=True)

    def one_patch(base, name, key):
        patch = os.path.join(base, name, 'patch.diff')
        tmp = _scratch()
        try:
            subprocess.run(['git', 'init', '-q'], cwd=tmp)
            if subprocess.run(['git', 'apply', patch], cwd=tmp, capture_output=True).returncode:
                return {key: name, 'result': 'patch does not apply to the current tree'}
            rc, first = _run(pid, tmp)
            return {key: name, 'exit': rc, 'report': first}
        finally:
            shutil.rmtree(tmp, ignore_errors=True)
    sd = os.path.join(HERE, 'seeded')
    seeds = [n for n in (sorted(os.listdir(sd)) if os.path.isdir(sd) else []) if n.startswith(pid + '-')]
    bd = os.path.join(HERE, 'benign')
    benign = sorted(os.listdir(bd)) if os.path.isdir(bd) and os.environ.get('VERIF_AUDIT_BENIGN') else []
    with ThreadPoolExecutor(max_workers=workers) as ex:
        fv = [ex.submit(one_variant, var) for var in st.V if pid in var['checks']]
        fs = [ex.submit(one_patch, sd, n, 'seed') for n in seeds]
        fb = [ex.submit(one_patch, bd, n, 'patch') for n in benign]
        out['variants'] = [f.result() for f in fv]
        out['seeds'] = [f.result() for f in fs]
        out['benign_refactorings'] = [f.result() for f in fb]
    if not benign:
        kept = os.path.join(HERE, 'audit', '%s.json' % pid)
        out['benign_refactorings_note'] = ('not re-run in this invocation (set VERIF_AUDIT_BENIGN=1); last full result: audit/%s.json' % pid
                                           if os.path.exists(kept) else 'not run (set VERIF_AUDIT_BENIGN=1)')
    br = [v for v in out['variants'] if v.get('kind') == 'break' and 'exit' in v]
    bn = [v for v in out['variants'] if v.get('kind') == 'benign' and 'exit' in v]
    out['summary'] = {'breaking_variants': len(br), 'breaking_detected': sum(1 for v in br if v['exit'] == 1),
                      'benign_variants': len(bn), 'benign_silent': sum(1 for v in bn if v['exit'] == 0),
                      'seeded_changes': len([s_ for s_ in out['seeds'] if 'exit' in s_]),
                      'seeded_detected': sum(1 for s_ in out['seeds'] if s_.get('exit') == 1),
                      'benign_refactorings': len([b for b in out['benign_refactorings'] if 'exit' in b]),
                      'benign_refactorings_silent': sum(1 for b in out['benign_refactorings'] if b.get('exit') == 0),
                      'benign_refactorings_false_alarm': sum(1 for b in out['benign_refactorings'] if b.get('exit') == 1),
                      'benign_refactorings_not_analysable': sum(1 for b in out['benign_refactorings'] if b.get('exit') == 2)}
    if benign:
        os.makedirs(os.path.join(HERE, 'audit'), exist_ok=True)
        with open(os.path.join(HERE, 'audit', '%s.json' % pid), 'w') as fh:
            json.dump({'property': pid, 'what': 'quick check of this property run against every seeded change naming it, every self-test '
                       'variant naming it and every behaviour-preserving refactoring, each applied to a scratch copy of /repo HEAD',
                       'summary': out['summary'], 'seeds': out['seeds'], 'variants': out['variants'],
                       'benign_refactorings': out['benign_refactorings']}, fh, indent=1)
    return out
