"""Thorough tier: sensitivity audit of one property's check (never changes the verdict).

Every self-test variant and every seeded change that names the property is applied to a scratch copy
of /repo's current HEAD tree (removed afterwards) and the property's quick check is run against it."""
import importlib.util
import json
import os
import shutil
import subprocess
import tempfile

HERE = os.path.dirname(os.path.dirname(os.path.abspath(__file__)))


def _scratch():
    tmp = tempfile.mkdtemp(prefix='audit_', dir='/tmp')
    repo = os.environ.get('VERIF_REPO', '/repo')
    if os.path.isdir(os.path.join(repo, '.git')):
        subprocess.run('git -C %s archive HEAD | tar -x -C %s' % (repo, tmp), shell=True, check=True)
    else:
        subprocess.run('cp -r %s/. %s/' % (repo, tmp), shell=True, check=True)
    return tmp


def _run(pid, tmp):
    env = dict(os.environ, VERIF_REPO=tmp, VERIF_EVIDENCE_DIR=os.path.join(tmp, '_ev'), VERIF_TIER='quick')
    r = subprocess.run([os.path.join(HERE, 'check'), pid, '--tier', 'quick'], capture_output=True, text=True, timeout=900, cwd=HERE, env=env)
    first = [l for l in r.stdout.splitlines() if '[' in l and not l.startswith(('VIOLATION', 'KNOWN'))][:1]
    return r.returncode, (first or [''])[0][:200]


def audit(pid):
    out = {'variants': [], 'seeds': [], 'summary': {}}
    spec = importlib.util.spec_from_file_location('selftest', os.path.join(HERE, 'tools', 'selftest.py'))
    st = importlib.util.module_from_spec(spec)
    spec.loader.exec_module(st)
    for var in st.V:
        if pid not in var['checks']:
            continue
        tmp = _scratch()
        try:
            p = os.path.join(tmp, var['file'])
            s = open(p).read()
            ok_edit = True
            for old, new in var['edits']:
                if old not in s:
                    ok_edit = False
                s = s.replace(old, new)
            if not ok_edit:
                out['variants'].append({'name': var['name'], 'kind': var['kind'], 'result': 'edit anchor not found'})
                continue
            open(p, 'w').write(s)
            rc, first = _run(pid, tmp)
            out['variants'].append({'name': var['name'], 'kind': var['kind'], 'exit': rc, 'report': first,
                                    'as_expected': (rc == 1) if var['kind'] == 'break' and var['checks'][0] == pid else
                                    ((rc == 0) if var['kind'] == 'benign' else None)})
        finally:
            shutil.rmtree(tmp, ignore_errors=True)
    sd = os.path.join(HERE, 'seeded')
    for name in sorted(os.listdir(sd)) if os.path.isdir(sd) else []:
        if not name.startswith(pid + '-'):
            continue
        patch = os.path.join(sd, name, 'patch.diff')
        tmp = _scratch()
        try:
            subprocess.run(['git', 'init', '-q'], cwd=tmp)
            if subprocess.run(['git', 'apply', patch], cwd=tmp, capture_output=True).returncode:
                out['seeds'].append({'seed': name, 'result': 'patch does not apply to the current tree'})
                continue
            rc, first = _run(pid, tmp)
            out['seeds'].append({'seed': name, 'exit': rc, 'report': first})
        finally:
            shutil.rmtree(tmp, ignore_errors=True)
    # behaviour-preserving refactorings: the check must stay silent (run a few at a time)
    bd = os.path.join(HERE, 'benign')
    names = sorted(os.listdir(bd)) if os.path.isdir(bd) else []

    def one(name):
        patch = os.path.join(bd, name, 'patch.diff')
        tmp = _scratch()
        try:
            subprocess.run(['git', 'init', '-q'], cwd=tmp)
            if subprocess.run(['git', 'apply', patch], cwd=tmp, capture_output=True).returncode:
                return {'patch': name, 'result': 'patch does not apply to the current tree'}
            rc, first = _run(pid, tmp)
            return {'patch': name, 'exit': rc, 'report': first}
        finally:
            shutil.rmtree(tmp, ignore_errors=True)
    from concurrent.futures import ThreadPoolExecutor
    with ThreadPoolExecutor(max_workers=4) as ex:
        out['benign_refactorings'] = list(ex.map(one, names))
    br = [v for v in out['variants'] if v.get('kind') == 'break' and 'exit' in v]
    bn = [v for v in out['variants'] if v.get('kind') == 'benign' and 'exit' in v]
    out['summary'] = {'breaking_variants': len(br), 'breaking_detected': sum(1 for v in br if v['exit'] == 1),
                      'benign_variants': len(bn), 'benign_silent': sum(1 for v in bn if v['exit'] == 0),
                      'seeded_changes': len([s_ for s_ in out['seeds'] if 'exit' in s_]),
                      'seeded_detected': sum(1 for s_ in out['seeds'] if s_.get('exit') == 1),
                      'benign_refactorings': len([b for b in out['benign_refactorings'] if 'exit' in b]),
                      'benign_refactorings_silent': sum(1 for b in out['benign_refactorings'] if b.get('exit') == 0),
                      'benign_refactorings_false_alarm': sum(1 for b in out['benign_refactorings'] if b.get('exit') == 1),
                      'benign_refactorings_not_analysable': sum(1 for b in out['benign_refactorings'] if b.get('exit') == 2)}
    return out
