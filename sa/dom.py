"""Harness for the object model (dom/objects.py) under the abstract interpreter."""
from sa.model import AnalysisError, ClassInfo, Unfoldable
from sa.interp import Interp, Frame
from sa.values import ADict, AList, AObj, Unk

SECTION_CLASSES = ('DiffX', 'DiffXChangeSection', 'DiffXFileSection', 'DiffXPreambleSection',
                   'DiffXMetaSection', 'DiffXFileDiffSection')


class DomRoles(object):
    def __init__(self, P):
        self.P = P
        self.mod = 'pydiffx.dom.objects'
        self.diffx = P.cls(self.mod, 'DiffX')
        self.classes = {}
        for n in SECTION_CLASSES:
            self.classes[n] = P.cls(self.mod, n)
        self.base = P.cls(self.mod, 'BaseDiffXSection')
        self.option_property = P.cls('pydiffx.dom.properties', 'OptionProperty')

    def build_tree(self, I):
        """DiffX() with one change holding one file; returns dict name -> object."""
        D = self.diffx
        I.frames = [Frame(D.find_method('__init__'))]
        d = I.instantiate(D, [], {}, None)
        add_change = D.find_method('add_change')
        if add_change is None:
            raise AnalysisError('DiffX.add_change not found (anchor vanished)')
        ch = I.call_function(add_change, [d], {}, None, self_cls=D)
        add_file = ch.cls.find_method('add_file')
        if add_file is None:
            raise AnalysisError('add_file not found (anchor vanished)')
        f = I.call_function(add_file, [ch], {}, None, self_cls=ch.cls)
        I.frames = [Frame(D.find_method('__init__'))]
        objs = {'DiffX': d, 'DiffXChangeSection': ch, 'DiffXFileSection': f}
        for holder in (d, ch, f):
            for k, v in holder.attrs.items():
                if isinstance(v, AObj) and v.cls.name in SECTION_CLASSES:
                    objs.setdefault(v.cls.name, v)
        return objs

    def settable_names(self, cls):
        """Attribute names with a descriptor or property setter in the MRO."""
        out = []
        seen = set()
        for c in cls.repo_mro():
            for n, expr in c.attrs.items():
                if n in seen or n.startswith('__'):
                    continue
                seen.add(n)
                try:
                    v = self.P.fold(expr, c.module, c)
                except Unfoldable:
                    v = None
                import ast
                if isinstance(expr, ast.Call):
                    ref = self.P.resolve_expr_ref(c.module, expr.func, c) if isinstance(expr.func, (ast.Name, ast.Attribute)) else None
                    if isinstance(ref, ClassInfo) and ref.find_method('__set__') is not None:
                        out.append((n, 'descriptor', ref))
            for n, pr in c.props.items():
                if n in seen:
                    continue
                seen.add(n)
                if 'set' in pr:
                    out.append((n, 'property', None))
        return out


def all_objects(root, depth=0, acc=None):
    acc = acc if acc is not None else []
    if isinstance(root, AObj) and root not in acc:
        acc.append(root)
        for v in root.attrs.values():
            all_objects(v, depth + 1, acc)
    elif isinstance(root, AList):
        for v in root.items:
            all_objects(v, depth + 1, acc)
    return acc
