"""Harness for the object model (dom/objects.py) under the abstract interpreter."""
from sa.model import AnalysisError, ClassInfo, Unfoldable
from sa.interp import Interp, Frame
from sa.values import ADict, AList, AObj, Unk

SECTION_CLASSES = ('DiffX', 'DiffXChangeSection', 'DiffXFileSection', 'DiffXPreambleSection',
                   'DiffXMetaSection', 'DiffXFileDiffSection')


class DomRoles(object):
    def __init__(self, P):
        self.P = P
        self.mod = 'pydiffx.dom.objects'
        self.diffx = P.cls(self.mod, 'DiffX')
        self.classes = {}
        for n in SECTION_CLASSES:
            self.classes[n] = P.cls(self.mod, n)
        self.base = P.cls(self.mod, 'BaseDiffXSection')
        self.option_property = P.cls('pydiffx.dom.properties', 'OptionProperty')

    def build_tree(self, I):
        """DiffX() with one change holding one file; returns dict name -> object."""
        D = self.diffx
        I.frames = [Frame(D.find_method('__init__'))]
        d = I.instantiate(D, [], {}, None)
        add_change = D.find_method('add_change')
        if add_change is None:
            raise AnalysisError('DiffX.add_change not found (anchor vanished)')
        ch = I.call_function(add_change, [d], {}, None, self_cls=D)
        add_file = ch.cls.find_method('add_file')
        if add_file is None:
            raise AnalysisError('add_file not found (anchor vanished)')
        f = I.call_function(add_file, [ch], {}, None, self_cls=ch.cls)
        I.frames = [Frame(D.find_method('__init__'))]
        objs = {'DiffX': d, 'DiffXChangeSection': ch, 'DiffXFileSection': f}
        for holder in (d, ch, f):
            for k, v in holder.attrs.items():
                if isinstance(v, AObj) and v.cls.name in SECTION_CLASSES:
                    objs.setdefault(v.cls.name, v)
        return objs

    def content_slot(self):
        """Name of the instance attribute that backs the ``content`` property of the content sections (read off the
        property's getter: ``return self.<slot>``), whatever it is called."""
        if getattr(self, '_content_slot', None) is None:
            import ast as _ast
            found = set()
            for n in SECTION_CLASSES:
                for c in self.classes[n].repo_mro():
                    pr = c.props.get('content')
                    if pr and pr.get('get') is not None:
                        g = pr['get']
                        me = g.params()[0] if g.params() else 'self'
                        local = {}
                        for x in _ast.walk(g.node):
                            if isinstance(x, _ast.Assign) and len(x.targets) == 1 and isinstance(x.targets[0], _ast.Name):
                                local[x.targets[0].id] = x.value
                        for x in _ast.walk(g.node):
                            if isinstance(x, _ast.Return) and x.value is not None:
                                v_ = local.get(x.value.id, x.value) if isinstance(x.value, _ast.Name) else x.value
                                if isinstance(v_, _ast.Attribute) and isinstance(v_.value, _ast.Name) and v_.value.id == me:
                                    found.add(v_.attr)
            if len(found) != 1:
                raise AnalysisError('backing attribute of the content property not identified (candidates %s)' % sorted(found))
            self._content_slot = found.pop()
        return self._content_slot

    def settable_names(self, cls):
        """Attribute names with a descriptor or property setter in the MRO."""
        out = []
        seen = set()
        for c in cls.repo_mro():
            for n, expr in c.attrs.items():
                if n in seen or n.startswith('__'):
                    continue
                seen.add(n)
                try:
                    v = self.P.fold(expr, c.module, c)
                except Unfoldable:
                    v = None
                import ast
                if isinstance(expr, ast.Call):
                    ref = self.P.resolve_expr_ref(c.module, expr.func, c) if isinstance(expr.func, (ast.Name, ast.Attribute)) else None
                    if isinstance(ref, ClassInfo) and ref.find_method('__set__') is not None:
                        out.append((n, 'descriptor', ref))
            for n, pr in c.props.items():
                if n in seen:
                    continue
                seen.add(n)
                if 'set' in pr:
                    out.append((n, 'property', None))
        return out


def all_objects(root, depth=0, acc=None):
    acc = acc if acc is not None else []
    if isinstance(root, AObj) and root not in acc:
        acc.append(root)
        for v in root.attrs.values():
            all_objects(v, depth + 1, acc)
    elif isinstance(root, AList):
        for v in root.items:
            all_objects(v, depth + 1, acc)
    return acc


# -- abstract reader records for the DOM reader ---------------------------------------

FULL_SEQUENCE = [('diffx', True), ('.preamble', False), ('.meta', False), ('.change', True), ('..preamble', True),
                 ('..meta', False), ('..file', False), ('...meta', False), ('...diff', True), ('..file', True),
                 ('...meta', False), ('.change', False), ('..file', False), ('...meta', False), ('...diff', False)]


def capture_record_shapes(P, seq=None):
    """Run the streaming reader abstractly (K1 stubs) and describe the records it yields."""
    from sa.roles import ReaderRoles
    from sa import k1
    R = ReaderRoles(P)
    table = P.fold_module_const('pydiffx.sections', 'VALID_SECTION_STATES')
    K = k1.ReaderK1(P, R, table)
    K.capture_templates()
    seq = seq or FULL_SEQUENCE
    res = K.run_sequence(list(seq))
    recs = list(K.last_records)
    if len(recs) < len(seq):
        raise AnalysisError('reader yields %d records for %d sections' % (len(recs), len(seq)))
    recs = recs[-len(seq):]
    shapes = []
    for (sid, dec), r in zip(seq, recs):
        if not isinstance(r, ADict):
            raise AnalysisError('reader yields a non-dict record')
        shape = {}
        for k, v in r.items.items():
            if isinstance(v, ADict):
                shape[k] = ('options', sorted(v.items))
            elif isinstance(v, Unk):
                shape[k] = ('unk', sorted(v.kinds) if v.kinds is not None else None)
            else:
                shape[k] = ('const', v)
        shapes.append((sid, shape))
    return shapes


def materialise_record(sid, shape, open_options=True, index=0):
    rec = ADict({}, name='record%d' % index)
    for k, d in shape.items():
        if d[0] == 'const':
            rec.items[k] = d[1]
        elif d[0] == 'unk':
            kinds = d[1]
            if kinds is not None and set(kinds) == {'bytes', 'str'}:
                pass
            u = Unk('%s:%s' % (sid, k), kinds=kinds, taint=['INPUT'])
            if k == 'metadata':
                u.kinds = frozenset(['dict', 'list', 'str', 'int', 'float', 'bool', 'NoneType'])
                u.taint = frozenset(['INPUT', 'JSON'])
            rec.items[k] = u
        elif d[0] == 'options':
            o = ADict({}, open_=open_options, taint=['INPUT', 'OPTKEY', 'OPTVAL'], name='options%d' % index)
            o.valkinds = frozenset(['str', 'int'])
            for key in d[1]:
                if key == 'length':
                    if sid in ('diffx', '.change', '..file'):
                        continue
                    o.items[key] = Unk('length', kinds=['int'], taint=['INPUT'])
                elif key == 'version':
                    o.items[key] = '1.0'
            rec.items[k] = o
    return rec


class DomReaderHarness(object):
    """Runs DiffXDOMReader.parse on abstract records (the streaming reader is
    replaced by a stub that yields records of the captured shape)."""

    def __init__(self, P, shapes=None, open_options=False):
        self.P = P
        self.D = DomRoles(P)
        self.shapes = shapes or capture_record_shapes(P)
        self.open_options = open_options
        self.rcls = P.cls('pydiffx.dom.reader', 'DiffXDOMReader')
        self.sr = P.cls('pydiffx.reader', 'DiffXReader')
        self.parse = self.rcls.find_method('parse')
        if self.parse is None:
            raise AnalysisError('DiffXDOMReader.parse not found (anchor vanished)')

    def install(self, I, shapes=None):
        it = self.sr.find_method('iter_sections')
        shapes = shapes or self.shapes

        def stub(I_, fi, args, kwargs, node):
            oi = getattr(self, 'open_ids', None)
            recs = [materialise_record(sid, shape, self.open_options and (oi is None or sid in oi), i) for i, (sid, shape) in enumerate(shapes)]
            hook = getattr(self, 'record_hook', None)
            if hook is not None:
                for i, ((sid, shape), rec) in enumerate(zip(shapes, recs)):
                    hook(i, sid, rec)
            I_.emit('dom-records', node, {'records': recs})
            return AList(recs)
        I.stubs[it.qualname] = stub

    def new_reader(self, I):
        I.frames = [Frame(self.parse)]
        return I.instantiate(self.rcls, [self.D.diffx], {}, None)

    def run_parse(self, I, reader, name='in'):
        from sa.values import AStream
        stream = AStream(name)
        I.frames = []
        tree = I.call_function(self.parse, [reader, stream], {}, None, self_cls=self.rcls)
        return tree, stream


def containers(root):
    """All mutable containers (ADict/AList) reachable from a tree, with a path description."""
    out = {}

    def walk(v, path, depth):
        if depth > 8:
            return
        if isinstance(v, AObj):
            if id(v) in out:
                return
            out[id(v)] = (v, path)
            for k, x in v.attrs.items():
                walk(x, '%s.%s' % (path, k), depth + 1)
        elif isinstance(v, ADict):
            if id(v) in out:
                return
            out[id(v)] = (v, path)
            for k, x in v.items.items():
                walk(x, '%s[%r]' % (path, k), depth + 1)
        elif isinstance(v, AList):
            if id(v) in out:
                return
            out[id(v)] = (v, path)
            for i, x in enumerate(v.items):
                walk(x, '%s[%d]' % (path, i), depth + 1)
    walk(root, 'tree', 0)
    return out
