"""E4 - regular-language engine.

``re._parser`` AST -> epsilon-NFA -> total DFA over the byte alphabet (or, for
``str`` patterns, the 256 latin-1 code points plus one symbol standing for
every other character).  Offers boolean operations, concatenation, star,
inclusion / equivalence with shortest witnesses.  No pattern is ever *run*
against data; automata are only compared with each other.
"""
import collections
import re

from sa.model import AnalysisError

P = re._parser
C = re._constants
MAXREPEAT = C.MAXREPEAT


class Unsupported(AnalysisError):
    pass


def _opname(op):
    return str(op).split('.')[-1]


_CAT_CACHE = {}


def category_set(cat, is_bytes, N):
    """Set of alphabet symbols in a regex category (\\s, \\d, \\w and negations).

    For str patterns the classification of the latin-1 code points is taken
    from the stdlib's own tables (``str.isspace`` etc. as used by sre); the
    extra symbol N-1 ("any other character") is put in the negated classes.
    """
    name = _opname(cat)
    key = (name, is_bytes, N)
    if key in _CAT_CACHE:
        return _CAT_CACHE[key]
    base = name.replace('NOT_', '').replace('CATEGORY_', '').replace('UNI_', '').replace('LOC_', '')
    if is_bytes:
        tbl = {
            'SPACE': frozenset(b' \t\n\r\f\v'),
            'DIGIT': frozenset(b'0123456789'),
            'WORD': frozenset(b'abcdefghijklmnopqrstuvwxyzABCDEFGHIJKLMNOPQRSTUVWXYZ0123456789_'),
            'LINEBREAK': frozenset(b'\n'),
        }
        if base not in tbl:
            raise Unsupported('regex category %s' % name)
        s = tbl[base]
    else:
        tests = {
            'SPACE': lambda ch: ch.isspace(),
            'DIGIT': lambda ch: ch.isdecimal(),
            'WORD': lambda ch: ch.isalnum() or ch == '_',
            'LINEBREAK': lambda ch: ch == '\n',
        }
        if base not in tests:
            raise Unsupported('regex category %s' % name)
        s = frozenset(i for i in range(256) if tests[base](chr(i)))
    if 'NOT_' in name:
        s = frozenset(range(N)) - s
    _CAT_CACHE[key] = s
    return s


class NFA(object):
    def __init__(self, N):
        self.N = N
        self.eps = collections.defaultdict(set)
        self.tr = collections.defaultdict(list)   # state -> [(frozenset symbols, target)]
        self.n = 0
        self.locked_final = None   # accepting, reached through an end anchor
        self.ml_final = None       # multiline '$' in match mode

    def new(self):
        self.n += 1
        return self.n - 1

    def add(self, a, syms, b):
        self.tr[a].append((frozenset(syms), b))

    def closure(self, S):
        st = list(S)
        seen = set(S)
        while st:
            s = st.pop()
            for t in self.eps.get(s, ()):
                if t not in seen:
                    seen.add(t)
                    st.append(t)
        return frozenset(seen)


class DFA(object):
    """Total DFA. trans[s] is a list of N target states."""

    def __init__(self, N, trans, start, accept):
        self.N = N
        self.trans = trans
        self.start = start
        self.accept = frozenset(accept)

    @property
    def n_states(self):
        return len(self.trans)

    def accepts(self, seq):
        """Membership of a symbol sequence (used only on witnesses computed
        by this module, e.g. to attribute a witness to one side)."""
        s = self.start
        for b in seq:
            s = self.trans[s][b if b < self.N else self.N - 1]
        return s in self.accept


def determinise(nfa, start, finals):
    N = nfa.N
    s0 = nfa.closure({start})
    ids = {s0: 0}
    order = [s0]
    trans = []
    accept = set()
    i = 0
    finals = set(finals)
    while i < len(order):
        S = order[i]
        bymap = collections.defaultdict(set)
        for s in S:
            for cs, t in nfa.tr.get(s, ()):
                for b in cs:
                    bymap[b].add(t)
        row = [None] * N
        cache = {}
        for b, T in bymap.items():
            T = frozenset(T)
            if T not in cache:
                U = nfa.closure(T)
                if U not in ids:
                    ids[U] = len(order)
                    order.append(U)
                cache[T] = ids[U]
            row[b] = cache[T]
        trans.append(row)
        if S & finals:
            accept.add(i)
        i += 1
    # totalise
    dead = len(trans)
    need_dead = False
    for row in trans:
        for b in range(N):
            if row[b] is None:
                row[b] = dead
                need_dead = True
    if need_dead:
        trans.append([dead] * N)
    return minimise(DFA(N, trans, 0, accept))


def minimise(d):
    """Moore partition refinement; also drops unreachable states."""
    N = d.N
    # reachable
    reach = [d.start]
    seen = {d.start}
    for s in reach:
        for t in d.trans[s]:
            if t not in seen:
                seen.add(t)
                reach.append(t)
    part = {s: (1 if s in d.accept else 0) for s in reach}
    while True:
        sig = {}
        newpart = {}
        for s in reach:
            key = (part[s], tuple(part[t] for t in d.trans[s]))
            if key not in sig:
                sig[key] = len(sig)
            newpart[s] = sig[key]
        if len(sig) == len(set(part.values())):
            part = newpart
            break
        part = newpart
    nstates = len(set(part.values()))
    trans = [None] * nstates
    accept = set()
    for s in reach:
        p = part[s]
        if trans[p] is None:
            trans[p] = [part[t] for t in d.trans[s]]
        if s in d.accept:
            accept.add(p)
    return DFA(N, trans, part[d.start], accept)


class Builder(object):
    def __init__(self, is_bytes, flags, N, hooks=None, mode='full', asserts='error'):
        self.asserts = asserts      # 'error' | 'over' (treat look-arounds as true: superset language)
        self.is_bytes = is_bytes
        self.flags = flags
        self.N = N
        self.hooks = hooks or {}
        self.mode = mode
        self.nfa = NFA(N)
        self.ALL = frozenset(range(N))
        self.nfa.locked_final = self.nfa.new()
        if flags & re.IGNORECASE:
            raise Unsupported('IGNORECASE patterns')

    def any_set(self):
        if self.flags & re.DOTALL:
            return self.ALL
        return self.ALL - {10}

    def in_set(self, av):
        s = set()
        neg = False
        for o2, a2 in av:
            n2 = _opname(o2)
            if n2 == 'NEGATE':
                neg = True
            elif n2 == 'LITERAL':
                s.add(a2 if a2 < self.N - (0 if self.is_bytes else 1) else self.N - 1)
            elif n2 == 'RANGE':
                lo, hi = a2
                for x in range(lo, min(hi, 255) + 1):
                    s.add(x)
                if hi > 255 and not self.is_bytes:
                    s.add(self.N - 1)
            elif n2 == 'CATEGORY':
                s |= category_set(a2, self.is_bytes, self.N)
            else:
                raise Unsupported('set item %s' % n2)
        s = frozenset(s)
        if neg:
            s = self.ALL - s
        return s

    def sym(self, code):
        if code > 255:
            if self.is_bytes:
                raise Unsupported('literal > 255 in bytes pattern')
            return self.N - 1
        return code

    def build(self, items, cur, tail, top=False):
        """Build ``items`` from state ``cur``; ``tail`` is True when nothing
        consuming can follow these items in the whole pattern."""
        nfa = self.nfa
        items = list(items)
        for idx, (op, av) in enumerate(items):
            opn = _opname(op)
            rest_zero = tail and all(_zero_width(o, a) for o, a in items[idx + 1:])
            if opn == 'LITERAL':
                nxt = nfa.new()
                nfa.add(cur, [self.sym(av)], nxt)
                cur = nxt
            elif opn == 'NOT_LITERAL':
                nxt = nfa.new()
                nfa.add(cur, self.ALL - {self.sym(av)}, nxt)
                cur = nxt
            elif opn == 'ANY':
                nxt = nfa.new()
                nfa.add(cur, self.any_set(), nxt)
                cur = nxt
            elif opn == 'IN':
                nxt = nfa.new()
                nfa.add(cur, self.in_set(av), nxt)
                cur = nxt
            elif opn == 'SUBPATTERN':
                group, add_flags, del_flags, sub = av
                if add_flags or del_flags:
                    raise Unsupported('inline flags')
                if group in self.hooks:
                    subd = sub_dfa(sub, self.is_bytes, self.flags, self.N)
                    subd = self.hooks[group](subd)
                    cur = self.embed(subd, cur)
                else:
                    cur = self.build(sub, cur, rest_zero)
            elif opn == 'BRANCH':
                end = nfa.new()
                for alt in av[1]:
                    s0 = nfa.new()
                    nfa.eps[cur].add(s0)
                    e = self.build(alt, s0, rest_zero)
                    nfa.eps[e].add(end)
                cur = end
            elif opn in ('MAX_REPEAT', 'MIN_REPEAT', 'POSSESSIVE_REPEAT'):
                if opn == 'POSSESSIVE_REPEAT':
                    raise Unsupported('possessive repeat')
                lo, hi, sub = av
                if lo > 64 or (hi != MAXREPEAT and hi > 64):
                    raise Unsupported('repeat count too large for automaton')
                only_once = rest_zero and hi == 1
                for _ in range(lo):
                    cur = self.build(sub, cur, False)
                if hi == MAXREPEAT:
                    s0 = nfa.new()
                    nfa.eps[cur].add(s0)
                    e = self.build(sub, s0, False)
                    nfa.eps[e].add(s0)
                    cur = s0
                else:
                    end = nfa.new()
                    nfa.eps[cur].add(end)
                    for k in range(hi - lo):
                        cur = self.build(sub, cur, only_once and lo == 0)
                        nfa.eps[cur].add(end)
                    cur = end
            elif opn == 'AT':
                an = _opname(av)
                if an in ('AT_BEGINNING', 'AT_BEGINNING_STRING'):
                    if not (top and idx == 0):
                        raise Unsupported('^ not at pattern start')
                elif an in ('AT_END', 'AT_END_STRING'):
                    if not rest_zero:
                        raise Unsupported('$ not in tail position')
                    if an == 'AT_END_STRING' or self.mode == 'full':
                        # \Z, or any '$' under fullmatch (the match must span
                        # the whole string): true end of string only.
                        nfa.eps[cur].add(nfa.locked_final)
                    elif self.flags & re.MULTILINE:
                        # match mode: end of string, or a newline follows (then anything)
                        if nfa.ml_final is None:
                            nfa.ml_final = nfa.new()
                            loop = nfa.new()
                            nfa.add(nfa.ml_final, [10], loop)
                            nfa.add(loop, self.ALL, loop)
                            nfa.eps[loop].add(nfa.locked_final)
                            nfa.eps[nfa.ml_final].add(nfa.locked_final)
                        nfa.eps[cur].add(nfa.ml_final)
                    else:
                        nfa.eps[cur].add(nfa.locked_final)
                        nfa.add(cur, [10], nfa.locked_final)
                    cur = nfa.new()   # nothing may follow: dead continuation
                elif an in ('AT_BOUNDARY', 'AT_NON_BOUNDARY') and self.asserts == 'over':
                    self.used_over = True      # a zero-width condition, taken as true: superset language
                else:
                    raise Unsupported('anchor %s' % an)
            elif opn in ('ASSERT', 'ASSERT_NOT') and self.asserts == 'over':
                self.used_over = True
            else:
                raise Unsupported('regex construct %s' % opn)
        return cur

    def embed(self, d, cur):
        nfa = self.nfa
        base = {}
        for s in range(d.n_states):
            base[s] = nfa.new()
        end = nfa.new()
        nfa.eps[cur].add(base[d.start])
        for s in range(d.n_states):
            by = collections.defaultdict(set)
            for b, t in enumerate(d.trans[s]):
                by[t].add(b)
            for t, syms in by.items():
                nfa.add(base[s], syms, base[t])
            if s in d.accept:
                nfa.eps[base[s]].add(end)
        return end


def _zero_width(op, av):
    opn = _opname(op)
    if opn == 'AT':
        return True
    if opn == 'SUBPATTERN':
        return all(_zero_width(o, a) for o, a in av[3])
    if opn in ('ASSERT', 'ASSERT_NOT'):
        return True
    return False


def parse(pattern, flags=0):
    try:
        return P.parse(pattern, flags)
    except re.error as e:
        raise AnalysisError('pattern %r does not parse: %s' % (pattern, e))


def sub_dfa(items, is_bytes, flags, N, asserts='error', tail=False):
    b = Builder(is_bytes, flags, N, asserts=asserts)
    s = b.nfa.new()
    e = b.build(items, s, tail)
    d = determinise(b.nfa, s, {e, b.nfa.locked_final} if tail else {e})
    d.over_approximated = getattr(b, 'used_over', False)
    return d


def from_pattern(pattern, flags=0, mode='full', hooks=None):
    """DFA of the set of whole strings accepted by ``re.fullmatch`` (mode
    'full') or ``re.match`` (mode 'match': some prefix matches) of pattern."""
    is_bytes = isinstance(pattern, bytes)
    N = 256 if is_bytes else 257
    tree = parse(pattern, flags)
    flags = tree.state.flags | flags
    b = Builder(is_bytes, flags, N, hooks=hooks, mode=mode)
    s = b.nfa.new()
    e = b.build(tree, s, True, top=True)
    finals = {e, b.nfa.locked_final}
    if mode == 'match':
        loop = b.nfa.new()
        b.nfa.eps[e].add(loop)
        b.nfa.add(loop, b.ALL, loop)
        finals.add(loop)
    elif mode != 'full':
        raise ValueError(mode)
    return determinise(b.nfa, s, finals)


def group_index(pattern, flags, name):
    tree = parse(pattern, flags)
    gd = tree.state.groupdict
    if name not in gd:
        return None
    return gd[name]


def group_language(pattern, flags, group, asserts='error'):
    """DFA of the sub-pattern of a (named or numbered) group, taken alone."""
    is_bytes = isinstance(pattern, bytes)
    N = 256 if is_bytes else 257
    tree = parse(pattern, flags)
    if isinstance(group, str):
        group = tree.state.groupdict.get(group)
    found = []

    def walk(items):
        for op, av in items:
            opn = _opname(op)
            if opn == 'SUBPATTERN':
                if av[0] == group:
                    found.append(av[3])
                walk(av[3])
            elif opn == 'BRANCH':
                for alt in av[1]:
                    walk(alt)
            elif opn in ('MAX_REPEAT', 'MIN_REPEAT'):
                walk(av[2])
            elif opn in ('ASSERT', 'ASSERT_NOT'):
                walk(av[1])
    walk(tree)
    if len(found) != 1:
        raise AnalysisError('group %r not found exactly once in %r' % (group, pattern))
    return sub_dfa(found[0], is_bytes, tree.state.flags | flags, N, asserts=asserts, tail=(asserts == 'over'))


# -- constructors -----------------------------------------------------------

def _mk(N, build):
    nfa = NFA(N)
    s = nfa.new()
    e = build(nfa, s)
    return determinise(nfa, s, e if isinstance(e, (set, frozenset)) else {e})


def literal(data, N=256):
    def b(nfa, s):
        cur = s
        for ch in data:
            code = ch if isinstance(ch, int) else ord(ch)
            nxt = nfa.new()
            nfa.add(cur, [code if code < N else N - 1], nxt)
            cur = nxt
        return cur
    return _mk(N, b)


def any_of_strings(strings, N=256):
    def b(nfa, s):
        ends = set()
        for data in strings:
            cur = nfa.new()
            nfa.eps[s].add(cur)
            for ch in data:
                code = ch if isinstance(ch, int) else ord(ch)
                nxt = nfa.new()
                nfa.add(cur, [code if code < N else N - 1], nxt)
                cur = nxt
            ends.add(cur)
        return ends
    return _mk(N, b)


def sigma_star(N=256, symbols=None):
    syms = frozenset(range(N)) if symbols is None else frozenset(symbols)

    def b(nfa, s):
        nfa.add(s, syms, s)
        return s
    return _mk(N, b)


def empty_string(N=256):
    return _mk(N, lambda nfa, s: s)


def empty_lang(N=256):
    return DFA(N, [[0] * N], 0, set())


# -- operations ---------------------------------------------------------------

def complement(a):
    return DFA(a.N, a.trans, a.start, set(range(a.n_states)) - a.accept)


def _product(a, b, accf):
    if a.N != b.N:
        raise AnalysisError('alphabet mismatch')
    N = a.N
    ids = {(a.start, b.start): 0}
    order = [(a.start, b.start)]
    trans = []
    accept = set()
    i = 0
    while i < len(order):
        sa, sb = order[i]
        row = [0] * N
        ra, rb = a.trans[sa], b.trans[sb]
        cache = {}
        for x in range(N):
            key = (ra[x], rb[x])
            t = cache.get(key)
            if t is None:
                t = ids.get(key)
                if t is None:
                    t = len(order)
                    ids[key] = t
                    order.append(key)
                cache[key] = t
            row[x] = t
        trans.append(row)
        if accf(sa in a.accept, sb in b.accept):
            accept.add(i)
        i += 1
    return minimise(DFA(N, trans, 0, accept))


def intersect(a, b):
    return _product(a, b, lambda x, y: x and y)


def union(a, b):
    return _product(a, b, lambda x, y: x or y)


def difference(a, b):
    return _product(a, b, lambda x, y: x and not y)


def _to_nfa(nfa, d):
    base = [nfa.new() for _ in range(d.n_states)]
    for s in range(d.n_states):
        by = collections.defaultdict(set)
        for x, t in enumerate(d.trans[s]):
            by[t].add(x)
        for t, syms in by.items():
            nfa.add(base[s], syms, base[t])
    return base


def concat(*ds):
    N = ds[0].N
    nfa = NFA(N)
    start = nfa.new()
    cur = start
    for d in ds:
        base = _to_nfa(nfa, d)
        nfa.eps[cur].add(base[d.start])
        end = nfa.new()
        for s in d.accept:
            nfa.eps[base[s]].add(end)
        cur = end
    return determinise(nfa, start, {cur})


def star(d):
    nfa = NFA(d.N)
    start = nfa.new()
    base = _to_nfa(nfa, d)
    nfa.eps[start].add(base[d.start])
    for s in d.accept:
        nfa.eps[base[s]].add(start)
    return determinise(nfa, start, {start})


def optional(d):
    return union(d, empty_string(d.N))


def _sym_order(N):
    pref = [x for x in range(N) if 32 < x < 127 and chr(x).isalnum()]
    pref += [x for x in range(N) if 32 <= x < 127 and x not in pref]
    pref += [x for x in range(N) if x not in pref]
    return pref


def shortest(d, symbols=None):
    """Shortest accepted symbol sequence (as bytes/list) or None if empty."""
    order = [x for x in _sym_order(d.N) if symbols is None or x in symbols]
    seen = {d.start: None}
    q = collections.deque([d.start])
    while q:
        s = q.popleft()
        if s in d.accept:
            w = []
            cur = s
            while seen[cur] is not None:
                prev, x = seen[cur]
                w.append(x)
                cur = prev
            w.reverse()
            return w
        row = d.trans[s]
        for x in order:
            t = row[x]
            if t not in seen:
                seen[t] = (s, x)
                q.append(t)
    return None


def is_empty(d, symbols=None):
    return shortest(d, symbols) is None


def show(w, N=256):
    """Render a witness for reports."""
    if w is None:
        return None
    if N == 256:
        return repr(bytes(w))
    return repr(''.join(chr(x) if x < 256 else '☃' for x in w))


def compare(a, b, symbols=None):
    """(witness in a\\b, witness in b\\a); each None when that side is empty."""
    return shortest(difference(a, b), symbols), shortest(difference(b, a), symbols)


def included(a, b, symbols=None):
    """None if L(a) is a subset of L(b), else a shortest counterexample."""
    return shortest(difference(a, b), symbols)


def contains_substring(sub, N=256):
    return concat(sigma_star(N), literal(sub, N), sigma_star(N))


def restrict_alphabet(d, symbols):
    return intersect(d, sigma_star(d.N, symbols))


def prefix_free(d):
    """True if no accepted string is a proper prefix of another accepted one."""
    # live states: those from which an accept state is reachable
    rev = collections.defaultdict(set)
    for s in range(d.n_states):
        for t in d.trans[s]:
            rev[t].add(s)
    live = set(d.accept)
    st = list(d.accept)
    while st:
        s = st.pop()
        for p in rev[s]:
            if p not in live:
                live.add(p)
                st.append(p)
    # reachable accept states must have no live successor
    seen = {d.start}
    st = [d.start]
    while st:
        s = st.pop()
        for t in d.trans[s]:
            if s in d.accept and t in live:
                return False
            if t not in seen:
                seen.add(t)
                st.append(t)
    return True


def count_up_to(d, maxlen, symbols=None):
    """Number of accepted strings of length <= maxlen (for evidence)."""
    syms = list(range(d.N)) if symbols is None else list(symbols)
    cur = collections.Counter({d.start: 1})
    total = 1 if d.start in d.accept else 0
    for _ in range(maxlen):
        nxt = collections.Counter()
        for s, c in cur.items():
            row = d.trans[s]
            for x in syms:
                nxt[row[x]] += c
        cur = nxt
        total += sum(c for s, c in cur.items() if s in d.accept)
    return total


def width(pattern, flags=0):
    t = parse(pattern, flags)
    return t.getwidth()


def enumerate_finite(d, limit=200, maxlen=40):
    """All accepted strings of a finite language (AnalysisError if more than limit)."""
    # live states
    rev = collections.defaultdict(set)
    for s in range(d.n_states):
        for t in d.trans[s]:
            rev[t].add(s)
    live = set(d.accept)
    st = list(d.accept)
    while st:
        x = st.pop()
        for p in rev[x]:
            if p not in live:
                live.add(p)
                st.append(p)
    out = []
    todo = [(d.start, [])]
    while todo:
        s, w = todo.pop()
        if s in d.accept:
            out.append(list(w))
            if len(out) > limit:
                raise AnalysisError('language larger than %d strings' % limit)
        if len(w) >= maxlen:
            raise AnalysisError('language has strings longer than %d (infinite?)' % maxlen)
        row = d.trans[s]
        for x in range(d.N):
            t = row[x]
            if t in live:
                todo.append((t, w + [x]))
    return sorted(out)
