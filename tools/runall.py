#!/venv/bin/python
"""Run every claimed check (quick, or given tier) on the current /repo tree; validate evidence."""
import json, os, subprocess, sys, time
HERE = os.path.dirname(os.path.dirname(os.path.abspath(__file__)))
tier = sys.argv[1] if len(sys.argv) > 1 else 'quick'
m = json.load(open(os.path.join(HERE, 'MANIFEST.json')))
bad = 0
for c in m['checks']:
    cmd = c['quick_cmd'] if tier == 'quick' else c.get('thorough_cmd', c['quick_cmd'])
    t = time.time()
    p = subprocess.run(cmd, shell=True, cwd=HERE, capture_output=True, text=True)
    last = p.stdout.strip().splitlines()[-1] if p.stdout.strip() else ''
    print('%s exit=%d %.1fs  %s' % (c['property_id'], p.returncode, time.time() - t, last[:150]))
    if p.returncode:
        bad += 1
        print(p.stdout[-2000:], p.stderr[-2000:])
v = subprocess.run(['/opt/veriftools/pyvenv/bin/python', '-c', '''
import json, jsonschema, sys, os
m=json.load(open("MANIFEST.json")); jsonschema.validate(m, json.load(open("/root/.vp/MANIFEST.schema.json")))
S=json.load(open("/root/.vp/EVIDENCE.schema.json"))
for c in m["checks"]:
    e=json.load(open(c["evidence_file"])); jsonschema.validate(e,S)
    assert e["property_id"]==c["property_id"]
    assert e["level"]==c["level_claimed"]["category"], (c["property_id"], e["level"])
print("manifest+evidence valid")
'''], cwd=HERE, capture_output=True, text=True)
print(v.stdout.strip(), v.stderr.strip()[-800:])
sys.exit(1 if bad or v.returncode else 0)
