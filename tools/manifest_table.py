PENDING = 'check under construction in this session; not claimed until it runs clean on the pinned tree'
for _p in ['C%02d' % i for i in range(1, 21)]:
    NA[_p] = PENDING
CLAIMED['C10'] = dict(
    category='proof',
    text=('Whole property. Acceptance depends only on (previous id, next id): the folded transition table is compared with '
          'the specification relation on all 81 pairs, and abstract execution of the reader (ids concrete, every other datum '
          'abstract, object state havocked) shows the first header is tested against {diffx}, every yielded record passed the '
          'membership test against the row of the previous id, and the next row is the row of the id just yielded. Finite '
          'relation equality + dominance, so sequences of any length are covered.'),
    note=('Trusted: CPython set/dict semantics, re._parser, the hierarchy grammar transcribed in sa/roles.py, no monkey-patching '
          'or subclass overriding. Header syntax is C11, not decided here.'),
    technique='constant folding + finite-domain abstract interpretation (typestate/dominance) + regex language enumeration')

CLAIMED['C11'] = dict(
    category='proof',
    text=('Whole grammar clause. The effective accepted header language (header regex + match mode, option group, split '
          'separators, key/value regex guards as extracted by abstract interpretation of the header function) is built as a '
          'DFA and compared for equivalence with the DFA of the specification grammar over all byte strings without LF; '
          'plus: the regex is applied to the line minus exactly one newline; no sink on the header path can raise anything but '
          'DiffXParseError; values are stored verbatim with integer conversion covering -?[0-9]+.'),
    note=('Trusted: re._parser/sre semantics of match, fullmatch and $, bytes.split (split lemma checked on automata), the '
          'grammar transcribed from section-format.rst. Acceptance conditions that are not regex guards on keys/values '
          '(none today) would not be modelled. Whether 1_0 is an integer is left open.'),
    technique='regex->DFA language equivalence with shortest witnesses + exception-escape (sink table) analysis')

CLAIMED['C04'] = dict(
    category='other',
    text=('Whole property as a finite-state question: exhaustive breadth-first abstract execution of the reader generator and '
          'of the writer methods over all container histories (ids/calls concrete, encodings opaque labels, rest abstract) '
          'until the abstract state space closes; at every content section the encoding actually used is compared with the '
          'nearest-declaring-ancestor oracle computed from the history alone; diff sections never inherit.'),
    note=('Exhaustive over the abstract state space (evidence: states, transitions, exhaustive=true). Trusted: list/dict '
          'models of sa/models.py, the folded transition table (checked against the spec by C10). The codecs themselves are '
          'outside this property.'),
    technique='finite-domain abstract interpretation with exhaustive history exploration (typestate of the scope stack)')

CLAIMED['C09'] = dict(
    category='other',
    text=('Acceptance relation: transition table = spec relation (81 pairs) and, from every writer state reachable by call '
          'histories its own validator accepts (exhaustive K1 exploration), each public call is accepted iff the id it would '
          'write may follow the previous one, rejecting with DiffXSectionOrderError. Atomic rejection: typestate rule '
          'CLEAN->DIRTY at the first stream write / stack mutation / attribute store; every public call is executed from '
          'every reachable state with caller-controlled abstract arguments (one fully untyped argument at a time) and no '
          'raise source (explicit raise or sink-table operation on caller data) may be reached DIRTY. Append-only: every '
          'operation on the output stream is write(). Header sink: every option value reaching a header is None, in a '
          'folded choice set, a computed length or regex-validated.'),
    note=('Sound relative to the sink table (sa/calls.py) and the one-abstract-argument-at-a-time argument abstraction; '
          'utility functions of utils/text.py are summarised per call signature. Does not decide the bytes written (C02).'),
    technique='typestate (validate-before-effect) over path-sensitive abstract interpretation + finite relation comparison + who-may-call query')

CLAIMED['C20'] = dict(
    category='other',
    text=('Rule-table analysis of the RegexLexer: tokens table extracted symbolically; on each regex AST: group coverage of '
          'bygroups rules (every consuming item in exactly one capture), arity, progress (min width >= 1), state/include '
          'resolution, header exhaustiveness over the 9 ids and the end-of-section lookahead (DFA membership of writer '
          'header forms), content-group language includes every non-empty text without "#.", single header token type, '
          'fallback rule, setup.py entry point. With the trusted driver loop: lossless + terminating + headers tagged.'),
    note=('Trusted: pygments RegexLexer driver loop, bygroups/using/include, and that JsonLexer/DiffLexer are lossless. '
          'Absence of Error tokens from those third-party sub-lexers is not decided.'),
    technique='custom lint over the regex ASTs of the lexer rule table + DFA inclusion checks')

CLAIMED['C19'] = dict(
    category='other',
    text=('Typestate + structural rules over the object model: every settable attribute of every section class is assigned '
          'an abstract caller value on a freshly built tree and each store must be dominated by the declared type (and '
          'choice) guard with no raise source after a store; the constructor hands every keyword to setattr or raises; '
          '__slots__ closure of the hierarchy; descriptor completeness; on every path where __eq__ may return true all '
          'state slots of both operands were compared; fields the DOM writer reads are compared by __eq__.'),
    note=('Decides that no field can differ unseen and that assignment validates before storing; does not prove == on '
          'concrete values. Trusted: descriptor protocol / __slots__ / dict equality of CPython.'),
    technique='typestate (validate-before-store) via abstract interpretation + __slots__/descriptor table lints + read-set analysis of __eq__')

CLAIMED['C18'] = dict(
    category='other',
    text=('Ownership / alias / effect analysis on the abstract heap: scenarios (constructors, add_change/add_file, two parses '
          'with one DOM reader object, serialisation twice, ==, repr, iteration, generate_stats) are abstractly executed; no '
          'mutation event may have a SHARED receiver (module/class-level container, mutable default); separately created '
          'trees and the sections of one tree share no mutable container; a reused DOM reader/writer never reads instance '
          'state left by an earlier call (havoc of attributes stored outside __init__); observers (including reads of every '
          'property and typed option attribute, whose getters are executed) emit no mutation event on objects reachable from the tree; no memoised function returns a mutable value.'),
    note=('Shows absence of aliasing and of writes on the modelled heap, not value equality of snapshots. The streaming '
          'writer is stubbed while the DOM writer is analysed as observer (its own argument handling is covered by C09).'),
    technique='ownership/alias analysis over an abstract heap + effect (mutation-event) analysis + decorator lint')

CLAIMED['C15'] = dict(
    category='other',
    text=('The BOM table is indexed, on every path of the stripping function, by the canonical codec name (value fact from '
          'codecs.lookup(x).name); the folded table covers every codec of the platform registry that emits a BOM for a '
          'newline (computed from the standard library at check time), has canonical keys, equal-length BOM tuples that '
          'contain the emitted BOM and leave a non-empty newline; every .encode(E) of a newline constant in utils/text.py '
          'and the writer is routed through the strip with the same E before use.'),
    note=('Trusted: the stdlib codec registry / codecs.lookup canonicalisation on this platform. Behaviour of exotic codecs '
          'on arbitrary text and the write/read equality that follows are not decided.'),
    technique='value-fact dataflow (canonical-codec typestate) + table coverage against platform facts + def-use routing check')

CLAIMED['C14'] = dict(
    category='other',
    text=('(a) Hunk geometry, totals, consumed lines and error positions: the parser is abstractly executed with concrete hunk '
          'headers chosen by the harness and *abstract line contents*, so each path is one sequence of line classes (-, +, '
          'space, marker, other, @@-other); for every class sequence up to the bound (9 header shapes incl. the created/deleted-file forms starting at line 0, up to 3 (thorough: 4) '
          'body lines, second hunks, garbage before/between/after, both ignore_garbage values) the result or the '
          'MalformedHunkError line is compared with a reference semantics written from the property statement. (b) On fully '
          'abstract lists: definite assignment (incl. the empty list), escape set {MalformedHunkError}, error arguments, '
          'marker branch counter-free, None-sentinel truthiness lint, processed-line count.'),
    note=('Bounded-exhaustive over line classes, exact for the listed header shapes; generalisation to longer hunks rests on '
          'the per-line updates being the same code in every iteration (not machine-checked). The reference semantics in '
          'sa/props/c14geo.py is the oracle and is trusted.'),
    technique='abstract interpretation with concrete hunk headers / abstract line contents compared against a reference semantics; definite-assignment and exception-escape analysis')


CLAIMED['C17'] = dict(
    category='other',
    text=('Sufficient conditions + written induction. On every abstract path of the read-ahead helper: in the found branch '
          'the kept slice is chunk[:i+1] for the tested find() result and seek offset + len(chunk) - kept == 0 as linear '
          'forms with whence=SEEK_CUR; in the not-found branch the whole block is appended and nothing is given back; EOF is '
          'signalled only by an empty read; every call site passes a one-byte constant delimiter; the block size is used '
          'only as the size of read(); two stream consumers only and no reader attribute holding read-ahead bytes; no slice or '
          'bounded search with a constant bound over input text on the content path (content lines of any length). (A '
          'readline-style helper is accepted when its non-EOF result is known to end with the delimiter.)'),
    note=('The induction over iterations (bytes returned = stream from entry position through the first delimiter, position '
          'just past it, for any block size) is argued in DESIGN.md, not machine-checked. Stream semantics are trusted.'),
    technique='linear-form (affine) dataflow over abstract paths + call-site constant check + who-may-consume query')

CLAIMED['C13'] = dict(
    category='other',
    text=('Abstract execution of generate_stats at the three levels on a tree with open metadata: keys read from children are '
          'keys the children write; the only metadata mutations are storing "stats" when absent or update() of the existing '
          'mapping; diffs that are not analysed reach no store; no stored value depends on the previous stats (idempotent); '
          '"lines changed" is the sum of the two stored counts and container totals come from the children\'s metadata; '
          'encoding typestate of diff bytes at the hunk parser; undeclared line endings detected from the first line only.'),
    note=('Count exactness (the number of +/- lines inside hunks) is NOT decided: it is arithmetic over runtime diffs, '
          'delegated to the hunk parser, whose rules (C14: bounded-exhaustive comparison with a reference semantics) are imported as C13-I14. Known finding: diffs in a multi-byte '
          'encoding count zero lines.'),
    technique='effect analysis (mutation events on the metadata mapping) + taint (no-feedback) + key-set agreement tables')

CLAIMED['C08'] = dict(
    category='other',
    text=('Exception-escape analysis: for each of the 9 section ids one reader iteration is abstractly executed from the loop '
          'state in which that id is allowed (input-tainted header/option/content unknowns, havocked object state, content '
          'function inlined, utils summarised); every sink-table operation on input-dependent operands not caught by an '
          'enclosing handler and every explicit raise must be DiffXParseError. The same for the DOM load (handlers on abstract '
          'records, open option mapping on the record under test): only BaseDiffXError subclasses may escape. Stream closed '
          'on every exit of the parse function itself; DiffXParseError stores the linenum/column it formats; raise sites '
          'pass computed line numbers.'),
    note=('Sound relative to the sink table (an operation missing from it is a missed alarm; unmodelled external calls are '
          'recorded). Termination and "linenum within the input" are argued, not decided. One reasoned suppression (assert '
          'newline, discharged by C15-R2). Known findings: two DOM-load escapes (TypeError).'),
    technique='taint-driven exception-escape analysis with handler subtraction (sink table) over path-sensitive abstract interpretation')

CLAIMED['C01'] = dict(
    category='other',
    text=('NOT the value equality of the round trip. The inverse-pairing skeleton, each rule a necessary condition: writer '
          'framing def-use (length = len(X), X the bytes written next); reader framing (one read(n), n the unmodified length '
          'option); per content kind the transformation options emitted by the writer are consumed by the reader; order '
          '(encode, append newline, indent the lines of split_lines on that newline / strip per such line before decoding, '
          'nothing trimmed); json.dumps/json.loads pairing; one record per header; encoding-scope agreement of both sides '
          'with one oracle over all histories (K1); first-line detection of line endings.'),
    note=('Everything value-level is undecided: content that looks like headers, NUL bytes, exotic codecs, equality of '
          'decoded text.'),
    technique='def-use / typestate rules over abstract paths of writer and reader + exhaustive scope-stack exploration')
CLAIMED['C03'] = dict(
    category='other',
    text=('NOT value-level agreement with the specification. Decided per section id on abstract reader paths: the rejection '
          'catalogue (six spec violations: guard present, accepted value set equals the specification\'s, failure raises '
          'DiffXParseError); the per-kind interpretation table (options consumed, bytes vs text, diffs never inherit, indent '
          'only for preambles); indentation stripped per line of the newline split before decoding, nothing trimmed; '
          'first-line detection of line endings; nearest-declared-encoding scopes over all histories (K1); blank-line '
          'skipping and one record per header; line accounting (record line = the reader counter at its header, +1 per '
          'header, + len(split_lines(raw content, section newline)) per content block, no other writer).'),
    note='Equality of yielded content/options with an independent reading of the specification on concrete files is undecided.',
    technique='guard/value-set extraction by abstract interpretation + table comparison with folded option sets')
CLAIMED['C07'] = dict(
    category='other',
    text=('Sanitiser-before-sink: on every path yielding a content section, read(n) gets the unmodified length option proven '
          'int with lower and upper bound; exactly one read per section, no other stream operation, no delimiter scanning; '
          'check-after-read (known finding: absent); read-ahead helper rules (EOF only on empty read, non-EOF result ends '
          'with the delimiter, accounting identity) instantiated from C17.'),
    note=('The prefix property for every cut position is not decided as such; these are its necessary conditions. Known '
          'finding: no short-read check (cannot be repaired without contradicting a pinned test).'),
    technique='taint/fact dataflow (sanitiser-before-sink) + stream-operation query + linear-form accounting')
CLAIMED['C12'] = dict(
    category='other',
    text=('Non-interference of option pairs on abstract reader paths: every parsed pair is stored on every non-raising path '
          'and the key is compared with no constant; the options mapping is otherwise only read by constant lookups of the '
          'six known options; the option-list language is closed under ", "-concatenation; values stored verbatim with '
          'integer conversion covering -?[0-9]+.'),
    note='Implied, not executed: equality of the records with and without the extra options.',
    technique='information-flow (non-interference) over abstract paths + regular-language closure check')

CLAIMED['C02'] = dict(
    category='other',
    text=('NOT byte equality with an independent serialiser. On the abstract paths of every public writer call: header-sink '
          'sanitisation of every option value; constant keys in the key grammar; canonical rendering shape (sorted by key, '
          '", "-joined, "#id:" + single space + ascii options + LF); the id written equals the hierarchy id over all accepted '
          'call histories (K1); length def-use; BOM-stripped newline routing; indentation = b" " * indent before each line of '
          'split_lines(encoded content, newline); canonical json.dumps arguments; effective-encoding scopes (K1).'),
    note='Byte-for-byte equality with a specification-derived serialiser is undecided; each rule is a necessary condition of it.',
    technique='taint-to-sink (header sink) + structural def-use rules on abstract values of the written bytes + K1 exploration')
CLAIMED['C05'] = dict(
    category='other',
    text=('NOT tree equality. Table agreement of the DOM and streaming layers: typed options map (after the rename table) onto '
          'keyword parameters of the selected writer method; handler table exhaustive over the 9 ids; dynamic new_/write_ '
          'dispatch resolves; ids of a constructed tree are legal with the right content/container split; only length is '
          'dropped on load and only empty content skipped on save; choice sets agree; encoding scopes of reader and writer '
          'agree over all histories (K1).'),
    note='Equality of the parsed tree with the original on concrete trees is undecided.',
    technique='agreement tables extracted from the AST (descriptors, signatures, dispatch) + K1 exploration')
CLAIMED['C06'] = dict(
    category='other',
    text=('NOT byte identity. Pass-through closure: the object model is loaded from abstract records with open option mappings '
          'and serialised; every ** of such a mapping into a closed streaming-writer signature is reported (4 known '
          'findings); default agreement: writer defaults rendered into headers must be passed explicitly by the DOM writer '
          '(1 known finding: preamble indent); options stored verbatim (only length dropped); to_bytes leaves the tree unchanged.'),
    note='Byte identity on library-produced files and idempotence on foreign files are undecided as such.',
    technique='open-mapping (key-set) dataflow into call signatures + default-value table comparison + effect analysis')

CLAIMED['C16'] = dict(
    category='other',
    text=('All four clauses, for the code shape: split_lines is abstractly interpreted over a dedicated finite domain (a list '
          'is "n leading elements of one form + optional distinguished last element", forms P / P+NL / LOSSY) for the cases '
          'keep_ends x (no newline / one newline ending the data / other, ending with one or not) x (newline == LF or not); with the trusted algebra of bytes.split the resulting forms '
          'decide losslessness of the kept-ends mode, termination of every line but the last, the line count and the relation '
          'between the two modes. Any other list primitive (bytes.splitlines) is reported.'),
    note=('Trusted: the algebra of bytes.split (data = p_0 NL ... NL p_n; no piece contains NL; last piece empty iff data ends '
          'with NL) for separators without a proper border. An unrecognised rewrite (e.g. a find() loop) is an analysis error '
          '(exit 2), never a verdict. Phase 1 declared this property not applicable; the shape domain was found while '
          'triaging seeded changes that corrupt split_lines.'),
    technique='abstract interpretation over a list-shape domain (symbolic pieces), case split on the guard conditions')
