#!/venv/bin/python
"""tools/seed_recheck.py <seed name> <check ids,...>
Re-run the named quick checks against one seeded change (scratch copy of /repo HEAD, via tools/seedrun.py) and merge the
exit codes into seeded/<name>/meta.json (the other entries stay as recorded; each entry names the /verif commit it ran at)."""
import json, os, subprocess, sys
HERE = os.path.dirname(os.path.dirname(os.path.abspath(__file__)))
name, ids = sys.argv[1], sys.argv[2].split(',')
mp = os.path.join(HERE, 'seeded', name, 'meta.json')
out = subprocess.run([os.path.join(HERE, 'tools', 'seedrun.py'), os.path.join(HERE, 'seeded', name, 'patch.diff')] + ids,
                     capture_output=True, text=True, timeout=3000, cwd=HERE).stdout
vhead = subprocess.run(['git', '-C', HERE, 'rev-parse', '--short', 'HEAD'], capture_output=True, text=True).stdout.strip()
meta = json.load(open(mp))
checks = meta.setdefault('verification', {}).setdefault('checks', {})
cur = None
for line in out.splitlines():
    parts = line.split()
    if len(parts) >= 3 and parts[1].startswith('exit='):
        cur = parts[0]
        checks[cur] = {'exit': int(parts[1][5:]), 'violations': int(parts[2].split('=')[1]), 'verif_head': vhead + '+'}
    elif cur and line.startswith('    ') and 'first_message' not in checks[cur]:
        checks[cur]['first_message'] = line.strip()[:240]
json.dump(meta, open(mp, 'w'), indent=1)
print(name, {k: checks[k]['exit'] for k in ids if k in checks})
