#!/venv/bin/python
"""tools/ingest_runs.py <dir of seedrun logs>
Record, in seeded/*/meta.json and benign/*/meta.json, which registered quick checks report each patch
(exit codes parsed from the logs of tools/seedrun.py, one log per patch, named <kind>_<name>_.log)."""
import json, os, re, subprocess, sys
HERE = os.path.dirname(os.path.dirname(os.path.abspath(__file__)))
d = sys.argv[1]
head = subprocess.run(['git', '-C', '/repo', 'rev-parse', '--short', 'HEAD'], capture_output=True, text=True).stdout.strip()
vhead = subprocess.run(['git', '-C', HERE, 'rev-parse', '--short', 'HEAD'], capture_output=True, text=True).stdout.strip()
n = 0
for f in sorted(os.listdir(d)):
    m = re.match(r'(seeded|benign)_(.+?)_\.log$', f)
    if not m:
        continue
    kind, name = m.groups()
    mp = os.path.join(HERE, kind, name, 'meta.json')
    if not os.path.exists(mp):
        continue
    checks = {}
    msgs = {}
    cur = None
    for line in open(os.path.join(d, f)):
        parts = line.split()
        if len(parts) >= 3 and parts[1].startswith('exit=') and re.match(r'C\d\d$', parts[0]):
            cur = parts[0]
            checks[cur] = {'exit': int(parts[1][5:]), 'violations': int(parts[2].split('=')[1])}
        elif len(parts) >= 2 and parts[1] == 'TIMEOUT':
            checks[parts[0]] = {'exit': 124, 'violations': 0}
        elif cur and line.startswith('    ') and cur not in msgs:
            msgs[cur] = line.strip()[:240]
    if len(checks) < 20:
        print('incomplete log', f, len(checks))
        continue
    meta = json.load(open(mp))
    if kind == 'seeded':
        v = meta.setdefault('verification', {})
        v['checks'] = checks
        v['checks_first_message'] = msgs
        v['checks_run_at'] = {'repo_head': head, 'verif_head': vhead, 'how': 'tools/seedrun.py on a scratch copy of /repo HEAD with the patch applied'}
    else:
        meta['checks'] = checks
        meta['checks_first_message'] = msgs
        meta['checks_run_at'] = {'repo_head': head, 'verif_head': vhead}
    json.dump(meta, open(mp, 'w'), indent=1)
    n += 1
print('updated', n)
