#!/venv/bin/python
"""tools/seedrun.py <patch.diff> [ids...]: apply a seeded patch to /repo, run checks, undo.
Prints one line per check: id exit-code #violations. Never leaves /repo dirty."""
import json, os, subprocess, sys
HERE = os.path.dirname(os.path.dirname(os.path.abspath(__file__)))


def claimed():
    try:
        m = json.load(open(os.path.join(HERE, 'MANIFEST.json')))
        return [c['property_id'] for c in m['checks']]
    except Exception:
        return []


def main():
    patch = os.path.abspath(sys.argv[1])
    ids = sys.argv[2:] or claimed()
    st = subprocess.run(['git', '-C', '/repo', 'status', '--porcelain'], capture_output=True, text=True).stdout.strip()
    if st:
        print('refusing: /repo is dirty'); return 2
    r = subprocess.run(['git', '-C', '/repo', 'apply', patch])
    if r.returncode:
        print('patch does not apply'); return 2
    try:
        for pid in ids:
            try:
                p = subprocess.run([os.path.join(HERE, 'check'), pid], capture_output=True, text=True, timeout=600, cwd=HERE)
                out = p.stdout
                nv = out.count('VIOLATION property=')
                print('%s exit=%d violations=%d' % (pid, p.returncode, nv))
                for line in out.splitlines():
                    if line.startswith('ANALYSIS-ERROR') or '[' in line and ']' in line and not line.startswith(('VIOLATION', 'KNOWN', pid)):
                        print('    ' + line[:300])
            except subprocess.TimeoutExpired:
                print('%s TIMEOUT' % pid)
    finally:
        subprocess.run(['git', '-C', '/repo', 'checkout', '--', '.'])
        subprocess.run(['git', '-C', '/repo', 'clean', '-fdq', 'python'])
    return 0


if __name__ == '__main__':
    sys.exit(main())
