#!/venv/bin/python
"""tools/seedrun.py [--in-repo] <patch.diff> [ids...]
Run checks against a seeded patch. Default: the patch is applied to a scratch copy of /repo's HEAD
tree under /tmp (VERIF_REPO points the checks at it; removed afterwards) so /repo stays untouched and
several seeds can run at once. --in-repo: apply in /repo itself, run, and undo (git checkout -- .).
Prints one line per check: id exit=<code> violations=<n>."""
import json, os, shutil, subprocess, sys, tempfile
HERE = os.path.dirname(os.path.dirname(os.path.abspath(__file__)))


def claimed():
    try:
        m = json.load(open(os.path.join(HERE, 'MANIFEST.json')))
        return [c['property_id'] for c in m['checks']]
    except Exception:
        return []


def run_checks(ids, env):
    for pid in ids:
        try:
            p = subprocess.run([os.path.join(HERE, 'check'), pid], capture_output=True, text=True, timeout=900, cwd=HERE, env=env)
            out = p.stdout
            nv = out.count('VIOLATION property=')
            print('%s exit=%d violations=%d' % (pid, p.returncode, nv))
            for line in out.splitlines():
                if line.startswith('ANALYSIS-ERROR') or ('[' in line and ']' in line and not line.startswith(('VIOLATION', 'KNOWN', pid + ' '))):
                    print('    ' + line[:300])
        except subprocess.TimeoutExpired:
            print('%s TIMEOUT' % pid)


def main():
    args = sys.argv[1:]
    in_repo = '--in-repo' in args
    args = [a for a in args if a != '--in-repo']
    patch = os.path.abspath(args[0])
    ids = args[1:] or claimed()
    if in_repo:
        st = subprocess.run(['git', '-C', '/repo', 'status', '--porcelain'], capture_output=True, text=True).stdout.strip()
        if st:
            print('refusing: /repo is dirty'); return 2
        if subprocess.run(['git', '-C', '/repo', 'apply', patch]).returncode:
            print('patch does not apply'); return 2
        try:
            run_checks(ids, dict(os.environ))
        finally:
            subprocess.run(['git', '-C', '/repo', 'checkout', '--', '.'])
        return 0
    tmp = tempfile.mkdtemp(prefix='seedscratch_', dir='/tmp')
    try:
        subprocess.run('git -C /repo archive HEAD | tar -x -C %s' % tmp, shell=True, check=True)
        subprocess.run(['git', 'init', '-q'], cwd=tmp)
        if subprocess.run(['git', 'apply', patch], cwd=tmp).returncode:
            print('patch does not apply'); return 2
        env = dict(os.environ, VERIF_REPO=tmp, VERIF_EVIDENCE_DIR=os.path.join(tmp, '_evidence'))
        run_checks(ids, env)
    finally:
        shutil.rmtree(tmp, ignore_errors=True)
    return 0


if __name__ == '__main__':
    sys.exit(main())
