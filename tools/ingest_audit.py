#!/venv/bin/python
"""tools/ingest_audit.py [--partial-logs <dir>]
Record, in seeded/*/meta.json and benign/*/meta.json, what the last full sensitivity audit (audit/<id>.json, written by
`VERIF_AUDIT_BENIGN=1 ./check <id> --tier thorough`) observed: for every property, the exit code of its quick check on every
seeded change that names it and on every behaviour-preserving refactoring.  Entries of other checks already recorded for a seed
(from earlier all-checks runs of tools/seedrun.py) are kept and marked with the /verif commit they came from.
With --partial-logs, logs of tools/seedrun.py (complete or not) are merged on top: only the checks they mention are updated."""
import json, os, re, subprocess, sys
HERE = os.path.dirname(os.path.dirname(os.path.abspath(__file__)))
vhead = subprocess.run(['git', '-C', HERE, 'rev-parse', '--short', 'HEAD'], capture_output=True, text=True).stdout.strip()
head = subprocess.run(['git', '-C', '/repo', 'rev-parse', '--short', 'HEAD'], capture_output=True, text=True).stdout.strip()


def upd(kind, name, pid, rec):
    mp = os.path.join(HERE, kind, name, 'meta.json')
    if not os.path.exists(mp):
        return False
    meta = json.load(open(mp))
    holder = meta.setdefault('verification', {}) if kind == 'seeded' else meta
    ch = holder.setdefault('checks', {})
    old_at = holder.get('checks_run_at', {}).get('verif_head')
    for k, v in ch.items():
        if 'verif_head' not in v and old_at:
            v['verif_head'] = old_at
    ch[pid] = dict(rec, verif_head=vhead)
    holder['checks_run_at'] = {'repo_head': head, 'verif_head': vhead, 'note': 'each entry of "checks" names the /verif commit it was run at'}
    json.dump(meta, open(mp, 'w'), indent=1)
    return True


n = 0
ad = os.path.join(HERE, 'audit')
for f in sorted(os.listdir(ad)) if os.path.isdir(ad) else []:
    if not re.match(r'C\d\d\.json$', f):
        continue
    a = json.load(open(os.path.join(ad, f)))
    pid = a['property']
    for s in a.get('seeds', []):
        if 'exit' in s:
            n += upd('seeded', s['seed'], pid, {'exit': s['exit'], 'violations': 1 if s['exit'] == 1 else 0, 'first_message': s.get('report', '')[:240]})
    for b in a.get('benign_refactorings', []):
        if 'exit' in b:
            n += upd('benign', b['patch'], pid, {'exit': b['exit'], 'violations': 1 if b['exit'] == 1 else 0, 'first_message': b.get('report', '')[:240]})
print('audit entries recorded:', n)
if '--partial-logs' in sys.argv:
    d = sys.argv[sys.argv.index('--partial-logs') + 1]
    m_ = 0
    for f in sorted(os.listdir(d)):
        mm = re.match(r'(?:(seeded|benign)_)?(.+?)_?\.log$', f)
        if not mm:
            continue
        name = mm.group(2)
        kind = mm.group(1) or ('seeded' if re.match(r'C\d\d-\d+$', name) else 'benign')
        cur = None
        recs = {}
        for line in open(os.path.join(d, f)):
            parts = line.split()
            if len(parts) >= 3 and parts[1].startswith('exit=') and re.match(r'C\d\d$', parts[0]):
                cur = parts[0]
                recs[cur] = {'exit': int(parts[1][5:]), 'violations': int(parts[2].split('=')[1])}
            elif cur and line.startswith('    ') and 'first_message' not in recs[cur]:
                recs[cur]['first_message'] = line.strip()[:240]
        for pid, rec in recs.items():
            m_ += upd(kind, name, pid, rec)
    print('log entries recorded:', m_)
