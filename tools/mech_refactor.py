#!/venv/bin/python
"""Mechanical, behaviour-preserving-by-construction rewrites of the pydiffx sources (ast transformers + ast.unparse), used as
additional benign refactorings: every check must stay silent on them.  Usage: mech_refactor.py <kind> <tree-root>
kinds: unparse | rename-locals | negate-if | expand-augassign | elif-to-nested"""
import ast, os, sys

FILES = ['reader.py', 'writer.py', 'sections.py', 'options.py', 'errors.py', 'utils/text.py', 'utils/unified_diffs.py',
         'dom/objects.py', 'dom/properties.py', 'dom/reader.py', 'dom/writer.py', 'integrations/pygments_lexer.py']


class RenameLocals(ast.NodeTransformer):
    """Rename every plain local variable (not a parameter, not global/nonlocal, not used by a nested scope) v -> v_x."""

    def visit_FunctionDef(self, node):
        self.generic_visit(node)
        params = {a.arg for a in node.args.args + node.args.kwonlyargs + node.args.posonlyargs}
        if node.args.vararg:
            params.add(node.args.vararg.arg)
        if node.args.kwarg:
            params.add(node.args.kwarg.arg)
        nested = set()
        for n in ast.walk(node):
            if n is not node and isinstance(n, (ast.FunctionDef, ast.Lambda, ast.ClassDef, ast.ListComp, ast.SetComp, ast.DictComp, ast.GeneratorExp)):
                for m in ast.walk(n):
                    if isinstance(m, ast.Name):
                        nested.add(m.id)
            if isinstance(n, (ast.Global, ast.Nonlocal)):
                nested.update(n.names)
            if isinstance(n, ast.Call) and isinstance(n.func, ast.Name) and n.func.id in ('locals', 'vars', 'eval', 'exec'):
                return node
        stored = {n.id for n in ast.walk(node) if isinstance(n, ast.Name) and isinstance(n.ctx, (ast.Store, ast.Del))}
        for n in ast.walk(node):
            if isinstance(n, ast.ExceptHandler) and n.name:
                nested.add(n.name)
        ren = {v for v in stored if v not in params and v not in nested and not v.startswith('__')}
        for n in ast.walk(node):
            if isinstance(n, ast.Name) and n.id in ren:
                n.id = n.id + '_x'
        return node


class NegateIf(ast.NodeTransformer):
    """if c: A else: B  ->  if not c: B else: A   (only plain if/else, not elif chains)."""

    def visit_If(self, node):
        self.generic_visit(node)
        if node.orelse and not (len(node.orelse) == 1 and isinstance(node.orelse[0], ast.If)):
            return ast.If(test=ast.UnaryOp(op=ast.Not(), operand=node.test), body=node.orelse, orelse=node.body)
        return node


class ExpandAug(ast.NodeTransformer):
    """x += e -> x = x + e for plain names (ints, str, bytes only in this code base; lists use append/extend)."""

    def visit_AugAssign(self, node):
        if isinstance(node.target, ast.Name) and isinstance(node.op, (ast.Add, ast.Sub)):
            return ast.Assign(targets=[ast.Name(id=node.target.id, ctx=ast.Store())],
                              value=ast.BinOp(left=ast.Name(id=node.target.id, ctx=ast.Load()), op=node.op, right=node.value))
        return node


class ElifToNested(ast.NodeTransformer):
    """Adds an explicit trailing `else: pass` to every if without else (changes block shapes, not behaviour)."""

    def visit_If(self, node):
        self.generic_visit(node)
        if not node.orelse:
            node.orelse = [ast.Pass()]
        return node


class RenamePrivate(ast.NodeTransformer):
    """Consistently rename every private (single leading underscore) function, method, attribute, class-level name and
    __slots__ string of the package: _name -> _name_p.  Applied with one shared table to all files."""
    table = None

    def _r(self, n):
        return n + '_p' if n in self.table else n

    def visit_FunctionDef(self, node):
        node.name = self._r(node.name)
        self.generic_visit(node)
        return node

    def visit_Attribute(self, node):
        self.generic_visit(node)
        node.attr = self._r(node.attr)
        return node

    def visit_Name(self, node):
        node.id = self._r(node.id)
        return node

    def visit_Constant(self, node):
        if isinstance(node.value, str) and node.value in self.table and getattr(self, 'in_slots', False):
            node.value = self._r(node.value)
        return node

    def visit_Assign(self, node):
        slots = any(isinstance(t, ast.Name) and t.id == '__slots__' for t in node.targets)
        self.in_slots = slots
        self.generic_visit(node)
        self.in_slots = False
        return node

    def visit_keyword(self, node):
        self.generic_visit(node)
        return node


def private_names(root, files):
    names = set()
    for rel in files:
        tree = ast.parse(open(os.path.join(root, 'python', 'pydiffx', rel)).read())
        for n in ast.walk(tree):
            if isinstance(n, ast.FunctionDef) and n.name.startswith('_') and not n.name.startswith('__'):
                names.add(n.name)
            if isinstance(n, ast.Attribute) and isinstance(n.ctx, ast.Store) and n.attr.startswith('_') and not n.attr.startswith('__'):
                names.add(n.attr)
            if isinstance(n, ast.ClassDef):
                for st in n.body:
                    if isinstance(st, ast.Assign):
                        for t in st.targets:
                            if isinstance(t, ast.Name) and t.id.startswith('_') and not t.id.startswith('__'):
                                names.add(t.id)
    return names


class ReturnTemp(ast.NodeTransformer):
    """return e  ->  result_r = e; return result_r   (for non-trivial e, outside generators' bare returns)."""

    def visit_FunctionDef(self, node):
        self.generic_visit(node)
        node.body = self._blocks(node.body)
        return node

    def _blocks(self, body):
        out = []
        for st in body:
            for f in ('body', 'orelse', 'finalbody'):
                if hasattr(st, f) and isinstance(getattr(st, f), list) and not isinstance(st, (ast.FunctionDef, ast.ClassDef)):
                    setattr(st, f, self._blocks(getattr(st, f)))
            if isinstance(st, ast.Try):
                for h in st.handlers:
                    h.body = self._blocks(h.body)
            if isinstance(st, ast.Return) and st.value is not None and not isinstance(st.value, (ast.Name, ast.Constant)):
                out.append(ast.Assign(targets=[ast.Name(id='result_r', ctx=ast.Store())], value=st.value))
                out.append(ast.Return(value=ast.Name(id='result_r', ctx=ast.Load())))
            else:
                out.append(st)
        return out


class SplitAnd(ast.NodeTransformer):
    """if a and b: X   (no else)  ->  if a:\n    if b: X"""

    def visit_If(self, node):
        self.generic_visit(node)
        if not node.orelse and isinstance(node.test, ast.BoolOp) and isinstance(node.test.op, ast.And):
            inner = ast.If(test=node.test.values[-1], body=node.body, orelse=[])
            for v in reversed(node.test.values[:-1]):
                inner = ast.If(test=v, body=[inner], orelse=[])
            return inner
        return node


class SortMethods(ast.NodeTransformer):
    """Methods of every class and functions of every module sorted by name (other statements keep their place and order
    ahead of them); decorated property pairs stay adjacent because they share a name (stable sort)."""

    def _sort(self, body):
        funcs = [b for b in body if isinstance(b, ast.FunctionDef)]
        if not funcs:
            return body
        first = body.index(funcs[0])
        head = [b for b in body[:first]]
        rest = [b for b in body[first:] if not isinstance(b, ast.FunctionDef)]
        return head + rest + sorted(funcs, key=lambda f: f.name) if not any(isinstance(b, ast.ClassDef) for b in rest) else body

    def visit_ClassDef(self, node):
        self.generic_visit(node)
        node.body = self._sort(node.body)
        return node


KINDS = {'unparse': None, 'rename-locals': RenameLocals, 'negate-if': NegateIf, 'expand-augassign': ExpandAug, 'else-pass': ElifToNested, 'rename-private': RenamePrivate, 'return-temp': ReturnTemp, 'split-and': SplitAnd, 'sort-methods': SortMethods}


def main():
    kind, root = sys.argv[1], sys.argv[2]
    only = sys.argv[3:] or FILES
    if kind == 'rename-private':
        RenamePrivate.table = private_names(root, only)
    for rel in only:
        p = os.path.join(root, 'python', 'pydiffx', rel)
        tree = ast.parse(open(p).read())
        tr = KINDS[kind]
        if tr is not None:
            tree = tr().visit(tree)
        ast.fix_missing_locations(tree)
        open(p, 'w').write(ast.unparse(tree) + '\n')


if __name__ == '__main__':
    main()
