#!/venv/bin/python
"""Mechanical, behaviour-preserving-by-construction rewrites of the pydiffx sources (ast transformers + ast.unparse), used as
additional benign refactorings: every check must stay silent on them.  Usage: mech_refactor.py <kind> <tree-root>
kinds: unparse | rename-locals | negate-if | expand-augassign | elif-to-nested"""
import ast, os, sys

FILES = ['reader.py', 'writer.py', 'sections.py', 'options.py', 'errors.py', 'utils/text.py', 'utils/unified_diffs.py',
         'dom/objects.py', 'dom/properties.py', 'dom/reader.py', 'dom/writer.py', 'integrations/pygments_lexer.py']


class RenameLocals(ast.NodeTransformer):
    """Rename every plain local variable (not a parameter, not global/nonlocal, not used by a nested scope) v -> v_x."""

    def visit_FunctionDef(self, node):
        self.generic_visit(node)
        params = {a.arg for a in node.args.args + node.args.kwonlyargs + node.args.posonlyargs}
        if node.args.vararg:
            params.add(node.args.vararg.arg)
        if node.args.kwarg:
            params.add(node.args.kwarg.arg)
        nested = set()
        for n in ast.walk(node):
            if n is not node and isinstance(n, (ast.FunctionDef, ast.Lambda, ast.ClassDef, ast.ListComp, ast.SetComp, ast.DictComp, ast.GeneratorExp)):
                for m in ast.walk(n):
                    if isinstance(m, ast.Name):
                        nested.add(m.id)
            if isinstance(n, (ast.Global, ast.Nonlocal)):
                nested.update(n.names)
            if isinstance(n, ast.Call) and isinstance(n.func, ast.Name) and n.func.id in ('locals', 'vars', 'eval', 'exec'):
                return node
        stored = {n.id for n in ast.walk(node) if isinstance(n, ast.Name) and isinstance(n.ctx, (ast.Store, ast.Del))}
        for n in ast.walk(node):
            if isinstance(n, ast.ExceptHandler) and n.name:
                nested.add(n.name)
        ren = {v for v in stored if v not in params and v not in nested and not v.startswith('__')}
        for n in ast.walk(node):
            if isinstance(n, ast.Name) and n.id in ren:
                n.id = n.id + '_x'
        return node


class NegateIf(ast.NodeTransformer):
    """if c: A else: B  ->  if not c: B else: A   (only plain if/else, not elif chains)."""

    def visit_If(self, node):
        self.generic_visit(node)
        if node.orelse and not (len(node.orelse) == 1 and isinstance(node.orelse[0], ast.If)):
            return ast.If(test=ast.UnaryOp(op=ast.Not(), operand=node.test), body=node.orelse, orelse=node.body)
        return node


class ExpandAug(ast.NodeTransformer):
    """x += e -> x = x + e for plain names (ints, str, bytes only in this code base; lists use append/extend)."""

    def visit_AugAssign(self, node):
        if isinstance(node.target, ast.Name) and isinstance(node.op, (ast.Add, ast.Sub)):
            return ast.Assign(targets=[ast.Name(id=node.target.id, ctx=ast.Store())],
                              value=ast.BinOp(left=ast.Name(id=node.target.id, ctx=ast.Load()), op=node.op, right=node.value))
        return node


class ElifToNested(ast.NodeTransformer):
    """Adds an explicit trailing `else: pass` to every if without else (changes block shapes, not behaviour)."""

    def visit_If(self, node):
        self.generic_visit(node)
        if not node.orelse:
            node.orelse = [ast.Pass()]
        return node


class RenamePrivate(ast.NodeTransformer):
    """Consistently rename every private (single leading underscore) function, method, attribute, class-level name and
    __slots__ string of the package: _name -> _name_p.  Applied with one shared table to all files."""
    table = None

    def _r(self, n):
        return n + '_p' if n in self.table else n

    def visit_FunctionDef(self, node):
        node.name = self._r(node.name)
        self.generic_visit(node)
        return node

    def visit_Attribute(self, node):
        self.generic_visit(node)
        node.attr = self._r(node.attr)
        return node

    def visit_Name(self, node):
        node.id = self._r(node.id)
        return node

    def visit_Constant(self, node):
        if isinstance(node.value, str) and node.value in self.table and getattr(self, 'in_slots', False):
            node.value = self._r(node.value)
        return node

    def visit_Assign(self, node):
        slots = any(isinstance(t, ast.Name) and t.id == '__slots__' for t in node.targets)
        self.in_slots = slots
        self.generic_visit(node)
        self.in_slots = False
        return node

    def visit_keyword(self, node):
        self.generic_visit(node)
        return node


def private_names(root, files):
    names = set()
    for rel in files:
        tree = ast.parse(open(os.path.join(root, 'python', 'pydiffx', rel)).read())
        for n in ast.walk(tree):
            if isinstance(n, ast.FunctionDef) and n.name.startswith('_') and not n.name.startswith('__'):
                names.add(n.name)
            if isinstance(n, ast.Attribute) and isinstance(n.ctx, ast.Store) and n.attr.startswith('_') and not n.attr.startswith('__'):
                names.add(n.attr)
            if isinstance(n, ast.ClassDef):
                for st in n.body:
                    if isinstance(st, ast.Assign):
                        for t in st.targets:
                            if isinstance(t, ast.Name) and t.id.startswith('_') and not t.id.startswith('__'):
                                names.add(t.id)
    return names


class ReturnTemp(ast.NodeTransformer):
    """return e  ->  result_r = e; return result_r   (for non-trivial e, outside generators' bare returns)."""

    def visit_FunctionDef(self, node):
        self.generic_visit(node)
        node.body = self._blocks(node.body)
        return node

    def _blocks(self, body):
        out = []
        for st in body:
            for f in ('body', 'orelse', 'finalbody'):
                if hasattr(st, f) and isinstance(getattr(st, f), list) and not isinstance(st, (ast.FunctionDef, ast.ClassDef)):
                    setattr(st, f, self._blocks(getattr(st, f)))
            if isinstance(st, ast.Try):
                for h in st.handlers:
                    h.body = self._blocks(h.body)
            if isinstance(st, ast.Return) and st.value is not None and not isinstance(st.value, (ast.Name, ast.Constant)):
                out.append(ast.Assign(targets=[ast.Name(id='result_r', ctx=ast.Store())], value=st.value))
                out.append(ast.Return(value=ast.Name(id='result_r', ctx=ast.Load())))
            else:
                out.append(st)
        return out


class SplitAnd(ast.NodeTransformer):
    """if a and b: X   (no else)  ->  if a:\n    if b: X"""

    def visit_If(self, node):
        self.generic_visit(node)
        if not node.orelse and isinstance(node.test, ast.BoolOp) and isinstance(node.test.op, ast.And):
            inner = ast.If(test=node.test.values[-1], body=node.body, orelse=[])
            for v in reversed(node.test.values[:-1]):
                inner = ast.If(test=v, body=[inner], orelse=[])
            return inner
        return node


class SortMethods(ast.NodeTransformer):
    """Methods of every class and functions of every module sorted by name (other statements keep their place and order
    ahead of them); decorated property pairs stay adjacent because they share a name (stable sort)."""

    def _sort(self, body):
        funcs = [b for b in body if isinstance(b, ast.FunctionDef)]
        if not funcs:
            return body
        first = body.index(funcs[0])
        head = [b for b in body[:first]]
        rest = [b for b in body[first:] if not isinstance(b, ast.FunctionDef)]
        return head + rest + sorted(funcs, key=lambda f: f.name) if not any(isinstance(b, ast.ClassDef) for b in rest) else body

    def visit_ClassDef(self, node):
        self.generic_visit(node)
        node.body = self._sort(node.body)
        return node


class SetToFrozenset(ast.NodeTransformer):
    """Module- and class-level set literals (and the set values of dict literals there) become frozenset({...}) calls."""

    def __init__(self):
        self.depth = 0

    def visit_FunctionDef(self, node):
        return node          # only module / class level

    def visit_Set(self, node):
        self.generic_visit(node)
        return ast.Call(func=ast.Name(id='frozenset', ctx=ast.Load()), args=[ast.Set(elts=node.elts)], keywords=[])


class DictLiteralToCall(ast.NodeTransformer):
    """{'a': x, 'b': y} with identifier keys -> dict(a=x, b=y) inside functions."""

    def visit_Dict(self, node):
        self.generic_visit(node)
        if node.keys and all(isinstance(k, ast.Constant) and isinstance(k.value, str) and k.value.isidentifier()
                             and k.value not in ('self', 'cls') for k in node.keys):
            import keyword
            if not any(keyword.iskeyword(k.value) for k in node.keys):
                return ast.Call(func=ast.Name(id='dict', ctx=ast.Load()), args=[],
                                keywords=[ast.keyword(arg=k.value, value=v) for k, v in zip(node.keys, node.values)])
        return node

    def visit_ClassDef(self, node):
        # class-level tables stay literals (they are part of the public constants)
        for st in node.body:
            if isinstance(st, ast.FunctionDef):
                self.visit(st)
        return node


class RenamePrivateParams(ast.NodeTransformer):
    """Parameters of private functions / methods (other than self) renamed p -> p_a, at the definition, in the body and at
    every keyword use in a call of a function of that name anywhere in the package."""
    table = None      # function name -> {old: new}

    def visit_FunctionDef(self, node):
        self.generic_visit(node)
        ren = self.table.get(node.name)
        if ren:
            for a in node.args.args + node.args.kwonlyargs:
                if a.arg in ren:
                    a.arg = ren[a.arg]
            for n in ast.walk(node):
                if isinstance(n, ast.Name) and n.id in ren:
                    n.id = ren[n.id]
        return node

    def visit_Call(self, node):
        self.generic_visit(node)
        fname = node.func.attr if isinstance(node.func, ast.Attribute) else node.func.id if isinstance(node.func, ast.Name) else None
        ren = self.table.get(fname)
        if ren:
            for kw in node.keywords:
                if kw.arg in ren:
                    kw.arg = ren[kw.arg]
        return node


def private_params(root, files):
    table = {}
    for rel in files:
        tree = ast.parse(open(os.path.join(root, 'python', 'pydiffx', rel)).read())
        for n in ast.walk(tree):
            if isinstance(n, ast.FunctionDef) and n.name.startswith('_') and not n.name.startswith('__'):
                nested = {m.id for f in ast.walk(n) if f is not n and isinstance(f, (ast.FunctionDef, ast.Lambda)) for m in ast.walk(f) if isinstance(m, ast.Name)}
                ps = [a.arg for a in n.args.args + n.args.kwonlyargs if a.arg not in ('self', 'cls') and a.arg not in nested]
                if n.args.kwarg or n.args.vararg:
                    continue
                table.setdefault(n.name, {}).update({p_: p_ + '_a' for p_ in ps})
    return table


class FlipCompare(ast.NodeTransformer):
    """a OP b -> b OP' a for single comparisons with ==, !=, <, <=, >, >= (operands are side-effect free names,
    attributes, constants, subscripts or len() calls in this code base)."""
    FLIP = {ast.Eq: ast.Eq, ast.NotEq: ast.NotEq, ast.Lt: ast.Gt, ast.LtE: ast.GtE, ast.Gt: ast.Lt, ast.GtE: ast.LtE}

    def _pure(self, n):
        return all(isinstance(x, (ast.Name, ast.Attribute, ast.Constant, ast.Subscript, ast.Load, ast.UnaryOp, ast.USub, ast.BinOp,
                                  ast.Add, ast.Sub, ast.Mult, ast.Tuple)) or
                   (isinstance(x, ast.Call) and isinstance(x.func, ast.Name) and x.func.id == 'len') for x in ast.walk(n)
                   if not isinstance(x, (ast.expr_context, ast.operator, ast.unaryop)) or True) if False else \
            not any(isinstance(x, ast.Call) and not (isinstance(x.func, ast.Name) and x.func.id == 'len') for x in ast.walk(n))

    def visit_Compare(self, node):
        self.generic_visit(node)
        if len(node.ops) == 1 and type(node.ops[0]) in self.FLIP and self._pure(node.left) and self._pure(node.comparators[0]):
            return ast.Compare(left=node.comparators[0], ops=[self.FLIP[type(node.ops[0])]()], comparators=[node.left])
        return node


class KeywordsToPositional(ast.NodeTransformer):
    """Calls of private functions / methods of the package pass their leading keyword arguments positionally when they
    are given in signature order (self._f(a=x, b=y) -> self._f(x, y))."""
    sigs = None

    def visit_Call(self, node):
        self.generic_visit(node)
        fname = node.func.attr if isinstance(node.func, ast.Attribute) else node.func.id if isinstance(node.func, ast.Name) else None
        sig = self.sigs.get(fname)
        if sig and not any(isinstance(a, ast.Starred) for a in node.args) and all(kw.arg for kw in node.keywords):
            i = len(node.args)
            while node.keywords and i < len(sig) and node.keywords[0].arg == sig[i]:
                node.args.append(node.keywords.pop(0).value)
                i += 1
        return node


def private_sigs(root, files):
    sigs, dup = {}, set()
    for rel in files:
        tree = ast.parse(open(os.path.join(root, 'python', 'pydiffx', rel)).read())
        for n in ast.walk(tree):
            if isinstance(n, ast.FunctionDef) and n.name.startswith('_') and not n.name.startswith('__'):
                ps = [a.arg for a in n.args.args if a.arg not in ('self', 'cls')]
                if n.name in sigs and sigs[n.name] != ps:
                    dup.add(n.name)
                sigs[n.name] = ps
    return {k: v for k, v in sigs.items() if k not in dup}


class Annotate(ast.NodeTransformer):
    """Every parameter (except self/cls) and every return gets a string annotation; module- and class-level constants
    become annotated assignments (X: 'Final' = ...)."""

    def visit_FunctionDef(self, node):
        self.generic_visit(node)
        for a in node.args.args + node.args.kwonlyargs:
            if a.arg not in ('self', 'cls'):
                a.annotation = ast.Constant(value='object')
        node.returns = ast.Constant(value='object')
        return node

    def _consts(self, body):
        out = []
        for st in body:
            if isinstance(st, ast.Assign) and len(st.targets) == 1 and isinstance(st.targets[0], ast.Name) \
                    and st.targets[0].id.isupper():
                out.append(ast.AnnAssign(target=st.targets[0], annotation=ast.Constant(value='Final'), value=st.value, simple=1))
            else:
                out.append(st)
        return out

    def visit_ClassDef(self, node):
        self.generic_visit(node)
        node.body = self._consts(node.body)
        return node

    def visit_Module(self, node):
        self.generic_visit(node)
        node.body = self._consts(node.body)
        return node


class IfToIfExp(ast.NodeTransformer):
    """if c: x = a  else: x = b   ->   x = a if c else b   (same single plain target in both branches)."""

    def visit_If(self, node):
        self.generic_visit(node)
        if len(node.body) == 1 and len(node.orelse) == 1 and isinstance(node.body[0], ast.Assign) and isinstance(node.orelse[0], ast.Assign):
            a, b = node.body[0], node.orelse[0]
            if len(a.targets) == 1 and len(b.targets) == 1 and isinstance(a.targets[0], ast.Name) and isinstance(b.targets[0], ast.Name) \
                    and a.targets[0].id == b.targets[0].id:
                return ast.Assign(targets=[ast.Name(id=a.targets[0].id, ctx=ast.Store())], value=ast.IfExp(test=node.test, body=a.value, orelse=b.value))
        return node


class GetNoneAndFlipIs(ast.NodeTransformer):
    """d.get(k) -> d.get(k, None);  x is None -> None is x;  x is not None -> None is not x."""

    def visit_Call(self, node):
        self.generic_visit(node)
        if isinstance(node.func, ast.Attribute) and node.func.attr == 'get' and len(node.args) == 1 and not node.keywords:
            node.args.append(ast.Constant(value=None))
        return node

    def visit_Compare(self, node):
        self.generic_visit(node)
        if len(node.ops) == 1 and isinstance(node.ops[0], (ast.Is, ast.IsNot)) and isinstance(node.comparators[0], ast.Constant) \
                and node.comparators[0].value is None:
            return ast.Compare(left=node.comparators[0], ops=node.ops, comparators=[node.left])
        return node


class HoistBytes(ast.NodeTransformer):
    """Every bytes literal used inside a function becomes a private module-level constant (_BYTES_n = b'...')."""

    def __init__(self):
        self.table = {}
        self.infn = 0

    def visit_FunctionDef(self, node):
        self.infn += 1
        # defaults and decorators stay literals
        node.body = [self.visit(b) for b in node.body]
        self.infn -= 1
        return node

    def visit_Constant(self, node):
        if self.infn and isinstance(node.value, bytes):
            name = self.table.setdefault(node.value, '_BYTES_%d' % len(self.table))
            return ast.Name(id=name, ctx=ast.Load())
        return node

    def visit_Module(self, node):
        self.generic_visit(node)
        if self.table:
            i = 0
            while i < len(node.body) and (isinstance(node.body[i], (ast.Import, ast.ImportFrom)) or
                                          (isinstance(node.body[i], ast.Expr) and isinstance(node.body[i].value, ast.Constant))):
                i += 1
            defs = [ast.Assign(targets=[ast.Name(id=n, ctx=ast.Store())], value=ast.Constant(value=v)) for v, n in self.table.items()]
            node.body[i:i] = defs
        return node


class InlineTemp(ast.NodeTransformer):
    """v = <expr>  immediately followed by a simple statement that reads v exactly once, v being used nowhere else in the
    function: the expression is inlined (only when the reading statement evaluates nothing before v that could matter:
    v is the first name evaluated, conservatively approximated by 'expr is a name/attribute/constant/subscript/call-free')."""

    def visit_FunctionDef(self, node):
        self.generic_visit(node)
        counts = {}
        for n in ast.walk(node):
            if isinstance(n, ast.Name):
                counts.setdefault(n.id, [0, 0])[0 if isinstance(n.ctx, ast.Store) else 1] += 1
        node.body = self._block(node.body, counts)
        return node

    def _block(self, body, counts):
        out = []
        i = 0
        while i < len(body):
            st = body[i]
            for f in ('body', 'orelse', 'finalbody'):
                if hasattr(st, f) and isinstance(getattr(st, f), list) and not isinstance(st, (ast.FunctionDef, ast.ClassDef)):
                    setattr(st, f, self._block(getattr(st, f), counts))
            if isinstance(st, ast.Try):
                for h in st.handlers:
                    h.body = self._block(h.body, counts)
            nxt = body[i + 1] if i + 1 < len(body) else None
            if isinstance(st, ast.Assign) and len(st.targets) == 1 and isinstance(st.targets[0], ast.Name) and nxt is not None \
                    and isinstance(nxt, (ast.Assign, ast.Return, ast.Expr)) and counts.get(st.targets[0].id) == [1, 1] \
                    and not any(isinstance(x, (ast.Call, ast.Yield, ast.Await, ast.NamedExpr)) for x in ast.walk(st.value)):
                v = st.targets[0].id
                uses = [x for x in ast.walk(nxt) if isinstance(x, ast.Name) and x.id == v and isinstance(x.ctx, ast.Load)]
                if len(uses) == 1:
                    class R(ast.NodeTransformer):
                        def visit_Name(self_, n):
                            return st.value if (n.id == v and isinstance(n.ctx, ast.Load)) else n
                    out.append(R().visit(nxt))
                    i += 2
                    continue
            out.append(st)
            i += 1
        return out


KINDS = {'unparse': None, 'rename-locals': RenameLocals, 'negate-if': NegateIf, 'expand-augassign': ExpandAug, 'else-pass': ElifToNested, 'rename-private': RenamePrivate, 'return-temp': ReturnTemp, 'split-and': SplitAnd, 'sort-methods': SortMethods, 'frozensets': SetToFrozenset, 'dict-calls': DictLiteralToCall, 'rename-private-params': RenamePrivateParams, 'flip-compare': FlipCompare, 'kw-to-positional': KeywordsToPositional, 'annotate': Annotate, 'if-to-ifexp': IfToIfExp, 'get-none-flip-is': GetNoneAndFlipIs, 'hoist-bytes': HoistBytes, 'inline-temp': InlineTemp}


def main():
    kind, root = sys.argv[1], sys.argv[2]
    only = sys.argv[3:] or FILES
    if kind == 'kw-to-positional':
        KeywordsToPositional.sigs = private_sigs(root, only)
    if kind == 'rename-private-params':
        RenamePrivateParams.table = private_params(root, only)
    if kind == 'rename-private':
        RenamePrivate.table = private_names(root, only)
    for rel in only:
        p = os.path.join(root, 'python', 'pydiffx', rel)
        tree = ast.parse(open(p).read())
        tr = KINDS[kind]
        if tr is not None:
            tree = tr().visit(tree)
        ast.fix_missing_locations(tree)
        open(p, 'w').write(ast.unparse(tree) + '\n')


if __name__ == '__main__':
    main()
