#!/venv/bin/python
"""Regenerate MANIFEST.json from the table below (kept valid at all times)."""
import json, os
HERE = os.path.dirname(os.path.dirname(os.path.abspath(__file__)))

CLAIMED = {}   # pid -> dict(category, text, note, technique, design_ref)
NA = {}        # pid -> reason

exec(open(os.path.join(HERE, 'tools', 'manifest_table.py')).read())

props = [json.loads(l)['id'] for l in open(os.path.join(HERE, 'properties.jsonl'))]
checks = []
for pid in props:
    if pid in CLAIMED:
        c = dict(CLAIMED[pid])
        # the rule list of the committed evidence (clean-tree run) is appended, so that the claim always names
        # exactly the rules the check applies
        ev = os.path.join(HERE, 'evidence', '%s.json' % pid)
        if os.path.exists(ev):
            try:
                rules = json.load(open(ev))['coverage']['rules']
                c['text'] = c['text'].rstrip() + ' Rules applied: ' + '; '.join('%s %s' % (rid, r['desc']) for rid, r in rules.items()) + '.'
            except Exception:
                pass
        checks.append({
            'property_id': pid,
            'quick_cmd': './check %s --tier quick' % pid,
            'thorough_cmd': './check %s --tier thorough' % pid,
            'evidence_file': 'evidence/%s.json' % pid,
            'replay_cmd_template': './check %s --explain {path}' % pid,
            'engine': 'sa',
            'level_claimed': {'category': c['category'], 'text': c['text'], 'design_ref': c.get('design_ref', 'DESIGN.md section 3 ' + pid)},
            'level_note': c['note'],
            'technique': c['technique'],
        })
na = [{'property_id': pid, 'reason': NA[pid]} for pid in props if pid not in CLAIMED]
for pid in props:
    assert pid in CLAIMED or pid in NA, pid
m = {
    'version': 1,
    'setup_cmd': '/venv/bin/python -m compileall -q sa check >/dev/null 2>&1; /venv/bin/python -c "import ast, re, json"',
    'hooks': {'guard': 'PYDIFFX_VERIF', 'enable': 'none needed: the checks read source text only; no hook exists in /repo',
              'baseline_off_cmd': 'cd /repo && /venv/bin/python -m pytest -ra -q -p no:cacheprovider --timeout=900 --continue-on-collection-errors',
              'source_commits': [], 'add_only': True},
    'engines': [{'name': 'sa', 'path': 'sa/', 'serves_properties': sorted(CLAIMED),
                 'kind_free_text': 'repository-specific static analysis: AST program model + constant folder, regex->DFA language engine, path-forking abstract interpreter with taint/kind/fact domains and sink table, finite-state exploration with concrete section ids'}],
    'checks': checks,
    'not_applicable': na,
    'notes': 'Static analysis only: pydiffx is never imported or executed; see DESIGN.md. Known findings: known_findings.jsonl.',
}
json.dump(m, open(os.path.join(HERE, 'MANIFEST.json'), 'w'), indent=1)
print('claimed', sorted(CLAIMED), 'na', sorted(x['property_id'] for x in na))
