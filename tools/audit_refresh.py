#!/venv/bin/python
"""tools/audit_refresh.py <benign or seeded patch name> ...
Re-run the quick check of every property (or those given with --props C01,C02) against the named patches on scratch
copies of /repo HEAD and replace the corresponding entries of audit/<id>.json (used after a check was corrected, so that
the kept audit files describe the checks as committed)."""
import json, os, sys
HERE = os.path.dirname(os.path.dirname(os.path.abspath(__file__)))
sys.path.insert(0, HERE)
from sa import audit as A
from concurrent.futures import ThreadPoolExecutor
import shutil, subprocess

args = [a for a in sys.argv[1:] if not a.startswith('--')]
props = None
if '--props' in sys.argv:
    props = sys.argv[sys.argv.index('--props') + 1].split(',')
    args = [a for a in args if a != ','.join(props)]
ad = os.path.join(HERE, 'audit')
pids = props or sorted(f[:-5] for f in os.listdir(ad) if f.endswith('.json'))


def one(job):
    pid, name = job
    kind = 'seeded' if os.path.isdir(os.path.join(HERE, 'seeded', name)) else 'benign'
    patch = os.path.join(HERE, kind, name, 'patch.diff')
    tmp = A._scratch()
    try:
        subprocess.run(['git', 'init', '-q'], cwd=tmp)
        if subprocess.run(['git', 'apply', patch], cwd=tmp, capture_output=True).returncode:
            return pid, name, kind, {'result': 'patch does not apply to the current tree'}
        rc, first = A._run(pid, tmp)
        return pid, name, kind, {'exit': rc, 'report': first}
    finally:
        shutil.rmtree(tmp, ignore_errors=True)


jobs = [(p, n) for p in pids for n in args if not (os.path.isdir(os.path.join(HERE, 'seeded', n)) and not n.startswith(p + '-'))]
with ThreadPoolExecutor(max_workers=int(os.environ.get('VERIF_AUDIT_JOBS', '8'))) as ex:
    res = list(ex.map(one, jobs))
for pid in pids:
    fp = os.path.join(ad, pid + '.json')
    a = json.load(open(fp))
    for p_, name, kind, rec in res:
        if p_ != pid:
            continue
        lst, key = (a['seeds'], 'seed') if kind == 'seeded' else (a['benign_refactorings'], 'patch')
        for i, e in enumerate(lst):
            if e.get(key) == name:
                lst[i] = dict({key: name}, **rec)
                break
        else:
            lst.append(dict({key: name}, **rec))
        print(pid, name, rec.get('exit'), rec.get('report', '')[:100])
    b = a['benign_refactorings']
    sm = a['summary']
    sm['benign_refactorings'] = len([x for x in b if 'exit' in x])
    sm['benign_refactorings_silent'] = sum(1 for x in b if x.get('exit') == 0)
    sm['benign_refactorings_false_alarm'] = sum(1 for x in b if x.get('exit') == 1)
    sm['benign_refactorings_not_analysable'] = sum(1 for x in b if x.get('exit') == 2)
    sm['seeded_changes'] = len([x for x in a['seeds'] if 'exit' in x])
    sm['seeded_detected'] = sum(1 for x in a['seeds'] if x.get('exit') == 1)
    json.dump(a, open(fp, 'w'), indent=1)
