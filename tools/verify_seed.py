#!/venv/bin/python
"""tools/verify_seed.py <seed dir> [--checks ids,...]
Confirms a seeded change in a scratch worktree of /repo HEAD (removed afterwards):
patch applies, the pinned suite passes with it, demo.py fails with it and passes without it.
Then runs the registered checks against it in /repo (applied and undone) and records which fire."""
import json, os, shutil, subprocess, sys, tempfile
HERE = os.path.dirname(os.path.dirname(os.path.abspath(__file__)))
PY = '/venv/bin/python'


def sh(cmd, cwd=None, timeout=600, env=None):
    try:
        p = subprocess.run(cmd, cwd=cwd, capture_output=True, text=True, timeout=timeout, env=env)
        return p.returncode, p.stdout + p.stderr
    except subprocess.TimeoutExpired:
        return 124, 'TIMEOUT'


def main():
    d = os.path.abspath([a for a in sys.argv[1:] if not a.startswith('--')][0])
    checks = None
    if '--checks' in sys.argv:
        checks = sys.argv[sys.argv.index('--checks') + 1].split(',')
    patch = os.path.join(d, 'patch.diff')
    demo = os.path.join(d, 'demo.py')
    meta_p = os.path.join(d, 'meta.json')
    meta = json.load(open(meta_p)) if os.path.exists(meta_p) else {}
    wt = tempfile.mkdtemp(prefix='seedwt_', dir='/tmp')
    os.rmdir(wt)
    res = {}
    try:
        rc, out = sh(['git', '-C', '/repo', 'worktree', 'add', '--detach', wt, 'HEAD'])
        assert rc == 0, out
        env = dict(os.environ, PYTHONPATH=os.path.join(wt, 'python'))
        rc, out = sh([PY, demo], cwd=wt, env=env, timeout=300)
        res['demo_clean_exit'] = rc
        rc, out = sh(['git', '-C', wt, 'apply', patch])
        res['applies'] = rc == 0
        if rc != 0:
            print('PATCH DOES NOT APPLY:', out[:300])
        else:
            rc, out = sh(['timeout', '600', PY, '-m', 'pytest', '-q', '-p', 'no:cacheprovider', '--timeout=60'], cwd=wt, timeout=700)
            tail = out.strip().splitlines()[-1] if out.strip() else ''
            res['suite'] = tail
            res['suite_ok'] = rc == 0 and '176 passed' in tail
            rc, out = sh([PY, demo], cwd=wt, env=env, timeout=300)
            res['demo_patched_exit'] = rc
            res['demo_patched_tail'] = out.strip().splitlines()[-1][:200] if out.strip() else ''
    finally:
        sh(['git', '-C', '/repo', 'worktree', 'remove', '--force', wt])
        shutil.rmtree(wt, ignore_errors=True)
    ok = res.get('applies') and res.get('suite_ok') and res.get('demo_clean_exit') == 0 and res.get('demo_patched_exit') not in (0, None)
    res['confirmed'] = bool(ok)
    print(json.dumps(res, indent=1))
    fired = {}
    if ok:
        cmd = [os.path.join(HERE, 'tools', 'seedrun.py')] + (['--in-repo'] if '--in-repo' in sys.argv else []) + [patch] + (checks or [])
        rc, out = sh(cmd, cwd=HERE, timeout=3000)
        for line in out.splitlines():
            parts = line.split()
            if len(parts) >= 3 and parts[1].startswith('exit='):
                fired[parts[0]] = {'exit': int(parts[1][5:]), 'violations': int(parts[2].split('=')[1])}
        print(out)
    head = subprocess.run(['git', '-C', '/repo', 'rev-parse', '--short', 'HEAD'], capture_output=True, text=True).stdout.strip()
    meta.setdefault('verification', {})
    meta['verification'] = {'repo_head': head, 'what_was_run': [
        'git worktree of /repo HEAD under /tmp (removed afterwards)', 'git apply patch.diff',
        'timeout 600 /venv/bin/python -m pytest -q -p no:cacheprovider --timeout=60  (176 passed required)',
        'PYTHONPATH=<wt>/python /venv/bin/python demo.py on the patched tree (must exit non-zero) and on the clean tree (must print PASS, exit 0)',
        'tools/seedrun.py [--in-repo] patch.diff  (apply the patch, run the registered quick checks against it, undo)'], 'result': res, 'checks': fired}
    json.dump(meta, open(meta_p, 'w'), indent=1)
    return 0 if ok else 1


if __name__ == '__main__':
    sys.exit(main())
