#!/venv/bin/python
"""tools/selftest.py [--jobs N] [name-filter]
Sensitivity audit of the checks: each variant is a small edit applied to a scratch copy of /repo's
HEAD tree (never to /repo); 'break' variants must make at least one of the listed checks exit 1,
'benign' variants (behaviour-preserving rewrites) must leave the listed checks at exit 0.
Writes selftest_results.json. Exit 0 iff every expectation holds."""
import concurrent.futures, json, os, shutil, subprocess, sys, tempfile
HERE = os.path.dirname(os.path.dirname(os.path.abspath(__file__)))
R = 'python/pydiffx/reader.py'
W = 'python/pydiffx/writer.py'
T = 'python/pydiffx/utils/text.py'
U = 'python/pydiffx/utils/unified_diffs.py'
O = 'python/pydiffx/dom/objects.py'
PR = 'python/pydiffx/dom/properties.py'
DR = 'python/pydiffx/dom/reader.py'
DW = 'python/pydiffx/dom/writer.py'
S = 'python/pydiffx/sections.py'
L = 'python/pydiffx/integrations/pygments_lexer.py'

V = []


def v(name, kind, checks, file, *edits):
    V.append({'name': name, 'kind': kind, 'checks': checks, 'file': file, 'edits': edits})


# ---- C04 / scopes
v('c04-reader-lt', 'break', ['C04'], R, ('if level <= prev_container_level:', 'if level < prev_container_level:'))
v('c04-diff-inherits', 'break', ['C04'], R, ("encoding=options.get('encoding'),\n                        line_endings=options.get('line_endings'),\n                        preserve_trailing_newline=True",
                                           "encoding=options.get('encoding', encodings[-1]),\n                        line_endings=options.get('line_endings'),\n                        preserve_trailing_newline=True"))
v('c04-writer-pop-off-by-one', 'break', ['C04'], W, ('range(self._cur_section_level - section_level + 1)', 'range(self._cur_section_level - section_level)'))
v('c04-benign-del-slice', 'benign', ['C04', 'C01', 'C10'], R,
  ('                        for i in range(prev_container_level - level + 1):\n                            encodings.pop()\n',
   '                        del encodings[level + 1:]\n'))
v('c04-benign-rename', 'benign', ['C04', 'C10', 'C08'], R, ('prev_container_level', 'last_container_level'))
# ---- C10
v('c10-initial-set', 'break', ['C10'], R, ('valid_sections = {Section.MAIN}', 'valid_sections = {Section.MAIN, Section.CHANGE}'))
v('c10-extra-edge', 'break', ['C10', 'C09'], S, ('    Section.FILE: {\n        Section.FILE_META,\n    },', '    Section.FILE: {\n        Section.FILE_META,\n        Section.FILE_DIFF,\n    },'))
v('c10-update-only-containers', 'break', ['C10'], R,
  ('                prev_container_level = level\n\n            # Set the new list of valid exceptions allowed at this stage of\n            # parsing.\n            valid_sections = VALID_SECTION_STATES[section_id]\n',
   '                prev_container_level = level\n                valid_sections = VALID_SECTION_STATES[section_id]\n\n'))
v('c10-benign-rename', 'benign', ['C10', 'C11', 'C04'], R, ('valid_sections', 'allowed_sections'))
# ---- C11
v('c11-value-prefix-match', 'break', ['C11'], R, ('self._HEADER_OPTION_VALUE_RE.fullmatch(option_value)', 'self._HEADER_OPTION_VALUE_RE.match(option_value)'))
v('c11-key-class', 'break', ['C11'], R, ("br'[A-Za-z][A-Za-z0-9_-]*'", "br'[A-Za-z][A-Za-z0-9-]*'"))
v('c11-no-dollar', 'break', ['C11'], R, ("(?:, [^=\\s,]+=[^\\s,]+)*))?$'", "(?:, [^=\\s,]+=[^\\s,]+)*))?'"))
v('c11-benign-anchored-match', 'benign', ['C11', 'C12', 'C08'], R,
  ("re.compile(br'[A-Za-z][A-Za-z0-9_-]*')", "re.compile(br'[A-Za-z][A-Za-z0-9_-]*\\Z')"),
  ("re.compile(br'[A-Za-z0-9/_.-]+')", "re.compile(br'[A-Za-z0-9/_.-]+\\Z')"),
  ('self._HEADER_OPTION_KEY_RE.fullmatch(option_key)', 'self._HEADER_OPTION_KEY_RE.match(option_key)'),
  ('self._HEADER_OPTION_VALUE_RE.fullmatch(option_value)', 'self._HEADER_OPTION_VALUE_RE.match(option_value)'))
# ---- C09 / C02
v('c09-validate-after-mutation', 'break', ['C09'], W,
  ('        section = self._build_section(section_level, section_name)\n        self._validate_section(section)\n\n        # Build the header up-front.',
   '        section = self._build_section(section_level, section_name)\n\n        # Build the header up-front.'),
  ("            'encoding': encoding or self._cur_encoding,\n        })\n\n        self._write_section_header(section, header)",
   "            'encoding': encoding or self._cur_encoding,\n        })\n        self._validate_section(section)\n\n        self._write_section_header(section, header)"))
v('c09-falsy-line-endings-accepted', 'break', ['C09'], W, ('        if (line_endings is not None and\n            line_endings not in LineEndings.VALID_VALUES):', '        if (line_endings and\n            line_endings not in LineEndings.VALID_VALUES):'))
v('c09-mimetype-unchecked', 'break', ['C09'], W, ('        if (mimetype is not None and\n            mimetype not in PreambleMimeType.VALID_VALUES):', '        if (mimetype is not None and False and\n            mimetype not in PreambleMimeType.VALID_VALUES):'))
v('c09-benign-choice-helper', 'benign', ['C09', 'C02', 'C05'], W,
  ('        if (line_endings is not None and\n            line_endings not in LineEndings.VALID_VALUES):\n            raise DiffXOptionValueChoiceError(\n                option=\'line_endings\',\n                value=line_endings,\n                choices=LineEndings.VALID_VALUES)\n',
   '        self._check_choice(\'line_endings\', line_endings, LineEndings.VALID_VALUES)\n'),
  ('    def _build_section(self, level, section_name):', '    def _check_choice(self, option, value, choices):\n        if value is None:\n            return\n        if value not in choices:\n            raise DiffXOptionValueChoiceError(option=option, value=value, choices=choices)\n\n    def _build_section(self, level, section_name):'))
v('c09-seek-before-write', 'break', ['C09'], W, ('        self.fp.write(header)\n', '        self.fp.seek(0, 2)\n        self.fp.write(header)\n'))
v('c09-header-after-write', 'break', ['C09'], W,
  ('        header = self._build_section_header(section, **header_options)\n\n        self._write_section_header(section, header)\n        self.fp.write(content)',
   '        self.fp.write(b\'\')\n        header = self._build_section_header(section, **header_options)\n\n        self._write_section_header(section, header)\n        self.fp.write(content)'))
v('c02-no-space-after-colon', 'break', ['C02'], W, ("            header += b' ' + options_str.encode('ascii')", "            header += options_str.encode('ascii')"))
v('c02-comma-without-space', 'break', ['C02'], W, ("        options_str = ', '.join(", "        options_str = ','.join("))
v('c02-header-utf8', 'break', ['C02'], W, ("            header += b' ' + options_str.encode('ascii')", "            header += b' ' + options_str.encode('utf-8')"))
v('c02-crlf-header', 'break', ['C02'], W, ("        return header + b'\\n'\n\n    def _write_section_header", "        return header + b'\\r\\n'\n\n    def _write_section_header"))
v('c02-benign-single-format', 'benign', ['C02', 'C09', 'C01'], W,
  ("        header = b'#%s:' % section.encode('ascii')\n\n        if options_str:\n            header += b' ' + options_str.encode('ascii')\n\n        return header + b'\\n'\n",
   "        if options_str:\n            text = '#%s: %s\\n' % (section, options_str)\n        else:\n            text = '#%s:\\n' % section\n\n        return text.encode('ascii')\n"))
v('c02-unsorted', 'break', ['C02'], W, ("for _key, _value in sorted(options.items(),\n                                       key=lambda pair: pair[0])", "for _key, _value in options.items()"))
v('c02-json-indent', 'break', ['C02'], W, ('indent=4,\n                               separators', 'indent=2,\n                               separators'))
v('c02-tab-indent', 'break', ['C02'], W, ("indent_str = b' ' * indent", "indent_str = b'\\t' * indent"))
v('c02-benign-format', 'benign', ['C02', 'C09', 'C01'], W, ("'%s=%s' % (_key, _value)", "'{}={}'.format(_key, _value)"))
v('c02-no-value-validation', 'break', ['C02', 'C09'], W, ("not self._HEADER_OPTION_VALUE_RE.fullmatch('%s' % _value)", "False"))
# ---- C19 / C18
v('c19-store-before-choices', 'break', ['C19'], PR,
  ('        if self.choices and value not in self.choices:\n            raise DiffXOptionValueChoiceError(\n                option=self.option_name,\n                value=value,\n                choices=self.choices)\n\n        instance.options[self.option_name] = value',
   '        instance.options[self.option_name] = value\n\n        if self.choices and value not in self.choices:\n            raise DiffXOptionValueChoiceError(\n                option=self.option_name,\n                value=value,\n                choices=self.choices)'))
v('c19-no-slots-mixin', 'break', ['C19'], PR, ("    encoding = EncodingOptionProperty()\n\n    __slots__ = ()", "    encoding = EncodingOptionProperty()"))
v('c19-eq-drops-content', 'break', ['C19'], O, ("            super(BaseDiffXContentSection, self).__eq__(other) and\n            self.content == other.content", "            super(BaseDiffXContentSection, self).__eq__(other)"))
v('c19-benign-slots-order', 'benign', ['C19', 'C18'], O, ("        'options',\n        'section_id',\n        '_level',", "        '_level',\n        'section_id',\n        'options',"))
v('c18-shared-default-options', 'break', ['C18'], O, ('self.options = self.default_options.copy()', 'self.options = self.default_options'))
v('c18-shared-default-value', 'break', ['C18'], O, ('self._content = deepcopy(self.default_value)', 'self._content = self.default_value'))
v('c18-benign-dict-copy', 'benign', ['C18', 'C19'], O, ('self.options = self.default_options.copy()', 'self.options = dict(self.default_options)'))
v('c18-read-after-handout', 'break', ['C18'], R,
  ("            valid_sections = VALID_SECTION_STATES[section_id]\n\n            # Pass that section up to the caller for processing.\n            yield section\n",
   "            # Pass that section up to the caller for processing.\n            yield section\n\n            valid_sections = VALID_SECTION_STATES[section['section']]\n"))
v('c18-benign-yield-then-local', 'benign', ['C18', 'C10'], R,
  ("            valid_sections = VALID_SECTION_STATES[section_id]\n\n            # Pass that section up to the caller for processing.\n            yield section\n",
   "            # Pass that section up to the caller for processing.\n            yield section\n\n            valid_sections = VALID_SECTION_STATES[section_id]\n"))
v('c18-valid-states-mutated', 'break', ['C18', 'C10'], R, ('            valid_sections = VALID_SECTION_STATES[section_id]\n', '            valid_sections = VALID_SECTION_STATES[section_id]\n            valid_sections.discard(Section.MAIN)\n'))
v('c08-decode-handler-narrowed', 'break', ['C08'], R, ('            except UnicodeError:', '            except UnicodeDecodeError:'))
v('c12-int-kept-only-if-canonical', 'break', ['C12'], R,
  ("                try:\n                    option_value = int(option_value)\n                except ValueError:\n                    pass\n",
   "                try:\n                    int_value = int(option_value)\n\n                    if '%d' % int_value == option_value:\n                        option_value = int_value\n                except ValueError:\n                    pass\n"))
v('c13-merge-by-rebuild-benign', 'benign', ['C13', 'C18'], O,
  ("            'lines changed': total_deletes + total_inserts,\n        }\n\n        # Set the computed stats. Don't override the key if there's something\n        # already there, since it might contain some custom stats.\n        if 'stats' in self.meta:\n            self.meta['stats'].update(stats)\n        else:\n            self.meta['stats'] = stats\n",
   "            'lines changed': total_deletes + total_inserts,\n        }\n\n        self.meta['stats'] = dict(self.meta.get('stats', {}), **stats)\n"))
v('c13-merge-reversed', 'break', ['C13'], O,
  ("            'lines changed': total_deletes + total_inserts,\n        }\n\n        # Set the computed stats. Don't override the key if there's something\n        # already there, since it might contain some custom stats.\n        if 'stats' in self.meta:\n            self.meta['stats'].update(stats)\n        else:\n            self.meta['stats'] = stats\n",
   "            'lines changed': total_deletes + total_inserts,\n        }\n\n        self.meta['stats'] = dict(stats, **self.meta.get('stats', {}))\n"))
v('c13-lines-changed-derived', 'break', ['C13'], O,
  ("            stats['lines changed'] += file_stats.get('lines changed', 0)\n", "            stats['lines changed'] = stats['insertions'] + stats['deletions']\n"))
v('c18-iterator-memoised', 'break', ['C18'], T,
  ("def split_lines(data, newline, keep_ends=False):", "import functools\n\n\n@functools.lru_cache(maxsize=None)\ndef _iter_lines(data, newline):\n    return iter(data.split(newline))\n\n\ndef split_lines(data, newline, keep_ends=False):"))
# ---- C20
v('c20-uncaptured-newline', 'break', ['C20'], L, ("_header_options = r'(?:( )([^\\n]*))?(\\n)'", "_header_options = r'(?:( )([^\\n]*))?\\n'"))
v('c20-empty-rule', 'break', ['C20'], L, ("            (r'.*\\n', Text),\n        ],\n\n        'diff'", "            (r'.*\\n', Text),\n            (r'', Text),\n        ],\n\n        'diff'"))
v('c20-bad-state', 'break', ['C20'], L, ("using(this, state='diff')", "using(this, state='diffs')"))
v('c20-diff-two-dots', 'break', ['C20'], L, ("(r'(#\\.{3}diff:)'", "(r'(#\\.{2}diff:)'"))
v('c20-benign-token', 'benign', ['C20'], L, ('Name.Tag', 'Name.Label'))
# ---- C15
v('c15-no-canonicalisation', 'break', ['C15'], T, ('            encoding = codecs.lookup(encoding).name\n', '            encoding = encoding.lower()\n'))
v('c15-strip-dropped', 'break', ['C15', 'C02'], W, ('        newline = strip_bom(newline,\n                            encoding=encoding)\n', ''))
v('c15-benign-helper', 'benign', ['C15', 'C08', 'C09'], T,
  ('def strip_bom(data, encoding):', 'def _canonical(encoding):\n    return codecs.lookup(encoding).name\n\n\ndef strip_bom(data, encoding):'),
  ('            encoding = codecs.lookup(encoding).name\n', '            encoding = _canonical(encoding)\n'))
# ---- C14 / C13
v('c17-benign-tell-absolute', 'benign', ['C17', 'C07', 'C09'], R,
  ("                fp.seek(i + 1 - len(chunk), os.SEEK_CUR)", "                fp.seek(start + i + 1)"),
  ("            chunk = fp.read(chunk_size)\n", "            start = fp.tell()\n            chunk = fp.read(chunk_size)\n"))
v('c17-absolute-off-by-one', 'break', ['C17'], R,
  ("                fp.seek(i + 1 - len(chunk), os.SEEK_CUR)", "                fp.seek(start + i)"),
  ("            chunk = fp.read(chunk_size)\n", "            start = fp.tell()\n            chunk = fp.read(chunk_size)\n"))
v('c14-no-init', 'break', ['C14'], U, ('    hunk_modified_i = 0\n    line_num = 0\n', '    hunk_modified_i = 0\n'))
v('c14-marker-counts', 'break', ['C14'], U, ("            elif line.strip() != NO_NEWLINE_MARKER:\n                # We shouldn't have encountered this. This will be a corrupt\n                # diff. We'll process this at the end of this loop iteration.\n                found_garbage = True",
                                             "            elif line.strip() != NO_NEWLINE_MARKER:\n                found_garbage = True\n            else:\n                hunk_orig_i += 1"))
v('c14-geo-last-changed-before', 'break', ['C14'], U,
  ("                cur_hunk_modified['num_lines_changed'] += 1\n                cur_hunk_modified['last_changed_line'] = \\\n                    cur_hunk_modified['start_line'] + hunk_modified_i\n\n                total_inserts += 1\n                hunk_modified_i += 1",
   "                cur_hunk_modified['num_lines_changed'] += 1\n                total_inserts += 1\n                hunk_modified_i += 1\n                cur_hunk_modified['last_changed_line'] = \\\n                    cur_hunk_modified['start_line'] + hunk_modified_i"))
v('c14-geo-start-one-based', 'break', ['C14'], U, ("'start_line': modified_start - 1,", "'start_line': modified_start,"))
v('c14-geo-context-bumps-one-side', 'break', ['C14'], U, ("                hunk_orig_i += 1\n                hunk_modified_i += 1\n            elif line.strip()", "                hunk_orig_i += 1\n            elif line.strip()"))
v('c14-geo-benign-redundant-reset', 'benign', ['C14'], U, ("                hunk_orig_i = 0\n                hunk_modified_i = 0\n            else:", "                hunk_orig_i = 0\n            else:"))
v('c14-geo-no-reset', 'break', ['C14'], U, ("                hunk_orig_i = 0\n                hunk_modified_i = 0\n            else:", "                hunk_orig_i = 0\n            else:"),
  ("            cur_hunk_entry = None\n            hunk_orig_i = 0\n            hunk_modified_i = 0\n", "            cur_hunk_entry = None\n            hunk_orig_i = 0\n"))
v('c14-geo-default-count-zero', 'break', ['C14'], U, ("m.group('modified_num_lines') or '1')", "m.group('modified_num_lines') or '0')"))
v('c14-geo-benign-reorder', 'benign', ['C14', 'C13'], U,
  ("                total_deletes += 1\n                hunk_orig_i += 1\n", "                hunk_orig_i += 1\n                total_deletes += 1\n"))
v('c14-benign-tuple-init', 'benign', ['C14', 'C13'], U, ('    hunk_modified_i = 0\n    line_num = 0\n', '    hunk_modified_i, line_num = 0, 0\n'))
v('c13-overwrite-stats', 'break', ['C13'], O,
  ("        if 'stats' in self.meta:\n            self.meta['stats'].update(stats)\n        else:\n            self.meta['stats'] = stats\n\n    def _setup_state(self):\n        \"\"\"Set up subsections and subsection-related state.\"\"\"\n        self.meta_section = DiffXMetaSection(parent_section=self)\n        self.diff_section",
   "        self.meta['stats'] = stats\n\n    def _setup_state(self):\n        \"\"\"Set up subsections and subsection-related state.\"\"\"\n        self.meta_section = DiffXMetaSection(parent_section=self)\n        self.diff_section"))
v('c13-key-typo', 'break', ['C13'], O, ("file_stats.get('insertions', 0)", "file_stats.get('insertion', 0)"))
# ---- C03-R7 line accounting / C17-R8 constant window
v('c03-linenum-count-newlines', 'break', ['C03'], R, ('        self._linenum += len(lines)', '        self._linenum += content.count(newline)'))
v('c03-linenum-header-in-loop', 'break', ['C03'], R,
  ('            if header.strip():\n                break\n', '            self._linenum += 1\n\n            if header.strip():\n                break\n'),
  ('        self._linenum += 1\n\n        return {', '        return {'))
v('c03-line-after-increment', 'break', ['C03'], R, ("            'line': linenum,", "            'line': self._linenum,"))
v('c03-benign-linenum-local-count', 'benign', ['C03', 'C08', 'C07'], R,
  ('        self._linenum += len(lines)', '        num_lines = len(lines)\n        self._linenum = self._linenum + num_lines'))
v('c17-sniff-window', 'break', ['C17', 'C03'], T, ('    i = text.find(unix_newline)\n', '    i = text.find(unix_newline, 0, 2048)\n'))
# (C03-R4 declines this spelling of the first-line test with ANALYSIS-ERROR, exit 2: an idiom it does not evaluate - never a verdict)
v('c17-benign-computed-slice', 'benign', ['C17'], T,
  ('text[:i + len(unix_newline)].endswith(dos_newline)', 'text[max(0, i + len(unix_newline) - len(dos_newline)):i + len(unix_newline)] == dos_newline'))
# ---- C17 / C07 / C12 / C03 / C08 / C01 / C05 / C06
v('c17-seek-off-by-one', 'break', ['C17', 'C07'], R, ('fp.seek(i + 1 - len(chunk), os.SEEK_CUR)', 'fp.seek(i - len(chunk), os.SEEK_CUR)'))
v('c17-chunk-slice', 'break', ['C17'], R, ('s.write(chunk[:i + 1])', 's.write(chunk[:min(i + 1, chunk_size - 1)])'))
v('c17-benign-seek-cur', 'benign', ['C17', 'C07'], R, ('os.SEEK_CUR)', '1)'))
v('c07-guard-weakened', 'break', ['C07', 'C08'], R, ('                if (not isinstance(length, int) or\n                    length < 1 or\n                    length > sys.maxsize):', '                if not isinstance(length, int):'))
v('c07-benign-split-guard', 'benign', ['C07', 'C08', 'C03'], R,
  ('                if (not isinstance(length, int) or\n                    length < 1 or\n                    length > sys.maxsize):\n                    raise DiffXParseError(',
   '                if not isinstance(length, int):\n                    raise DiffXParseError(\'bad length\', linenum=linenum)\n\n                if length < 1 or length > sys.maxsize:\n                    raise DiffXParseError('))
v('c12-known-keys-only', 'break', ['C12'], R, ('                options[option_key] = option_value\n', "                if option_key in ('encoding', 'length', 'indent', 'version'):\n                    options[option_key] = option_value\n"))
v('c03-version-optional', 'break', ['C03'], R, ('if diffx_version not in SpecVersion.VALID_VALUES:', 'if (diffx_version is not None and\n                        diffx_version not in SpecVersion.VALID_VALUES):'))
v('c03-json-handler-narrowed', 'break', ['C03', 'C08'], R, ("                        section['metadata'] = json.loads(content)\n                    except ValueError as e:", "                        section['metadata'] = json.loads(content)\n                    except KeyError as e:"))
v('c08-wrong-exception', 'break', ['C08'], R, ("            raise DiffXParseError(\n                'Expected a newline after content',\n                linenum=self._linenum)", "            raise ValueError('Expected a newline after content')"))
v('c08-benign-handler-tuple', 'benign', ['C08', 'C03'], R, ('                    except ValueError as e:\n                        raise DiffXParseError(\n                            \'JSON', '                    except (ValueError,) as e:\n                        raise DiffXParseError(\n                            \'JSON'))
v('c01-no-indent-strip', 'break', ['C01', 'C03'], R, ("                        indent=options.get('indent'),\n", ''))
v('c01-second-yield', 'break', ['C01', 'C03'], R, ('                prev_container_level = level\n', '                prev_container_level = level\n                yield section\n'))
v('c05-renamed-param', 'break', ['C05'], W, ('def write_diff(self, content, diff_type=None,', 'def write_diff(self, content, type_=None,'), ('if (diff_type is not None and\n            diff_type not in DiffType.VALID_VALUES):', 'if (type_ is not None and\n            type_ not in DiffType.VALID_VALUES):'), ("option='diff_type',\n                value=diff_type,", "option='diff_type',\n                value=type_,"), ('type=diff_type,', 'type=type_,'))
v('c05-pops-line-endings', 'break', ['C05', 'C06'], DR, ("        options.pop('length', None)\n", "        options.pop('length', None)\n        options.pop('line_endings', None)\n"))
v('c05-skip-short-content', 'break', ['C05'], DW, ('        if content:\n', '        if content and len(content) > 1:\n'))
v('c05-skip-diff-sections', 'break', ['C05'], DW, ('        if content:\n', "        if content and section.section_name != 'diff':\n"))
v('c05-benign-early-return', 'benign', ['C05', 'C06', 'C18'], DW,
  ("        if content:\n            write_func = getattr(writer, 'write_%s' % section.section_name)\n            write_func(content, **self._get_options(section))\n",
   "        if not content:\n            return\n\n        method = getattr(writer, 'write_%s' % section.section_name)\n        method(content, **self._get_options(section))\n"))
v('c05-handler-removed', 'break', ['C05'], DR, ('                Section.FILE_DIFF: self._read_diff_section,\n', ''))
v('c06-new-default', 'break', ['C06'], W, ('def write_diff(self, content, diff_type=None,', "def write_diff(self, content, diff_type='text',"))


v('c16-fabricated-newline', 'break', ['C16'], T, ("    elif keep_ends:\n        lines[-1] = lines[-1][:-len(newline)]\n", ""))
v('c16-splitlines', 'break', ['C16'], T, ("    lines = data.split(newline)\n", "    lines = data.splitlines()\n"))
v('c16-drop-last-always', 'break', ['C16'], T, ("    if data.endswith(newline):\n        lines.pop()\n    elif keep_ends:", "    lines.pop()\n    if False:\n        pass\n    elif keep_ends and False:"))
v('c16-benign-plus', 'benign', ['C16', 'C08', 'C01'], T, ("            b'%s%s' % (_line, newline)\n", "            _line + newline\n"))
v('c16-fastpath-benign', 'benign', ['C16', 'C01'], T, ("    lines = data.split(newline)\n", "    if newline not in data:\n        return [data]\n\n    lines = data.split(newline)\n"))
v('c16-fastpath-single-line', 'break', ['C16'], T, ("    lines = data.split(newline)\n", "    pos = data.find(newline)\n\n    if pos == -1 or pos + len(newline) == len(data):\n        return [data]\n\n    lines = data.split(newline)\n"))
v('c16-newline-in-template', 'break', ['C16'], T, ("            b'%s%s' % (_line, newline)\n", "            (b'%s' + newline) % _line\n"))
v('c16-benign-del', 'benign', ['C16', 'C08'], T, ("        lines.pop()\n", "        del lines[-1]\n"))


def run_variant(var, jobs_env):
    tmp = tempfile.mkdtemp(prefix='selftest_', dir='/tmp')
    out = {'name': var['name'], 'kind': var['kind'], 'results': {}, 'ok': False}
    try:
        subprocess.run('git -C /repo archive HEAD | tar -x -C %s' % tmp, shell=True, check=True)
        p = os.path.join(tmp, var['file'])
        s = open(p).read()
        for old, new in var['edits']:
            if s.count(old) < 1:
                out['error'] = 'edit anchor not found: %r' % old[:50]
                return out
            s = s.replace(old, new)
        open(p, 'w').write(s)
        c = subprocess.run(['/venv/bin/python', '-m', 'py_compile', p], capture_output=True, text=True)
        if c.returncode:
            out['error'] = 'variant does not compile'
            return out
        env = dict(os.environ, VERIF_REPO=tmp, VERIF_EVIDENCE_DIR=os.path.join(tmp, '_ev'), VERIF_JOBS=jobs_env)
        for pid in var['checks']:
            try:
                r = subprocess.run([os.path.join(HERE, 'check'), pid], capture_output=True, text=True, timeout=900, cwd=HERE, env=env)
                first = [l for l in r.stdout.splitlines() if '[' in l and not l.startswith(('VIOLATION', 'KNOWN'))][:1]
                err = [l for l in r.stdout.splitlines() if l.startswith('ANALYSIS-ERROR')][:1]
                out['results'][pid] = {'exit': r.returncode, 'first': (first or err or [''])[0][:260]}
            except subprocess.TimeoutExpired:
                out['results'][pid] = {'exit': 124, 'first': 'timeout'}
        exits = [x['exit'] for x in out['results'].values()]
        if var['kind'] == 'break':
            out['ok'] = 1 in exits
        else:
            out['ok'] = all(e == 0 for e in exits)
        return out
    finally:
        shutil.rmtree(tmp, ignore_errors=True)


def main():
    args = sys.argv[1:]
    jobs = 6
    if '--jobs' in args:
        jobs = int(args[args.index('--jobs') + 1])
        del args[args.index('--jobs'):args.index('--jobs') + 2]
    flt = args[0] if args else ''
    todo = [x for x in V if flt in x['name']]
    res = []
    with concurrent.futures.ThreadPoolExecutor(max_workers=jobs) as ex:
        for r in ex.map(lambda x: run_variant(x, str(max(1, 16 // jobs))), todo):
            res.append(r)
            tag = 'OK  ' if r['ok'] else 'FAIL'
            print('%s %-32s %-6s %s' % (tag, r['name'], r['kind'], r.get('error') or
                                        ' '.join('%s=%d' % (k, x['exit']) for k, x in r['results'].items())))
            if not r['ok']:
                for k, x in r['results'].items():
                    print('       %s: %s' % (k, x['first']))
            sys.stdout.flush()
    if not flt:
        json.dump(res, open(os.path.join(HERE, 'selftest_results.json'), 'w'), indent=1)
    bad = [r for r in res if not r['ok']]
    print('%d variants, %d as expected, %d not' % (len(res), len(res) - len(bad), len(bad)))
    return 1 if bad else 0


if __name__ == '__main__':
    sys.exit(main())
