#!/venv/bin/python
"""Refresh Appendix B of DESIGN.md (detection summary of the seeded changes and the benign refactorings) from
seeded/*/meta.json and benign/*/meta.json.  The full matrix is SEEDS.md (tools/seed_matrix.py)."""
import json, os, re
HERE = os.path.dirname(os.path.dirname(os.path.abspath(__file__)))
seeds = []
for name in sorted(os.listdir(os.path.join(HERE, 'seeded'))):
    mp = os.path.join(HERE, 'seeded', name, 'meta.json')
    if not os.path.exists(mp):
        continue
    m = json.load(open(mp))
    v = m.get('verification', {})
    ch = v.get('checks', {})
    seeds.append({'name': name, 'prop': m.get('property', name.split('-')[0]), 'round': m.get('round', 1 if int(name.split('-')[1]) <= 2 else 2),
                  'confirmed': bool(v.get('result', {}).get('confirmed')), 'summary': (m.get('summary') or '').replace('\n', ' '),
                  'fired': sorted(k for k, x in ch.items() if x.get('exit') == 1), 'err': sorted(k for k, x in ch.items() if x.get('exit') not in (0, 1)),
                  'ran': len(ch)})
props = sorted({s['prop'] for s in seeds})
out = ['<!-- appendixB -->', '## Appendix B - which checks report which seeded changes (as built)', '',
       'Full matrix: `SEEDS.md` (one row per seeded change: what was changed, whether it was confirmed on HEAD, the checks that exit 1 on it, the',
       'checks that could not analyse the patched tree). Summary per property (a change counts as *own* when the check of the property',
       'it was written against reports it, as *neighbour* when only checks of other properties do). The *own* column is from the last',
       'full sensitivity audit (`audit/<id>.json`, the committed checks); entries of the other checks were refreshed with the final',
       'checks for every change its own check does not report and for a sample of the others, and otherwise come from the last',
       'all-checks run that included the change (each entry of `seeded/*/meta.json` names the /verif commit it was produced at):', '',
       '| property | seeded changes | own | neighbour only | reported by none | checks that most often report them |', '|---|---|---|---|---|---|']
tot = [0, 0, 0, 0]
for p in props:
    ss = [s for s in seeds if s['prop'] == p and s['confirmed'] and s['ran']]
    own = [s for s in ss if p in s['fired']]
    nb = [s for s in ss if p not in s['fired'] and s['fired']]
    none = [s for s in ss if not s['fired']]
    cnt = {}
    for s in ss:
        for c in s['fired']:
            cnt[c] = cnt.get(c, 0) + 1
    top = ', '.join('%s (%d)' % (c, n) for c, n in sorted(cnt.items(), key=lambda x: -x[1])[:4])
    out.append('| %s | %d | %d | %d | %s | %s |' % (p, len(ss), len(own), len(nb), ', '.join(s['name'] for s in none) or '0', top))
    tot[0] += len(ss); tot[1] += len(own); tot[2] += len(nb); tot[3] += len(none)
out.append('| all | %d | %d | %d | %d | |' % tuple(tot))
out += ['', 'By round (each later round was asked for changes of a different nature than the earlier ones, and was written against the checks as they',
        'stood *before* the misses of that round were turned into rules; the numbers below are for the final checks):', '',
        '| round | changes | reported by the own check | by some check | by none |', '|---|---|---|---|---|']
for r in sorted({s['round'] for s in seeds}):
    ss = [s for s in seeds if s['round'] == r and s['confirmed'] and s['ran']]
    out.append('| %s | %d | %d | %d | %d |' % (r, len(ss), sum(1 for s in ss if s['prop'] in s['fired']), sum(1 for s in ss if s['fired']),
                                             sum(1 for s in ss if not s['fired'])))
none = [s for s in seeds if s['confirmed'] and s['ran'] and not s['fired']]
out += ['', '**Changes no check reports** (where a check stopped with an analysis error on the changed tree - exit 2: the rewritten code is',
        'outside the shapes the analysis recognises, reported as such and never as "holds" - it is named; the others are real misses:',
        'the change keeps every structural rule intact and breaks the property through values the analysis does not track):', '']
for s in none:
    out.append('* `%s` - %s (analysis errors: %s)' % (s['name'], s['summary'][:220], ', '.join(s['err']) or 'none'))
nbonly = [s for s in seeds if s['confirmed'] and s['ran'] and s['fired'] and s['prop'] not in s['fired']]
out += ['', '**Changes reported only by the check of a neighbouring property** (after the imports of section 2 these are the cases where',
        'the neighbouring rule is *not* a necessary condition of the property the change was written against - the change breaks a',
        'clause the neighbouring property states and the own property does not - or where the own check stops with an analysis error):', '']
for s in nbonly:
    out.append('* `%s` -> %s' % (s['name'], ', '.join(s['fired'])))
# benign
b = []
bdir = os.path.join(HERE, 'benign')
for name in sorted(os.listdir(bdir)):
    mp = os.path.join(bdir, name, 'meta.json')
    if os.path.exists(mp):
        m = json.load(open(mp))
        ch = m.get('checks', {})
        b.append((name, sorted(k for k, x in ch.items() if x.get('exit') == 1), sorted(k for k, x in ch.items() if x.get('exit') not in (0, 1)), len(ch)))
ran = [x for x in b if x[3]]
out += ['', '**Behaviour-preserving refactorings** (`benign/`, %d patches, %d run against all 20 checks with the final code): %d with a false alarm, '
        '%d with at least one analysis error (%s). Source: the last full audit (`audit/<id>.json`).' % (len(b), len(ran), sum(1 for x in ran if x[1]), sum(1 for x in ran if x[2]),
                                                     '; '.join('`%s`: %s' % (x[0], ', '.join(x[2])) for x in ran if x[2]) or 'none'),
        '<!-- /appendixB -->', '']
p = os.path.join(HERE, 'DESIGN.md')
s = open(p).read()
s = re.sub(r'<!-- appendixB -->.*?<!-- /appendixB -->\n', '', s, flags=re.S)
s = s.rstrip('\n') + '\n\n' + '\n'.join(out)
open(p, 'w').write(s)
print('Appendix B refreshed:', tot)
