#!/venv/bin/python
"""Insert / refresh the "As built" blocks of DESIGN.md section 3 from evidence/*.json (rule ids, what each
requires, obligation counts of the clean-tree run).  Idempotent: blocks sit between <!-- asbuilt:Cxx --> markers."""
import json, os, re
HERE = os.path.dirname(os.path.dirname(os.path.abspath(__file__)))
p = os.path.join(HERE, 'DESIGN.md')
s = open(p).read()
s = re.sub(r'\n<!-- asbuilt:C\d\d -->.*?<!-- /asbuilt -->\n', '\n', s, flags=re.S)
for f in sorted(os.listdir(os.path.join(HERE, 'evidence'))):
    if not f.endswith('.json'):
        continue
    e = json.load(open(os.path.join(HERE, 'evidence', f)))
    pid = e['property_id']
    c = e['coverage']
    lines = ['<!-- asbuilt:%s -->' % pid,
             '*As built* (%d obligations on the clean tree, %s; the numbering below is the one the check prints and '
             'RULES.md lists - it supersedes the plan numbering of this section where they differ):' % (c['obligations'], 'level ' + e['level']), '']
    for rid, r in c['rules'].items():
        lines.append('* `%s` (%d): %s' % (rid, r['instances'], r['desc']))
    if c.get('known_findings_reproduced'):
        lines.append('* known findings reproduced: ' + ', '.join('`%s`' % k for k in c['known_findings_reproduced']))
    lines += ['<!-- /asbuilt -->', '']
    m = re.search(r'^### %s [^\n]*\n' % pid, s, flags=re.M)
    if not m:
        print('no section for', pid)
        continue
    s = s[:m.end()] + '\n' + '\n'.join(lines) + s[m.end():]
open(p, 'w').write(s)
print('DESIGN.md refreshed')
